"""C01 / C02: the block merge of Array.ibinary_blockwise (the engine behind +, -, iadd_prefactor_other, ...).

View of a tensor: a map  key -> block , key = F-style mixed-radix number of the block's _qdata row (the code's own
`np.sum(q * stride, axis=1)`; rows and keys correspond one-to-one for in-range rows, assumed).  Blocks are opaque,
`func` is an uninterpreted binary function F, zeros_like an uninterpreted Z.
Contract (from "a tensor whose dense form equals the same numpy operation applied to the dense forms"):
the result's keys are exactly keys(a) | keys(b), each once, ascending; the block at a key is F(a_k, b_k), F(0, b_k) or
F(a_k, 0) as the key is in both / only b / only a.
Preludes (label transposition, argument checks, dtype promotion) are abstract; `isort_qdata` must have been called on both
operands before the merge (obligation), which is what makes the key arrays ascending.
"""
import z3

from pyvc.contract import Contract, Int, Bool, Opaque, List, Obj, Const
from pyvc.interp import Builtin, StarredSeq
from pyvc.values import SObj, SArr, Opq, U

NPC = 'tenpy/linalg/np_conserved.py'
F = z3.Function('func!blocks', U, U, U)
Z = z3.Function('zeros_like!block', U, U)


def _qdata(I, name):
    keys = SArr(z3.Int(f'N{name}'), [z3.Array(f'keys{name}', z3.IntSort(), z3.IntSort())], 'int', True)
    q = SObj('GhostQData', None, {'keys': keys})
    q.attrs['__len__'] = Builtin(lambda I_: keys.n, 'len(qdata)')
    q.attrs['__getitem__'] = Builtin(lambda I_, idx: I_.arr_getitem(keys, idx), 'qdata[i]')     # a row is identified by its key
    q.attrs['__mul__'] = Builtin(lambda I_, stride: SObj('GhostQTimesStride', None, {'keys': keys}), 'qdata*stride')

    def eq(I_, other):
        ko = other.attrs['keys']
        k = z3.Int('k!eq')
        return z3.And(keys.n == ko.n, z3.ForAll([k], z3.Implies(z3.And(0 <= k, k < keys.n), z3.Select(keys.leaves[0], k) == z3.Select(ko.leaves[0], k))))
    q.attrs['__eq__'] = Builtin(eq, 'qdata==qdata')
    return q, keys


def _setup(I, env):
    g = I.ghost['__env__'] = {}
    for nm, o in (('a', env['self']), ('b', env['other'])):
        q, keys = _qdata(I, nm)
        I.assume(keys.n >= 0)
        o.attrs['_qdata'] = q
        data = SArr(keys.n, [z3.Array(f'data{nm}', z3.IntSort(), U)], 'U', False)
        o.attrs['_data'] = data
        g[f'k{nm}'] = keys
        g[f'd{nm}'] = data.copy()
        g[f'sorted_{nm}'] = False
        # strictly ascending keys (what isort_qdata establishes; transitive form)
        p, q2 = z3.Ints(f'p!{nm} q!{nm}')
        I.assume(z3.ForAll([p, q2], z3.Implies(z3.And(0 <= p, p < q2, q2 < keys.n),
                                              z3.Select(keys.leaves[0], p) < z3.Select(keys.leaves[0], q2))))
    env['func'] = Builtin(lambda I_, x, y: Opq(F(x.t, y.t)), 'func')
    I.ghost['param_is'] = (env['self'], env['other'])


def _isort(I, f, args, kwargs):
    g = I.ghost['__env__']
    a, b = I.ghost['param_is']
    if f.self_obj is a:
        g['sorted_a'] = True
    if f.self_obj is b:
        g['sorted_b'] = True
    return None


def _np_sum(I, x, axis=None, **kw):
    if isinstance(x, SObj) and 'keys' in x.attrs:
        return x.attrs['keys']
    raise Exception('np.sum on unexpected value')


def _np_array(I, x, dtype=None, **kw):
    if isinstance(x, SArr):
        r = x.copy()
        r.np = True
        return r
    if isinstance(x, list) and not x:
        return SArr(0, [z3.K(z3.IntSort(), z3.IntVal(0))], 'int', True)
    raise Exception('np.array on unexpected value')


def _np_all(I, x, **kw):
    return x


_HOOKS = {
    f'{NPC}::Array._transpose_same_labels': lambda I, f, args, kwargs: f.self_obj,
    'tenpy/tools/optimization.py::optimize': lambda I, f, args, kwargs: True,      # argument checks skipped (legs equal: precondition)
    f'{NPC}::Array.isort_qdata': _isort,
    'tenpy/linalg/charges.py::_make_stride': lambda I, f, args, kwargs: Opq(base='stride'),
    'module:numpy.sum': _np_sum, 'module:numpy.array': _np_array, 'module:numpy.all': _np_all,
    'module:numpy.zeros_like': lambda I, x: Opq(Z(x.t)),
    'module:numpy.result_type': lambda I, *a, **k: Opq(base='dtype'),
    'module:numpy.asarray': lambda I, x, dtype=None: x,        # value-preserving cast of a block (assumed)
}

_VIEW = [
    # keys of the result strictly ascending (each once)
    'forall2(0, len(qd), lambda p, q: implies(p < q, qd[p] < qd[q]))',
    'len(qd) == len(dd)',
    # completeness: every key of a and of b occurs
    'forall(0, len(ka), lambda p: exists(0, len(qd), lambda k: qd[k] == ka[p]))',
    'forall(0, len(kb), lambda q: exists(0, len(qd), lambda k: qd[k] == kb[q]))',
    # soundness + values: every entry stems from a or b, with the documented block
    'forall(0, len(qd), lambda k: exists(0, len(ka), lambda p: ka[p] == qd[k]) or exists(0, len(kb), lambda q: kb[q] == qd[k]))',
    'forall(0, len(qd), lambda k: forall(0, len(ka), lambda p: forall(0, len(kb), lambda q: '
    'implies(ka[p] == qd[k] and kb[q] == qd[k], dd[k] == func(da[p], db[q])))))',
    'forall(0, len(qd), lambda k: forall(0, len(ka), lambda p: implies(ka[p] == qd[k] and forall(0, len(kb), lambda q: kb[q] != qd[k]), '
    'dd[k] == func(da[p], zeros(da[p])))))',
    'forall(0, len(qd), lambda k: forall(0, len(kb), lambda q: implies(kb[q] == qd[k] and forall(0, len(ka), lambda p: ka[p] != qd[k]), '
    'dd[k] == func(zeros(db[q]), db[q]))))',
]


def _call(I, env):
    from pyvc.interp import FuncVal
    from pyvc import source
    mod, cls, fn = source.locate(f'{NPC}::Array.ibinary_blockwise')
    s = env['self']
    res = I.call_function(FuncVal(mod, fn, self_obj=s, cls='Array'), [env['func'], env['other']], {})
    fr = I.frames[-1]
    qd = s.attrs['_qdata']
    fr.locals['qd'] = qd.attrs['keys'] if isinstance(qd, SObj) else qd
    fr.locals['dd'] = s.attrs['_data']
    fr.locals['zeros'] = Builtin(lambda I_, x: Opq(Z(x.t)), 'zeros')
    fr.locals['ka'], fr.locals['kb'] = I.ghost['__env__']['ka'], I.ghost['__env__']['kb']
    fr.locals['da'], fr.locals['db'] = I.ghost['__env__']['da'], I.ghost['__env__']['db']
    return res


_ARR = lambda: Obj('Array', NPC, {'rank': Int(), '_labels': Const(['a']), 'legs': Const([]), 'qtotal': Opaque(), 'dtype': Opaque(),
                                  '_qdata_sorted': Bool()})

Contract(
    target=f'{NPC}::Array.ibinary_blockwise', props=['C01', 'C02'], name='Array.ibinary_blockwise[block merge]',
    params={'self': _ARR(), 'func': Const(None), 'other': _ARR()},
    setup=_setup, hooks=_HOOKS, call=_call,
    requires=['self is not other'],
    ensures=_VIEW + ['sorted_a and sorted_b', 'result is self'],
    loops={0: {
        'as_arr': {'data': 'U', 'qdata': 'int'},
        'inv': ['0 <= i <= Na and 0 <= j <= Nb and Na == len(ka) and Nb == len(kb) and len(data) == len(qdata)',
                'forall(0, Na, lambda p: aq_[p] == ka[p] and adata[p] == da[p])', 'forall(0, Nb, lambda q: bq_[q] == kb[q] and bdata[q] == db[q])',
                'len(aq_) == Na and len(bq_) == Nb and len(adata) == Na and len(bdata) == Nb',
                'forall2(0, len(qdata), lambda p, q: implies(p < q, qdata[p] < qdata[q]))',
                # everything emitted so far lies below both cursors
                'forall(0, len(qdata), lambda k: implies(i < Na, qdata[k] < ka[i]) and implies(j < Nb, qdata[k] < kb[j]))',
                'forall(0, i, lambda p: exists(0, len(qdata), lambda k: qdata[k] == ka[p]))',
                'forall(0, j, lambda q: exists(0, len(qdata), lambda k: qdata[k] == kb[q]))',
                'forall(0, len(qdata), lambda k: exists(0, i, lambda p: ka[p] == qdata[k]) or exists(0, j, lambda q: kb[q] == qdata[k]))',
                'forall(0, len(qdata), lambda k: forall(0, Na, lambda p: forall(0, Nb, lambda q: '
                'implies(ka[p] == qdata[k] and kb[q] == qdata[k], data[k] == func(da[p], db[q])))))',
                'forall(0, len(qdata), lambda k: forall(0, Na, lambda p: implies(ka[p] == qdata[k] and forall(0, Nb, lambda q: kb[q] != qdata[k]), '
                'data[k] == func(da[p], zeros(da[p])))))',
                'forall(0, len(qdata), lambda k: forall(0, Nb, lambda q: implies(kb[q] == qdata[k] and forall(0, Na, lambda p: ka[p] != qdata[k]), '
                'data[k] == func(zeros(db[q]), db[q]))))'],
        'decreases': '(Na - i) + (Nb - j)',
        'frame': {'self': []}}},
)
