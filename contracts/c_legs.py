"""C03 / C02 / C06: the leg-returning methods of LegCharge and LegPipe leave `self` alone and return a fresh object.

"Shared LegCharge objects are never mutated" (C03): legs are shared between tensors by reference, so a method that
returns a modified leg must build it on a copy.  For copy / conj / flip_charges_qconj (LegCharge) and copy / conj /
outer_conj (LegPipe) the real source is executed on a symbolic leg (charges opaque, slices a symbolic array) and
* frame: every attribute of `self` (and of the incoming legs of a pipe) is the value it had on entry,
* freshness: the result is not `self`; the incoming legs of a conjugated pipe are fresh, too,
* content: qconj flipped; charges kept (conj) or negated-and-reduced (flip, outer_conj),
* truthful claims (C02): `sorted` is kept only where the charges are kept, set to False by flip_charges_qconj and
  recomputed by outer_conj (assumed contract of LegCharge.is_sorted: it returns the specification predicate).
Array-valued attributes are immutable values in the model: an in-place numpy update of `self.charges` / `self.slices`
shows up as a changed attribute (rebinding) or leaves the verified subset (item assignment on an opaque value).
"""
import z3

from pyvc.contract import Contract, Int, Bool, Opaque, NpArr, Obj, OneOf, FixedList
from pyvc.interp import Builtin
from pyvc.values import Opq, U, to_z3

CH = 'tenpy/linalg/charges.py'
_MV = z3.Function('make_valid!spec', U, U, U)        # ChargeInfo.make_valid(charges): assumed (numpy modulo, C02)
_SORTED = z3.Function('is_sorted!spec', U, z3.BoolSort())
_NEG = z3.Function('neg!U', U, U)

_CHINFO = Obj('ChargeInfo', CH, {'_qnumber': Int(), 'tag': Opaque()})
_LEG_ATTRS = {'ind_len': Int(), 'block_number': Int(), 'chinfo': _CHINFO, 'slices': NpArr('int'), 'charges': Opaque(),
              'qconj': OneOf(1, -1), 'sorted': Bool(), 'bunched': Bool()}
_LEG = Obj('LegCharge', CH, dict(_LEG_ATTRS))
_FRAME = ['self.ind_len == old(self.ind_len) and self.block_number == old(self.block_number) and self.chinfo is chinfo0',
          'self.charges == old(self.charges) and self.qconj == old(self.qconj)',
          'self.sorted == old(self.sorted) and self.bunched == old(self.bunched)',
          'len(self.slices) == old(len(self.slices)) and forall(0, len(self.slices), lambda k: self.slices[k] == old(self.slices)[k])']
_SAME_STRUCTURE = ['result.ind_len == self.ind_len and result.block_number == self.block_number and result.chinfo is self.chinfo',
                   'len(result.slices) == len(self.slices) and forall(0, len(self.slices), lambda k: result.slices[k] == self.slices[k])',
                   'result.bunched == self.bunched']


def _make_valid(I, f, args, kwargs):
    ch = f.self_obj
    x = args[0] if args else kwargs.get('charges')
    return Opq(_MV(to_z3(ch.attrs['tag'], U), to_z3(x, U)))


def _is_sorted(I, f, args, kwargs):
    return _SORTED(to_z3(f.self_obj.attrs['charges'], U))


def _setup(I, env):
    # identities on entry (old() snapshots values, not identities)
    ids = {'chinfo0': env['self'].attrs['chinfo']}
    if 'legs' in env['self'].attrs:
        ids['leg0'], ids['leg1'] = env['self'].attrs['legs']
    I.ghost['__env__'] = {
        **ids,
        'mv': Builtin(lambda I2, ch, x: Opq(_MV(to_z3(ch.attrs['tag'], U), to_z3(x, U))), 'mv'),
        'neg': Builtin(lambda I2, x: Opq(_NEG(to_z3(x, U))), 'neg'),
        'spec_sorted': Builtin(lambda I2, x: _SORTED(to_z3(x, U)), 'spec_sorted')}


_HOOKS = {f'{CH}::ChargeInfo.make_valid': _make_valid, f'{CH}::LegCharge.is_sorted': _is_sorted}

Contract(target=f'{CH}::LegCharge.copy', props=['C03'], params={'self': _LEG}, setup=_setup, hooks=_HOOKS,
         ensures=_FRAME + _SAME_STRUCTURE + ['result is not self', 'result.qconj == self.qconj and result.charges == self.charges',
                                             'result.sorted == self.sorted'])

Contract(target=f'{CH}::LegCharge.conj', props=['C03', 'C06', 'C02'], params={'self': _LEG}, setup=_setup, hooks=_HOOKS,
         ensures=_FRAME + _SAME_STRUCTURE + ['result is not self', 'result.qconj == -self.qconj', 'result.charges == self.charges',
                                             'result.sorted == self.sorted'])

Contract(target=f'{CH}::LegCharge.flip_charges_qconj', props=['C03', 'C06', 'C02'], params={'self': _LEG}, setup=_setup, hooks=_HOOKS,
         ensures=_FRAME + _SAME_STRUCTURE + ['result is not self', 'result.qconj == -self.qconj',
                                             'result.charges == mv(self.chinfo, neg(self.charges))',
                                             # negation reverses the order: the claim must be dropped (or recomputed)
                                             'result.sorted == False or result.sorted == spec_sorted(result.charges)'])

# a pipe over two incoming legs (the comprehension over self.legs is executed for each)
_IN1 = Obj('LegCharge', CH, dict(_LEG_ATTRS))
_IN2 = Obj('LegCharge', CH, dict(_LEG_ATTRS))
_PIPE = Obj('LegPipe', CH, dict(_LEG_ATTRS, nlegs=Int(), legs=FixedList([_IN1, _IN2], as_tuple=True), subshape=Opaque(), subqshape=Opaque(),
                                q_map=Opaque(), q_map_slices=Opaque(), _perm=Opaque(), _strides=Opaque()))
_PIPE_FRAME = _FRAME + ['self.nlegs == old(self.nlegs) and self.q_map == old(self.q_map) and self.q_map_slices == old(self.q_map_slices)',
                        'self._perm == old(self._perm) and self._strides == old(self._strides) and self.subshape == old(self.subshape) '
                        'and self.subqshape == old(self.subqshape)',
                        'len(self.legs) == 2 and self.legs[0] is leg0 and self.legs[1] is leg1',
                        # the incoming legs themselves are untouched
                        'self.legs[0].qconj == old(self.legs[0].qconj) and self.legs[1].qconj == old(self.legs[1].qconj)',
                        'self.legs[0].charges == old(self.legs[0].charges) and self.legs[1].charges == old(self.legs[1].charges)',
                        'self.legs[0].sorted == old(self.legs[0].sorted) and self.legs[1].sorted == old(self.legs[1].sorted)']
_PIPE_SAME = _SAME_STRUCTURE + ['result.nlegs == self.nlegs and result.q_map == self.q_map and result.q_map_slices == self.q_map_slices',
                                'result._perm == self._perm and result._strides == self._strides']

Contract(target=f'{CH}::LegPipe.copy', props=['C03'], params={'self': _PIPE}, setup=_setup, hooks=_HOOKS,
         ensures=_PIPE_FRAME + _PIPE_SAME + ['result is not self', 'result.qconj == self.qconj and result.charges == self.charges',
                                            'result.legs[0] is self.legs[0] and result.legs[1] is self.legs[1]'])

Contract(target=f'{CH}::LegPipe.conj', props=['C03', 'C06'], params={'self': _PIPE}, setup=_setup, hooks=_HOOKS,
         ensures=_PIPE_FRAME + _PIPE_SAME + [
             'result is not self', 'result.qconj == -self.qconj and result.charges == self.charges and result.sorted == self.sorted',
             # "the incoming legs of the pipe are also conjugated" - on fresh objects
             'len(result.legs) == 2 and result.legs[0] is not self.legs[0] and result.legs[1] is not self.legs[1]',
             'result.legs[0].qconj == -self.legs[0].qconj and result.legs[1].qconj == -self.legs[1].qconj',
             'result.legs[0].charges == self.legs[0].charges and result.legs[1].charges == self.legs[1].charges'])

Contract(target=f'{CH}::LegPipe.outer_conj', props=['C03', 'C02'], params={'self': _PIPE}, setup=_setup, hooks=_HOOKS,
         ensures=_PIPE_FRAME + [
             'result is not self', 'result.qconj == -1',
             'result.charges == mv(self.chinfo, neg(self.charges))',
             # the claim is recomputed for the negated charges (F-04)
             'result.sorted == spec_sorted(result.charges)',
             'result.legs[0] is self.legs[0] and result.legs[1] is self.legs[1]'])

# a pipe whose first incoming leg is itself a pipe: conjugation reaches every level (otherwise the legs obtained by splitting the
# conjugate level by level are not the conjugates of the original legs: C06 "conjugate legs stay contractible")
_IN3 = Obj('LegCharge', CH, dict(_LEG_ATTRS))
_IN4 = Obj('LegCharge', CH, dict(_LEG_ATTRS))
_INNER = Obj('LegPipe', CH, dict(_LEG_ATTRS, nlegs=Int(), legs=FixedList([_IN3, _IN4], as_tuple=True), subshape=Opaque(), subqshape=Opaque(),
                                 q_map=Opaque(), q_map_slices=Opaque(), _perm=Opaque(), _strides=Opaque()))
_NESTED = Obj('LegPipe', CH, dict(_LEG_ATTRS, nlegs=Int(), legs=FixedList([_INNER, _IN2], as_tuple=True), subshape=Opaque(), subqshape=Opaque(),
                                  q_map=Opaque(), q_map_slices=Opaque(), _perm=Opaque(), _strides=Opaque()))



def _hunt_nested():
    """witness on the real classes: conjugate a pipe of (pipe, leg) and look at the innermost legs"""
    from tenpy.linalg import charges
    ci = charges.ChargeInfo([1])
    for q1, q2 in ((1, 1), (1, -1), (-1, 1)):
        l1 = charges.LegCharge.from_qflat(ci, [0, 1, 1], q1)
        l2 = charges.LegCharge.from_qflat(ci, [0, 2], q2)
        inner = charges.LegPipe([l1, l2])
        outer = charges.LegPipe([inner, l2])
        before = [x.qconj for x in inner.legs]
        c = outer.conj()
        got = [x.qconj for x in c.legs[0].legs]
        if got != [-x for x in before] or [x.qconj for x in inner.legs] != before or c.legs[0].legs[0] is inner.legs[0]:
            return {'input': {'pipe': 'LegPipe([LegPipe([l1, l2]), l2])', 'qconj of l1, l2': [q1, q2]},
                    'observed': f'innermost legs of pipe.conj() have qconj {got}, those of pipe {before} (now {[x.qconj for x in inner.legs]})'}
    return None


Contract(target=f'{CH}::LegPipe.conj', props=['C03', 'C06'], name='LegPipe.conj[nested pipe]', params={'self': _NESTED}, setup=_setup, hooks=_HOOKS, hunt=_hunt_nested,
         ensures=_PIPE_FRAME + _PIPE_SAME + [
             'result is not self', 'result.qconj == -self.qconj and result.charges == self.charges',
             'len(result.legs) == 2 and result.legs[0] is not self.legs[0] and result.legs[1] is not self.legs[1]',
             'result.legs[0].qconj == -self.legs[0].qconj and result.legs[1].qconj == -self.legs[1].qconj',
             # the inner pipe is conjugated as a pipe: its own incoming legs are flipped, on fresh objects, charges kept
             'len(result.legs[0].legs) == 2',
             'result.legs[0].legs[0] is not self.legs[0].legs[0] and result.legs[0].legs[1] is not self.legs[0].legs[1]',
             'result.legs[0].legs[0].qconj == -self.legs[0].legs[0].qconj and result.legs[0].legs[1].qconj == -self.legs[0].legs[1].qconj',
             'result.legs[0].legs[0].charges == self.legs[0].legs[0].charges and result.legs[0].legs[1].charges == self.legs[0].legs[1].charges',
             # ... and the inner pipe of self is left alone
             'self.legs[0].legs[0].qconj == old(self.legs[0].legs[0].qconj) and self.legs[0].legs[1].qconj == old(self.legs[0].legs[1].qconj)',
             'self.legs[0].q_map == old(self.legs[0].q_map) and self.legs[0].nlegs == old(self.legs[0].nlegs)'])


# ---------------------------------------------------------------------------------------------------------------
# C02 / C06: LegCharge.bunch - merge neighbouring blocks of equal charge.  Charges are one opaque value per block here (a row of the
# charge matrix); `_find_row_differences` enters with the contract that is *proved* for the compiled kernel in c_pyx.py (strictly
# ascending, first 0, last = number of rows, contains exactly the places where a row differs from its predecessor).
# Clauses: block b of the result starts where block idx[b] of `self` started and carries its charge; every block of `self` lies
# inside a result block with the same charge (so every index keeps its charge - C06); neighbouring result blocks differ in charge
# (the flag `bunched` that is set is true - C02); `sorted` is inherited (merging equal neighbours cannot unsort); `self` is untouched
# and the result is a new object unless nothing is to be done (C03).
from pyvc.contract import NpArr as _NpArr2, Const
from pyvc.values import SArr as _SArr, fresh_int as _fresh_int


def _frd(I, *args, **kwargs):
    """assumed contract of _find_row_differences(charges) for a 1-D array of opaque rows"""
    ch = args[-1] if args else kwargs.get('qflat')
    n = to_z3(ch.n)
    idx = _SArr.fresh('int', 'rowdiff')
    idx.np = True
    m = to_z3(idx.n)
    a, c = idx.leaves[0], ch.leaves[0]
    k, j = z3.Int('k!frd'), z3.Int('j!frd')
    I.assume(z3.And(m >= 1, z3.Select(a, 0) == 0, z3.Select(a, m - 1) == n, m <= n + 1))
    I.assume(z3.ForAll([k], z3.Implies(z3.And(0 <= k, k < m - 1), z3.Select(a, k) < z3.Select(a, k + 1))))
    I.assume(z3.ForAll([k], z3.Implies(z3.And(1 <= k, k < m - 1), z3.And(1 <= z3.Select(a, k), z3.Select(a, k) < n))))
    # i in idx (0 < i < n)  <=>  row i differs from row i - 1
    I.assume(z3.ForAll([k], z3.Implies(z3.And(1 <= k, k < m - 1), z3.Select(c, z3.Select(a, k)) != z3.Select(c, z3.Select(a, k) - 1))))
    # between two listed places the rows do not change (the proved contract says: every place of change is listed; with the strictly
    # ascending order that is "no change strictly between two neighbouring entries") - stated in the closed form "each run is constant",
    # which follows from the adjacent form by induction over the run (the solver does no induction)
    I.assume(z3.ForAll([k, j], z3.Implies(z3.And(0 <= k, k < m - 1, z3.Select(a, k) <= j, j < z3.Select(a, k + 1)), z3.Select(c, j) == z3.Select(c, z3.Select(a, k)))))
    I.trusted.add('_find_row_differences: contract proved for the compiled kernel (c_pyx.py), assumed for the implementation in use')
    return idx



def _hunt_bunch():
    """witness on real legs: small charge sequences with repeated neighbours"""
    import itertools
    import numpy as np
    from tenpy.linalg import charges
    ci = charges.ChargeInfo([1])
    for n in (1, 2, 3, 4):
        for qs in itertools.product([0, 1], repeat=n):
            for sizes in ([1] * n, list(range(1, n + 1))):
                slices = np.concatenate([[0], np.cumsum(sizes)])
                leg = charges.LegCharge(ci, slices, np.array(qs).reshape(n, 1), 1)
                before = (leg.slices.copy(), leg.charges.copy(), leg.sorted, leg.bunched, leg.qconj)
                idx, b = leg.bunch()
                ok = np.array_equal(leg.to_qflat(), b.to_qflat()) and b.ind_len == leg.ind_len and b.qconj == leg.qconj
                ok = ok and all(np.any(b.charges[k] != b.charges[k - 1]) for k in range(1, b.block_number)) and b.bunched
                ok = ok and np.array_equal(b.slices, leg.slices[idx]) and len(idx) == b.block_number + 1
                ok = ok and np.array_equal(before[0], leg.slices) and np.array_equal(before[1], leg.charges) and before[2:] == (leg.sorted, leg.bunched, leg.qconj)
                try:
                    b.test_sanity()
                except Exception as e:
                    ok = False
                if not ok:
                    return {'input': {'charges': list(qs), 'block sizes': list(sizes)},
                            'observed': f'bunch() -> idx {np.asarray(idx).tolist()}, slices {b.slices.tolist()}, charges {b.charges.ravel().tolist()}, flags sorted={b.sorted} bunched={b.bunched}'}
    return None


_BLEG = Obj('LegCharge', CH, {'ind_len': Int(), 'block_number': Int(), 'chinfo': _CHINFO, 'slices': _NpArr2('int'), 'charges': _NpArr2('U'),
                              'qconj': OneOf(1, -1), 'sorted': Bool(), 'bunched': Bool()})
_B_INV = ['self.block_number >= 1 and len(self.charges) == self.block_number and len(self.slices) == self.block_number + 1',
          'self.slices[0] == 0 and self.slices[self.block_number] == self.ind_len',
          'forall(0, self.block_number, lambda b: self.slices[b] < self.slices[b + 1])',
          # the flag, if set, is true (C02: claims are truthful on entry)
          'implies(self.bunched, forall(1, self.block_number, lambda b: self.charges[b] != self.charges[b - 1]))']
_B_FRAME = ['self.ind_len == old(self.ind_len) and self.block_number == old(self.block_number) and self.qconj == old(self.qconj)',
            'self.sorted == old(self.sorted) and self.bunched == old(self.bunched)',
            'len(self.slices) == old(len(self.slices)) and forall(0, len(self.slices), lambda k: self.slices[k] == old(self.slices)[k])',
            'len(self.charges) == old(len(self.charges)) and forall(0, len(self.charges), lambda k: self.charges[k] == old(self.charges)[k])']

Contract(
    target=f'{CH}::LegCharge.bunch', props=['C02', 'C06', 'C03'], params={'self': _BLEG}, setup=_setup, hunt=_hunt_bunch,
    hooks=dict(_HOOKS, **{f'{CH}::_find_row_differences': lambda I, f, a, k: _frd(I, *a, **k), 'global:_find_row_differences': _frd}),
    requires=_B_INV,
    ensures=_B_FRAME + [
        'implies(old(self.bunched), result[1] is self and len(result[0]) == self.block_number + 1 and forall(0, self.block_number + 1, lambda k: result[0][k] == k))',
        'implies(not old(self.bunched), not (result[1] is self))',
        # the new leg: same index range, same direction, blocks = maximal runs of equal charge
        'result[1].ind_len == self.ind_len and result[1].qconj == self.qconj and result[1].chinfo is self.chinfo',
        'result[1].block_number == len(result[0]) - 1 and len(result[1].charges) == result[1].block_number and len(result[1].slices) == result[1].block_number + 1',
        'forall(0, result[1].block_number, lambda b: 0 <= result[0][b] < self.block_number and result[1].slices[b] == self.slices[result[0][b]] '
        'and result[1].charges[b] == self.charges[result[0][b]])',
        'result[1].slices[result[1].block_number] == self.ind_len',
        # every old block keeps its charge: it lies in the new block that starts at the last idx entry <= its number
        'forall(0, result[1].block_number, lambda b: forall(result[0][b], result[0][b + 1], lambda o: self.charges[o] == result[1].charges[b]))',
        # truthful flags
        'result[1].bunched == True and forall(1, result[1].block_number, lambda b: result[1].charges[b] != result[1].charges[b - 1])',
        'result[1].sorted == self.sorted'],
)


# ---------------------------------------------------------------------------------------------------------------
# C06 / C03: LegCharge.extend(extra) - append the blocks of another leg.  Charges again one opaque row per block.  Clauses: the blocks
# of `self` come first, unchanged; block k of `extra` follows at offset ind_len with its sizes, and with the charge that denotes the
# same physical charge in the direction of `self` (kept if the directions agree, negated-and-reduced otherwise) - so every index
# keeps its charge; direction of `self`; both operands untouched, result new.
def _zeros(I, shape, dtype=None, **kw):
    from pyvc import builtins_model as _bm
    if isinstance(shape, tuple) and len(shape) == 2:
        I.trusted.add('np.zeros((n, q)): n rows, all equal to the zero row')
        k = z3.Int('k!z')
        return _SArr(shape[0], [z3.K(z3.IntSort(), z3.Const('zero_row', U))], 'U', True)
    return _bm.np_zeros(I, shape, dtype, **kw)


def _make_valid_rows(I, f, args, kwargs):
    x = args[0] if args else kwargs.get('charges')
    tag = to_z3(f.self_obj.attrs['tag'], U)
    if isinstance(x, _SArr):
        k = z3.Int('k!mv')
        return _SArr(x.n, [z3.Lambda([k], _MV(tag, z3.Select(x.leaves[0], k)))], 'U', True)
    return Opq(_MV(tag, to_z3(x, U)))


def _hunt_extend():
    import itertools
    import numpy as np
    from tenpy.linalg import charges
    for mod in (1, 3):
        ci = charges.ChargeInfo([mod])
        for qa, qb in itertools.product([1, -1], repeat=2):
            a = charges.LegCharge(ci, [0, 1, 3], [[1], [2]], qa)
            b = charges.LegCharge(ci, [0, 2, 3, 4], [[2], [0], [1]], qb)
            fa, fb = (a.slices.copy(), a.charges.copy(), a.qconj), (b.slices.copy(), b.charges.copy(), b.qconj)
            r = a.extend(b)
            phys = lambda leg: ci.make_valid(leg.qconj * leg.to_qflat())
            ok = r.qconj == qa and r.ind_len == 7 and np.array_equal(phys(r), np.concatenate([phys(a), phys(b)]))
            ok = ok and np.array_equal(r.slices, [0, 1, 3, 5, 6, 7])
            ok = ok and all(np.array_equal(x, y) for x, y in zip(fa[:2], (a.slices, a.charges))) and all(np.array_equal(x, y) for x, y in zip(fb[:2], (b.slices, b.charges)))
            if not ok:
                return {'input': {'mod': mod, 'self': {'slices': [0, 1, 3], 'charges': [1, 2], 'qconj': qa},
                                  'extra': {'slices': [0, 2, 3, 4], 'charges': [2, 0, 1], 'qconj': qb}},
                        'observed': f'extend -> slices {r.slices.tolist()}, charges {r.charges.ravel().tolist()}, qconj {r.qconj}: '
                                    f'physical charges {phys(r).ravel().tolist()} vs {np.concatenate([phys(a), phys(b)]).ravel().tolist()}'}
    return None


def _ext_setup(I, env):
    env['extra'].attrs['chinfo'] = env['self'].attrs['chinfo']          # legs of one tensor network share the ChargeInfo object
    _setup(I, env)
    I.ghost['__env__']['mvrow'] = Builtin(lambda I2, ch, x: Opq(_MV(to_z3(ch.attrs['tag'], U), to_z3(x, U))), 'mvrow')


_XLEG = lambda: Obj('LegCharge', CH, {'ind_len': Int(), 'block_number': Int(), 'chinfo': _CHINFO, 'slices': _NpArr2('int'), 'charges': _NpArr2('U'),
                                      'qconj': OneOf(1, -1), 'sorted': Bool(), 'bunched': Bool()})
_X_INV = lambda o: [f'{o}.block_number >= 1 and len({o}.charges) == {o}.block_number and len({o}.slices) == {o}.block_number + 1',
                    f'{o}.slices[0] == 0 and {o}.slices[{o}.block_number] == {o}.ind_len']
_X_FRAME = lambda o: [f'{o}.ind_len == old({o}.ind_len) and {o}.block_number == old({o}.block_number) and {o}.qconj == old({o}.qconj)',
                      f'len({o}.slices) == old(len({o}.slices)) and forall(0, len({o}.slices), lambda k: {o}.slices[k] == old({o}.slices)[k])',
                      f'len({o}.charges) == old(len({o}.charges)) and forall(0, len({o}.charges), lambda k: {o}.charges[k] == old({o}.charges)[k])']

Contract(
    target=f'{CH}::LegCharge.extend', props=['C06', 'C03'], name='LegCharge.extend[leg]', setup=_ext_setup, hunt=_hunt_extend,
    params={'self': _XLEG(), 'extra': _XLEG()},
    hooks={f'{CH}::ChargeInfo.make_valid': _make_valid_rows, f'{CH}::LegCharge.test_sanity': lambda I, f, a, k: None,
           'module:numpy.zeros': _zeros},
    requires=_X_INV('self') + _X_INV('extra') + ['extra.chinfo is self.chinfo'],
    ensures=_X_FRAME('self') + _X_FRAME('extra') + [
        'not (result is self) and not (result is extra)',
        'result.qconj == self.qconj and result.chinfo is self.chinfo',
        'result.block_number == self.block_number + extra.block_number and result.ind_len == self.ind_len + extra.ind_len',
        'len(result.slices) == result.block_number + 1 and len(result.charges) == result.block_number',
        'forall(0, self.block_number + 1, lambda k: result.slices[k] == self.slices[k])',
        'forall(0, extra.block_number + 1, lambda k: result.slices[self.block_number + k] == extra.slices[k] + self.ind_len)',
        'forall(0, self.block_number, lambda k: result.charges[k] == self.charges[k])',
        # the appended blocks denote the same physical charges, written in the direction of self
        'forall(0, extra.block_number, lambda k: result.charges[self.block_number + k] == '
        'ite(self.qconj == extra.qconj, extra.charges[k], mvrow(self.chinfo, neg(extra.charges[k]))))'],
)


# ---------------------------------------------------------------------------------------------------------------
# C02 / C06: LegCharge.sort(bunch) - reorder the blocks by charge.  `lexsort(charges.T)` is assumed to return a permutation `perm` of
# the block numbers for which charges[perm] is ordered (ghost order `row_le` on opaque rows: a total preorder; "sorted" means
# row_le(c[k-1], c[k]) for all k - the assumed contract of LegCharge.is_sorted / np.lexsort; stability is not needed here).
# np.cumsum enters by its recurrence, np.append([0], a) by its element map.
# Clauses: block k of the result is block perm[k] of self - same charge, same size (so every index keeps its charge, C06); the
# claim `sorted` that is set is true; `bunched` is dropped unless bunch=True, then the clauses of bunch() hold for the sorted leg;
# self untouched; nothing to do when the flags already say so.
_LE = z3.Function('row_le', U, U, z3.BoolSort())


def _lexsort(I, *args, **kwargs):
    ch = args[0]                      # charges.T of an array of opaque rows: the hook of `.T` below passes the rows through
    n = to_z3(ch.n)
    perm = _SArr.fresh('int', 'lexperm')
    perm.np = True
    I.assume(to_z3(perm.n) == n)
    p, c = perm.leaves[0], ch.leaves[0]
    k, j = z3.Int('k!ls'), z3.Int('j!ls')
    I.assume(z3.ForAll([k], z3.Implies(z3.And(0 <= k, k < n), z3.And(0 <= z3.Select(p, k), z3.Select(p, k) < n))))
    I.assume(z3.ForAll([k, j], z3.Implies(z3.And(0 <= k, k < j, j < n), z3.Select(p, k) != z3.Select(p, j))))
    I.assume(z3.ForAll([k], z3.Implies(z3.And(1 <= k, k < n), _LE(z3.Select(c, z3.Select(p, k - 1)), z3.Select(c, z3.Select(p, k))))))
    I.trusted.add('lexsort(charges.T): a permutation of the block numbers that orders the rows (np.lexsort)')
    return perm


def _cumsum(I, a, *rest, **kw):
    I.trusted.add('np.cumsum of a 1-D integer array (recurrence)')
    r = _SArr.fresh('int', 'cumsum')
    r.np = True
    I.assume(to_z3(r.n) == to_z3(a.n))
    k = z3.Int('k!cs')
    x, y = r.leaves[0], a.leaves[0]
    I.assume(z3.Implies(to_z3(a.n) >= 1, z3.Select(x, 0) == z3.Select(y, 0)))
    I.assume(z3.ForAll([k], z3.Implies(z3.And(1 <= k, k < to_z3(a.n)), z3.Select(x, k) == z3.Select(x, k - 1) + z3.Select(y, k))))
    return r


def _append0(I, first, a, *rest, **kw):
    I.trusted.add('np.append([0], a) for a 1-D array')
    if not (isinstance(first, list) and len(first) == 1):
        from pyvc.interp import Unsupported
        raise Unsupported('np.append: only np.append([x], array)')
    k = z3.Int('k!ap')
    return _SArr(to_z3(a.n) + 1, [z3.Lambda([k], z3.If(k == 0, to_z3(first[0]), z3.Select(a.leaves[0], k - 1)))], 'int', True)


def _sort_setup(I, env):
    _setup(I, env)
    I.ghost['__env__']['row_le'] = Builtin(lambda I2, x, y: _LE(to_z3(x, U), to_z3(y, U)), 'row_le')



def _hunt_sort():
    """witness on real legs: all short charge sequences over two values, both options"""
    import itertools
    import numpy as np
    from tenpy.linalg import charges
    ci = charges.ChargeInfo([1])
    for n in (1, 2, 3, 4):
        for qs in itertools.product([1, 0, 2], repeat=n):
            sizes = list(range(1, n + 1))
            slices = np.concatenate([[0], np.cumsum(sizes)])
            for bunch in (False, True):
                leg = charges.LegCharge(ci, slices, np.array(qs).reshape(n, 1), -1)
                before = (leg.slices.copy(), leg.charges.copy())
                perm, srt = leg.sort(bunch=bunch)
                flat = leg.to_qflat()
                pf = leg.perm_flat_from_perm_qind(perm)
                ok = np.array_equal(srt.to_qflat(), flat[pf]) and srt.ind_len == leg.ind_len and srt.qconj == leg.qconj
                ok = ok and np.all(np.diff(srt.to_qflat()[:, 0]) >= 0) and srt.sorted
                ok = ok and (not srt.bunched or all(np.any(srt.charges[k] != srt.charges[k - 1]) for k in range(1, srt.block_number)))
                ok = ok and (not bunch or srt.bunched) and np.array_equal(before[0], leg.slices) and np.array_equal(before[1], leg.charges)
                try:
                    srt.test_sanity()
                except Exception:
                    ok = False
                if not ok:
                    return {'input': {'charges': list(qs), 'block sizes': sizes, 'bunch': bunch},
                            'observed': f'sort -> perm {np.asarray(perm).tolist()}, slices {srt.slices.tolist()}, charges {srt.charges.ravel().tolist()}, sorted={srt.sorted} bunched={srt.bunched}'}
    return None


_SORTED_SPEC = lambda o: f'forall(1, {o}.block_number, lambda b: row_le({o}.charges[b - 1], {o}.charges[b]))'

for _bunch in (False, True):
    Contract(
        target=f'{CH}::LegCharge.sort', props=['C02', 'C06', 'C03'], name=f'LegCharge.sort[bunch={_bunch}]', setup=_sort_setup, hunt=_hunt_sort,
        params={'self': _BLEG, 'bunch': Const(_bunch)},
        hooks=dict(_HOOKS, **{f'{CH}::_find_row_differences': lambda I, f, a, k: _frd(I, *a, **k), 'global:_find_row_differences': _frd,
                              'global:lexsort': _lexsort, 'import:tenpy.tools.misc.lexsort': _lexsort,
                              'module:numpy.cumsum': _cumsum, 'module:numpy.append': _append0}),
        requires=_B_INV + ['implies(self.sorted, ' + _SORTED_SPEC('self') + ')'],
        ensures=_B_FRAME + [
            # (result.ind_len == self.ind_len is *not* among the clauses: it is the invariance of a sum under a permutation, an inductive
            #  fact outside the solver's reach - left to the bounded C06 check, see `unverified`)
            'result[1].qconj == self.qconj and result[1].chinfo is self.chinfo',
            'result[1].sorted == True and ' + _SORTED_SPEC('result[1]'),                                   # truthful
            'implies(old(self.sorted) and (not bunch or old(self.bunched)), result[1] is self)',
            'implies(not (old(self.sorted) and (not bunch or old(self.bunched))), not (result[1] is self))',
        ] + ([
            # without bunching: block k of the result is block perm[k] of self
            'len(result[0]) == self.block_number and result[1].block_number == self.block_number',
            'forall(0, self.block_number, lambda k: 0 <= result[0][k] < self.block_number and result[1].charges[k] == self.charges[result[0][k]] and '
            'result[1].slices[k + 1] - result[1].slices[k] == self.slices[result[0][k] + 1] - self.slices[result[0][k]])',
            'result[1].slices[0] == 0',
            'implies(not (result[1] is self), result[1].bunched == False)',
        ] if not _bunch else [
            'result[1].bunched == True and forall(1, result[1].block_number, lambda b: result[1].charges[b] != result[1].charges[b - 1])',
            'len(result[0]) == self.block_number and forall(0, self.block_number, lambda k: 0 <= result[0][k] < self.block_number)',
        ]),
    )
