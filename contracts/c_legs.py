"""C03 / C02 / C06: the leg-returning methods of LegCharge and LegPipe leave `self` alone and return a fresh object.

"Shared LegCharge objects are never mutated" (C03): legs are shared between tensors by reference, so a method that
returns a modified leg must build it on a copy.  For copy / conj / flip_charges_qconj (LegCharge) and copy / conj /
outer_conj (LegPipe) the real source is executed on a symbolic leg (charges opaque, slices a symbolic array) and
* frame: every attribute of `self` (and of the incoming legs of a pipe) is the value it had on entry,
* freshness: the result is not `self`; the incoming legs of a conjugated pipe are fresh, too,
* content: qconj flipped; charges kept (conj) or negated-and-reduced (flip, outer_conj),
* truthful claims (C02): `sorted` is kept only where the charges are kept, set to False by flip_charges_qconj and
  recomputed by outer_conj (assumed contract of LegCharge.is_sorted: it returns the specification predicate).
Array-valued attributes are immutable values in the model: an in-place numpy update of `self.charges` / `self.slices`
shows up as a changed attribute (rebinding) or leaves the verified subset (item assignment on an opaque value).
"""
import z3

from pyvc.contract import Contract, Int, Bool, Opaque, NpArr, Obj, OneOf, FixedList
from pyvc.interp import Builtin
from pyvc.values import Opq, U, to_z3

CH = 'tenpy/linalg/charges.py'
_MV = z3.Function('make_valid!spec', U, U, U)        # ChargeInfo.make_valid(charges): assumed (numpy modulo, C02)
_SORTED = z3.Function('is_sorted!spec', U, z3.BoolSort())
_NEG = z3.Function('neg!U', U, U)

_CHINFO = Obj('ChargeInfo', CH, {'_qnumber': Int(), 'tag': Opaque()})
_LEG_ATTRS = {'ind_len': Int(), 'block_number': Int(), 'chinfo': _CHINFO, 'slices': NpArr('int'), 'charges': Opaque(),
              'qconj': OneOf(1, -1), 'sorted': Bool(), 'bunched': Bool()}
_LEG = Obj('LegCharge', CH, dict(_LEG_ATTRS))
_FRAME = ['self.ind_len == old(self.ind_len) and self.block_number == old(self.block_number) and self.chinfo is chinfo0',
          'self.charges == old(self.charges) and self.qconj == old(self.qconj)',
          'self.sorted == old(self.sorted) and self.bunched == old(self.bunched)',
          'len(self.slices) == old(len(self.slices)) and forall(0, len(self.slices), lambda k: self.slices[k] == old(self.slices)[k])']
_SAME_STRUCTURE = ['result.ind_len == self.ind_len and result.block_number == self.block_number and result.chinfo is self.chinfo',
                   'len(result.slices) == len(self.slices) and forall(0, len(self.slices), lambda k: result.slices[k] == self.slices[k])',
                   'result.bunched == self.bunched']


def _make_valid(I, f, args, kwargs):
    ch = f.self_obj
    x = args[0] if args else kwargs.get('charges')
    return Opq(_MV(to_z3(ch.attrs['tag'], U), to_z3(x, U)))


def _is_sorted(I, f, args, kwargs):
    return _SORTED(to_z3(f.self_obj.attrs['charges'], U))


def _setup(I, env):
    # identities on entry (old() snapshots values, not identities)
    ids = {'chinfo0': env['self'].attrs['chinfo']}
    if 'legs' in env['self'].attrs:
        ids['leg0'], ids['leg1'] = env['self'].attrs['legs']
    I.ghost['__env__'] = {
        **ids,
        'mv': Builtin(lambda I2, ch, x: Opq(_MV(to_z3(ch.attrs['tag'], U), to_z3(x, U))), 'mv'),
        'neg': Builtin(lambda I2, x: Opq(_NEG(to_z3(x, U))), 'neg'),
        'spec_sorted': Builtin(lambda I2, x: _SORTED(to_z3(x, U)), 'spec_sorted')}


_HOOKS = {f'{CH}::ChargeInfo.make_valid': _make_valid, f'{CH}::LegCharge.is_sorted': _is_sorted}

Contract(target=f'{CH}::LegCharge.copy', props=['C03'], params={'self': _LEG}, setup=_setup, hooks=_HOOKS,
         ensures=_FRAME + _SAME_STRUCTURE + ['result is not self', 'result.qconj == self.qconj and result.charges == self.charges',
                                             'result.sorted == self.sorted'])

Contract(target=f'{CH}::LegCharge.conj', props=['C03', 'C06', 'C02'], params={'self': _LEG}, setup=_setup, hooks=_HOOKS,
         ensures=_FRAME + _SAME_STRUCTURE + ['result is not self', 'result.qconj == -self.qconj', 'result.charges == self.charges',
                                             'result.sorted == self.sorted'])

Contract(target=f'{CH}::LegCharge.flip_charges_qconj', props=['C03', 'C06', 'C02'], params={'self': _LEG}, setup=_setup, hooks=_HOOKS,
         ensures=_FRAME + _SAME_STRUCTURE + ['result is not self', 'result.qconj == -self.qconj',
                                             'result.charges == mv(self.chinfo, neg(self.charges))',
                                             # negation reverses the order: the claim must be dropped (or recomputed)
                                             'result.sorted == False or result.sorted == spec_sorted(result.charges)'])

# a pipe over two incoming legs (the comprehension over self.legs is executed for each)
_IN1 = Obj('LegCharge', CH, dict(_LEG_ATTRS))
_IN2 = Obj('LegCharge', CH, dict(_LEG_ATTRS))
_PIPE = Obj('LegPipe', CH, dict(_LEG_ATTRS, nlegs=Int(), legs=FixedList([_IN1, _IN2], as_tuple=True), subshape=Opaque(), subqshape=Opaque(),
                                q_map=Opaque(), q_map_slices=Opaque(), _perm=Opaque(), _strides=Opaque()))
_PIPE_FRAME = _FRAME + ['self.nlegs == old(self.nlegs) and self.q_map == old(self.q_map) and self.q_map_slices == old(self.q_map_slices)',
                        'self._perm == old(self._perm) and self._strides == old(self._strides) and self.subshape == old(self.subshape) '
                        'and self.subqshape == old(self.subqshape)',
                        'len(self.legs) == 2 and self.legs[0] is leg0 and self.legs[1] is leg1',
                        # the incoming legs themselves are untouched
                        'self.legs[0].qconj == old(self.legs[0].qconj) and self.legs[1].qconj == old(self.legs[1].qconj)',
                        'self.legs[0].charges == old(self.legs[0].charges) and self.legs[1].charges == old(self.legs[1].charges)',
                        'self.legs[0].sorted == old(self.legs[0].sorted) and self.legs[1].sorted == old(self.legs[1].sorted)']
_PIPE_SAME = _SAME_STRUCTURE + ['result.nlegs == self.nlegs and result.q_map == self.q_map and result.q_map_slices == self.q_map_slices',
                                'result._perm == self._perm and result._strides == self._strides']

Contract(target=f'{CH}::LegPipe.copy', props=['C03'], params={'self': _PIPE}, setup=_setup, hooks=_HOOKS,
         ensures=_PIPE_FRAME + _PIPE_SAME + ['result is not self', 'result.qconj == self.qconj and result.charges == self.charges',
                                            'result.legs[0] is self.legs[0] and result.legs[1] is self.legs[1]'])

Contract(target=f'{CH}::LegPipe.conj', props=['C03', 'C06'], params={'self': _PIPE}, setup=_setup, hooks=_HOOKS,
         ensures=_PIPE_FRAME + _PIPE_SAME + [
             'result is not self', 'result.qconj == -self.qconj and result.charges == self.charges and result.sorted == self.sorted',
             # "the incoming legs of the pipe are also conjugated" - on fresh objects
             'len(result.legs) == 2 and result.legs[0] is not self.legs[0] and result.legs[1] is not self.legs[1]',
             'result.legs[0].qconj == -self.legs[0].qconj and result.legs[1].qconj == -self.legs[1].qconj',
             'result.legs[0].charges == self.legs[0].charges and result.legs[1].charges == self.legs[1].charges'])

Contract(target=f'{CH}::LegPipe.outer_conj', props=['C03', 'C02'], params={'self': _PIPE}, setup=_setup, hooks=_HOOKS,
         ensures=_PIPE_FRAME + [
             'result is not self', 'result.qconj == -1',
             'result.charges == mv(self.chinfo, neg(self.charges))',
             # the claim is recomputed for the negated charges (F-04)
             'result.sorted == spec_sorted(result.charges)',
             'result.legs[0] is self.legs[0] and result.legs[1] is self.legs[1]'])

# a pipe whose first incoming leg is itself a pipe: conjugation reaches every level (otherwise the legs obtained by splitting the
# conjugate level by level are not the conjugates of the original legs: C06 "conjugate legs stay contractible")
_IN3 = Obj('LegCharge', CH, dict(_LEG_ATTRS))
_IN4 = Obj('LegCharge', CH, dict(_LEG_ATTRS))
_INNER = Obj('LegPipe', CH, dict(_LEG_ATTRS, nlegs=Int(), legs=FixedList([_IN3, _IN4], as_tuple=True), subshape=Opaque(), subqshape=Opaque(),
                                 q_map=Opaque(), q_map_slices=Opaque(), _perm=Opaque(), _strides=Opaque()))
_NESTED = Obj('LegPipe', CH, dict(_LEG_ATTRS, nlegs=Int(), legs=FixedList([_INNER, _IN2], as_tuple=True), subshape=Opaque(), subqshape=Opaque(),
                                  q_map=Opaque(), q_map_slices=Opaque(), _perm=Opaque(), _strides=Opaque()))



def _hunt_nested():
    """witness on the real classes: conjugate a pipe of (pipe, leg) and look at the innermost legs"""
    from tenpy.linalg import charges
    ci = charges.ChargeInfo([1])
    for q1, q2 in ((1, 1), (1, -1), (-1, 1)):
        l1 = charges.LegCharge.from_qflat(ci, [0, 1, 1], q1)
        l2 = charges.LegCharge.from_qflat(ci, [0, 2], q2)
        inner = charges.LegPipe([l1, l2])
        outer = charges.LegPipe([inner, l2])
        before = [x.qconj for x in inner.legs]
        c = outer.conj()
        got = [x.qconj for x in c.legs[0].legs]
        if got != [-x for x in before] or [x.qconj for x in inner.legs] != before or c.legs[0].legs[0] is inner.legs[0]:
            return {'input': {'pipe': 'LegPipe([LegPipe([l1, l2]), l2])', 'qconj of l1, l2': [q1, q2]},
                    'observed': f'innermost legs of pipe.conj() have qconj {got}, those of pipe {before} (now {[x.qconj for x in inner.legs]})'}
    return None


Contract(target=f'{CH}::LegPipe.conj', props=['C03', 'C06'], name='LegPipe.conj[nested pipe]', params={'self': _NESTED}, setup=_setup, hooks=_HOOKS, hunt=_hunt_nested,
         ensures=_PIPE_FRAME + _PIPE_SAME + [
             'result is not self', 'result.qconj == -self.qconj and result.charges == self.charges',
             'len(result.legs) == 2 and result.legs[0] is not self.legs[0] and result.legs[1] is not self.legs[1]',
             'result.legs[0].qconj == -self.legs[0].qconj and result.legs[1].qconj == -self.legs[1].qconj',
             # the inner pipe is conjugated as a pipe: its own incoming legs are flipped, on fresh objects, charges kept
             'len(result.legs[0].legs) == 2',
             'result.legs[0].legs[0] is not self.legs[0].legs[0] and result.legs[0].legs[1] is not self.legs[0].legs[1]',
             'result.legs[0].legs[0].qconj == -self.legs[0].legs[0].qconj and result.legs[0].legs[1].qconj == -self.legs[0].legs[1].qconj',
             'result.legs[0].legs[0].charges == self.legs[0].legs[0].charges and result.legs[0].legs[1].charges == self.legs[0].legs[1].charges',
             # ... and the inner pipe of self is left alone
             'self.legs[0].legs[0].qconj == old(self.legs[0].legs[0].qconj) and self.legs[0].legs[1].qconj == old(self.legs[0].legs[1].qconj)',
             'self.legs[0].q_map == old(self.legs[0].q_map) and self.legs[0].nlegs == old(self.legs[0].nlegs)'])
