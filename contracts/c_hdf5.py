"""C17: relational save -> load execution of save_hdf5 / from_hdf5 pairs over an abstract store.

Assumed contract of h5py + Hdf5Saver/Hdf5Loader dispatch: what is saved under a path / attribute name is what is
loaded from it (`store`, `attrs` are ghost dictionaries).  Obligations: every path/attribute the loader reads was
written by the saver *in the same format selection* ("key agreement"), every call in the loader is well-formed
(arity - a TypeError is an unexpected exception), and every observable field of the loaded object equals the
original's.  Array-valued fields are opaque values; numpy conversions of them are value-preserving (assumed).
"""
import z3

from pyvc.contract import Contract, Int, Bool, Opaque, Obj, Const, OneOf
from pyvc.interp import Builtin, PyRaise, ClassVal
from pyvc.values import SObj, Opq, U
from pyvc import source

CH = 'tenpy/linalg/charges.py'
TR = 'tenpy/linalg/truncation.py'


def _store(I):
    return I.ghost['store'], I.ghost['attrs']


def _saver(I, fmt):
    def save(I_, obj, path):
        I_.ghost['store'][path] = obj
    return SObj('GhostSaver', None, {'save': Builtin(save, 'hdf5_saver.save'), 'format_selection': {'LegCharge': fmt} if fmt else {}})


def _loader(I):
    def load(I_, path):
        st = I_.ghost['store']
        if path not in st:
            I_.oblige(f'key-agreement:path:{path.split("/")[-1]}', z3.BoolVal(False),
                      {'clause': f'the loader reads path {path!r}, which the saver did not write in this format'})
            raise PyRaise('KeyError')
        return st[path]

    def get_attr(I_, h5gr, name):
        at = I_.ghost['attrs']
        if name not in at:
            I_.oblige(f'key-agreement:attr:{name}', z3.BoolVal(False),
                      {'clause': f'the loader reads attribute {name!r}, which the saver did not write in this format'})
            raise PyRaise('KeyError')
        return at[name]
    return SObj('GhostLoader', None, {'load': Builtin(load, 'hdf5_loader.load'), 'get_attr': Builtin(get_attr, 'hdf5_loader.get_attr'),
                                      'memorize_load': Builtin(lambda I_, *a: None, 'memorize_load')})


def _h5gr(I):
    return SObj('GhostGroup', None, {'attrs': I.ghost['attrs'],
                                     '__contains__': Builtin(lambda I_, name: ('x/' + name) in I_.ghost['store'], 'name in h5gr')})


def _roundtrip(relpath, cname, fmt=None):
    def call(I, env):
        I.ghost['store'], I.ghost['attrs'] = {}, {}
        obj = env['obj']
        mod = source.get_module(relpath)
        I.call(I.getattr(obj, 'save_hdf5'), [_saver(I, fmt), _h5gr(I), 'x/'], {})
        cv = ClassVal(*source.find_class(mod, cname))
        res = I.call(I.getattr(cv, 'from_hdf5'), [_loader(I), _h5gr(I), 'x/'], {})
        return res
    return call


def _np_passthrough(I, x, *a, **k):
    return x


_LEN = z3.Function('len!U', U, z3.IntSort())     # the same symbol the engine uses for len() of an opaque sequence
_HOOKS = {'module:numpy.asarray': _np_passthrough, 'module:numpy.array': _np_passthrough,
          f'{CH}::ChargeInfo.test_sanity': lambda I, f, args, kwargs: None,
          f'{CH}::DipolarChargeInfo.test_sanity': lambda I, f, args, kwargs: None,
          f'{CH}::LegCharge.test_sanity': lambda I, f, args, kwargs: None}


def _chinfo_setstate(I, f, args, kwargs):
    """ChargeInfo.__setstate__(state): state = (qnumber, mod, names); derived fields (_mask, _mod_masked) are functions of mod"""
    if len(args) != 1 or kwargs:
        raise PyRaise('TypeError')
    st = args[0]
    if not isinstance(st, tuple) or len(st) != 3:
        raise PyRaise('ValueError')
    o = f.self_obj
    o.attrs['_qnumber'], o.attrs['_mod'], o.attrs['names'] = st
    return None


_HOOKS[f'{CH}::ChargeInfo.__setstate__'] = _chinfo_setstate


def _len_hook(I, x):
    if isinstance(x, Opq):
        return _LEN(x.t)
    return I.length(x)


def _setup_chinfo(I, env):
    o = env['obj']
    I.assume(o.attrs['_qnumber'] == _LEN(o.attrs['_mod'].t))     # class invariant: qnumber == len(mod)
    I.hooks_extra = None


Contract(target=f'{CH}::ChargeInfo.from_hdf5', props=['C17'], name='ChargeInfo save_hdf5 -> from_hdf5',
         params={'obj': Obj('ChargeInfo', CH, {'_qnumber': Int(), '_mod': Opaque(), 'names': Opaque()})},
         setup=_setup_chinfo, hooks=_HOOKS,
         call=_roundtrip(CH, 'ChargeInfo'),
         ensures=['result._mod == obj._mod', 'result.names == obj.names', 'result._qnumber == obj._qnumber'])

Contract(target=f'{CH}::DipolarChargeInfo.from_hdf5', props=['C17'], name='DipolarChargeInfo save_hdf5 -> from_hdf5',
         params={'obj': Obj('DipolarChargeInfo', CH, {'_qnumber': Int(), '_mod': Opaque(), 'names': Opaque(), '_charge_idcs': Opaque(),
                                                      '_dipole_idcs': Opaque(), '_dipole_dims': Opaque()})},
         setup=_setup_chinfo, hooks=_HOOKS,
         call=_roundtrip(CH, 'DipolarChargeInfo'),
         ensures=['result._mod == obj._mod', 'result.names == obj.names', 'result._qnumber == obj._qnumber',
                  'result._charge_idcs == obj._charge_idcs', 'result._dipole_idcs == obj._dipole_idcs', 'result._dipole_dims == obj._dipole_dims'])

_LEG = lambda: Obj('LegCharge', CH, {'ind_len': Int(), 'block_number': Int(), 'chinfo': Opaque(), 'slices': Opaque(), 'charges': Opaque(),
                                     'qconj': Int(), 'sorted': Bool(), 'bunched': Bool()})

Contract(target=f'{CH}::LegCharge.from_hdf5', props=['C17'], name='LegCharge save_hdf5 -> from_hdf5 [blocks]',
         params={'obj': _LEG()}, hooks=_HOOKS, call=_roundtrip(CH, 'LegCharge', 'blocks'),
         ensures=['result.ind_len == obj.ind_len and result.block_number == obj.block_number and result.qconj == obj.qconj',
                  'result.chinfo == obj.chinfo and result.slices == obj.slices and result.charges == obj.charges',
                  'result.sorted == obj.sorted and result.bunched == obj.bunched'])


def _pipe_init(I, f, args, kwargs):
    """LegPipe.__init__(legs, qconj, sort, bunch): the loader re-creates the pipe from exactly these four values"""
    o = f.self_obj
    names = ['legs', 'qconj', 'sorted', 'bunched']
    vals = dict(zip(names, args))
    vals.update({{'sort': 'sorted', 'bunch': 'bunched'}.get(k, k): v for k, v in kwargs.items()})
    for n in names:
        if n not in vals:
            raise PyRaise('TypeError')
        o.attrs[n] = vals[n]
    return None


for fmt in ('blocks', 'compact', 'flat'):
    Contract(target=f'{CH}::LegPipe.from_hdf5', props=['C17'], name=f'LegPipe save_hdf5 -> from_hdf5 [{fmt}]',
             params={'obj': Obj('LegPipe', CH, {'ind_len': Int(), 'block_number': Int(), 'chinfo': Opaque(), 'slices': Opaque(), 'charges': Opaque(),
                                                'qconj': Int(), 'sorted': Bool(), 'bunched': Bool(), 'legs': Opaque()})},
             hooks=dict(_HOOKS, **{f'{CH}::LegPipe.__init__': _pipe_init, 'module:numpy.hstack': lambda I, x: Opq(base='hstack'),
                                   f'{CH}::LegCharge.to_qflat': lambda I, f, args, kwargs: Opq(base='qflat')}),
             call=_roundtrip(CH, 'LegPipe', fmt),
             # the pipe is rebuilt from its legs, direction and the sort/bunch flags it was created with
             ensures=['result.legs == obj.legs and result.qconj == obj.qconj', 'result.sorted == obj.sorted and result.bunched == obj.bunched'])


NPC = 'tenpy/linalg/np_conserved.py'
_ARRAY_FIELDS = ['chinfo', 'legs', 'dtype', 'qtotal', '_labels', '_data', '_qdata']

Contract(target=f'{NPC}::Array.from_hdf5', props=['C17'], name='Array save_hdf5 -> from_hdf5',
         params={'obj': Obj('Array', NPC, dict({f: Opaque() for f in _ARRAY_FIELDS}, _qdata_sorted=Bool(), rank=Int(), shape=Opaque()))},
         hooks=dict(_HOOKS, **{f'{NPC}::Array._set_shape': lambda I, f, args, kwargs: None,      # shape/rank are derived from the legs
                               f'{NPC}::Array.test_sanity': lambda I, f, args, kwargs: None}),
         call=_roundtrip(NPC, 'Array'),
         ensures=[' and '.join(f'result.{f} == obj.{f}' for f in _ARRAY_FIELDS), 'result._qdata_sorted == obj._qdata_sorted'])


# generic Hdf5Exportable (all data in __dict__): TruncationError and every class that does not override the pair
def _save_dict_content(I, obj_dict, h5gr, subpath):
    I.ghost['store'][subpath + '<dict-content>'] = dict(obj_dict)
    return 'simple_dict'


def _load_dict(I, h5gr, fmt, subpath):
    st = I.ghost['store']
    key = subpath + '<dict-content>'
    if key not in st or fmt != 'simple_dict':
        I.oblige('key-agreement:dict-content', z3.BoolVal(False), {'clause': 'load_dict reads what save_dict_content wrote, in the saved format'})
        raise PyRaise('KeyError')
    return dict(st[key])


def _roundtrip_generic(relpath, cname):
    def call(I, env):
        I.ghost['store'], I.ghost['attrs'] = {}, {}
        obj = env['obj']
        saver = _saver(I, None)
        saver.attrs['save_dict_content'] = Builtin(_save_dict_content, 'save_dict_content')
        loader = _loader(I)
        loader.attrs['load_dict'] = Builtin(_load_dict, 'load_dict')
        I.call(I.getattr(obj, 'save_hdf5'), [saver, _h5gr(I), 'x/'], {})
        cv = ClassVal(*source.find_class(source.get_module(relpath), cname))
        return I.call(I.getattr(cv, 'from_hdf5'), [loader, _h5gr(I), 'x/'], {})
    return call


Contract(target='tenpy/tools/hdf5_io.py::Hdf5Exportable.from_hdf5', props=['C17'], name='Hdf5Exportable (generic __dict__ export) save -> load [TruncationError]',
         params={'obj': Obj('TruncationError', TR, {'eps': Opaque(), 'ov': Opaque()})},
         call=_roundtrip_generic(TR, 'TruncationError'),
         ensures=['result.eps == obj.eps and result.ov == obj.ov'])
