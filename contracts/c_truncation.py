"""C15: the priority rule of truncate() - "a constraint that would leave no admissible cut is dropped (with a warning)".

truncate() narrows a boolean array `good` (good[cut] = "cutting here satisfies all constraints so far") constraint by constraint,
in the documented order chi_max, chi_min, degeneracy_tol, svd_min, trunc_cut, through _combine_constraints.  Its contract: the
result is the element-wise conjunction if that is satisfiable somewhere, else the earlier constraints are kept unchanged; in
particular an admissible cut always remains (so that `np.nonzero(good)[0][0]` in truncate exists) and the result never admits a
cut that the earlier constraints excluded.  np.logical_and on two boolean arrays of equal length is an assumed primitive.
truncate() itself (argsort / cumsum / masks) stays bounded - see unverified.
"""
import ast

from pyvc.contract import Contract, NpArr, Opaque

TR = 'tenpy/linalg/truncation.py'


def _logical_and(I, a, b):
    I.trusted.add('np.logical_and (element-wise, equal lengths)')
    return _elementwise_and(I, a, b)


def _elementwise_and(I, a, b):
    import z3
    from pyvc.values import SArr
    from pyvc.interp import Unsupported
    same = I.equals(a.n, b.n)
    if same is not True and not I.valid(I.z3bool(same)):
        raise Unsupported('np.logical_and on arrays whose equal length is not established')
    k = z3.Int('k!and')
    return SArr(a.n, [z3.Lambda([k], z3.And(z3.Select(a.leaves[0], k), z3.Select(b.leaves[0], k)))], 'bool', True)


def _hunt():
    import itertools
    import warnings
    import numpy as np
    warnings.simplefilter('ignore')
    from tenpy.linalg.truncation import _combine_constraints
    for n in range(1, 5):
        for g1 in itertools.product([False, True], repeat=n):
            if not any(g1):
                continue
            for g2 in itertools.product([False, True], repeat=n):
                a, b = np.array(g1), np.array(g2)
                r = _combine_constraints(a.copy(), b.copy(), 'x')
                both = np.logical_and(a, b)
                exp = both if both.any() else a
                if not np.array_equal(r, exp):
                    return {'input': {'good1': list(g1), 'good2': list(g2)}, 'observed': f'-> {r.tolist()}, documented {exp.tolist()}'}
    return None


Contract(
    target=f'{TR}::_combine_constraints', props=['C15'], hunt=_hunt,
    params={'good1': NpArr('bool'), 'good2': NpArr('bool'), 'warn': Opaque()},
    hooks={'module:numpy.logical_and': _logical_and},
    requires=['len(good1) == len(good2)', 'exists(0, len(good1), lambda k: good1[k])'],
    ensures=['len(result) == len(good1)',
             'exists(0, len(result), lambda k: result[k])',                                   # an admissible cut remains
             'forall(0, len(result), lambda k: implies(result[k], good1[k]))',                # never weaker than the earlier constraints
             'implies(exists(0, len(good1), lambda k: good1[k] and good2[k]), forall(0, len(result), lambda k: result[k] == (good1[k] and good2[k])))',
             'implies(not exists(0, len(good1), lambda k: good1[k] and good2[k]), forall(0, len(result), lambda k: result[k] == good1[k]))',
             'forall(0, len(good1), lambda k: good1[k] == old(good1)[k] and good2[k] == old(good2)[k])'],
)
