"""C20 (second sentence): EventHandler refines its sequential specification for every history.

View of an EventHandler: the list `listeners` of (listener_id, callback, priority, extra_kwargs).
Representation invariant INV: ids pairwise distinct and all < _id_counter.
Every public operation is verified to preserve INV from an arbitrary state satisfying INV, so the
statement holds for every finite history of connect/disconnect/emit by induction over the history.
"""
from pyvc.contract import Contract, Int, Opaque, OptOpaque, List, Obj, Const, OneOf, FixedList
from pyvc.values import make_nt_class, SArr
from pyvc import runtime

EV = 'tenpy/tools/events.py'
LISTENER = make_nt_class('Listener', ['listener_id', 'callback', 'priority', 'extra_kwargs'])
LKIND = ('tuple', ['int', 'U', 'int', 'U'], LISTENER)

_EH = lambda: Obj('EventHandler', EV, {'arg_descr': Opaque(), 'listeners': List(LKIND), '_id_counter': Int()})

INV = ['forall2(0, len(self.listeners), lambda p, q: implies(p != q, self.listeners[p][0] != self.listeners[q][0]))',
       'forall(0, len(self.listeners), lambda p: 0 <= self.listeners[p][0] < self._id_counter)',
       'self._id_counter >= 0']


def _mk_handler(ids, prios=None):
    from tenpy.tools.events import EventHandler, Listener
    eh = EventHandler('x')
    log = []
    for n, i in enumerate(ids):
        def cb(*a, _i=i, **k):
            log.append(_i)
            return None
        eh.listeners.append(Listener(i, cb, prios[n] if prios else 0, {}))
    eh._id_counter = max(list(ids) + [-1]) + 1
    return eh, log


def _replay_disconnect(m, ghost):
    n = m.int('len(self.listeners)')
    if n > 8:
        return None
    ids = m.arr('self.listeners.0', n)
    lid = m.int('listener_id')

    def run():
        eh, _ = _mk_handler(ids)
        import warnings
        with warnings.catch_warnings():
            warnings.simplefilter('ignore')
            eh.disconnect(lid)
        got = [l.listener_id for l in eh.listeners]
        want = [i for i in ids if i != lid]
        return got == want, f'listener ids after disconnect({lid}): {got}, expected {want}'
    return {'input': {'listener_ids': ids, 'disconnect': lid}, 'run': run}


Contract(
    target=f'{EV}::EventHandler.connect', props=['C20'],
    params={'self': _EH(), 'callback': Opaque(), 'priority': Int(), 'extra_kwargs': OneOf(None, Opaque())},
    requires=INV + ['not is_none(callback)'],
    ensures=INV + [
        'len(self.listeners) == old(len(self.listeners)) + 1',
        'forall(0, old(len(self.listeners)), lambda k: self.listeners[k] == old(self.listeners)[k])',
        'self.listeners[old(len(self.listeners))][0] == old(self._id_counter)',
        'self.listeners[old(len(self.listeners))][1] == callback',
        'self.listeners[old(len(self.listeners))][2] == priority',
        'self.listeners[old(len(self.listeners))][3] == (EMPTY_DICT if is_none(extra_kwargs) else extra_kwargs)',
        'self._id_counter == old(self._id_counter) + 1',
        'result == callback',
    ],
)

Contract(
    target=f'{EV}::EventHandler.disconnect', props=['C20'],
    params={'self': _EH(), 'listener_id': Int()},
    requires=INV,
    ensures=INV + [
        # exactly the named listener is removed, all others keep their order
        'forall(0, old(len(self.listeners)), lambda k: implies(old(self.listeners)[k][0] == listener_id, '
        'len(self.listeners) == old(len(self.listeners)) - 1 '
        'and forall(0, k, lambda j: self.listeners[j] == old(self.listeners)[j]) '
        'and forall(k, old(len(self.listeners)) - 1, lambda j: self.listeners[j] == old(self.listeners)[j + 1])))',
        # unknown id: nothing changes
        'implies(forall(0, old(len(self.listeners)), lambda k: old(self.listeners)[k][0] != listener_id), '
        'len(self.listeners) == old(len(self.listeners)) '
        'and forall(0, len(self.listeners), lambda j: self.listeners[j] == old(self.listeners)[j]))',
        'self._id_counter == old(self._id_counter)',
    ],
    loops={0: {'inv': [
        'len(self.listeners) == old(len(self.listeners)) and self._id_counter == old(self._id_counter)',
        'forall(0, len(self.listeners), lambda j: self.listeners[j] == old(self.listeners)[j])',
        'forall(0, _i, lambda j: self.listeners[j][0] != listener_id)',
    ]}},
    replay=_replay_disconnect,
)

Contract(
    target=f'{EV}::EventHandler.copy', props=['C20'],
    params={'self': _EH()},
    requires=INV,
    ensures=['len(result.listeners) == len(self.listeners)',
             'forall(0, len(self.listeners), lambda j: result.listeners[j] == self.listeners[j])',
             'result._id_counter == self._id_counter',
             'len(self.listeners) == old(len(self.listeners))',
             'forall(0, len(self.listeners), lambda j: self.listeners[j] == old(self.listeners)[j])'],
)


def _ghost_calls(I, env):
    I.ghost['__env__'] = {'calls': SArr(0, SArr.fresh(('tuple', ['U', 'U'], None), 'calls').leaves, ('tuple', ['U', 'U'], None))}


_SORTED_POST = [
    # priority order: non-increasing
    'forall2(0, len(self.listeners), lambda p, q: implies(p < q, self.listeners[p][2] >= self.listeners[q][2]))',
    'len(self.listeners) == old(len(self.listeners))',
    'self._id_counter == old(self._id_counter)',
]

Contract(
    target=f'{EV}::EventHandler._prepare_emit', props=['C20'],
    params={'self': _EH()},
    requires=INV,
    # INV after sorting (ids still distinct) follows from `sorted` returning a permutation
    ensures=INV + _SORTED_POST,
)

Contract(
    target=f'{EV}::EventHandler.emit', props=['C20'],
    params={'self': _EH(), 'args': FixedList([Opaque()], as_tuple=True), 'kwargs': Const({})},
    setup=_ghost_calls,
    requires=INV,
    ensures=INV + _SORTED_POST + [
        # exactly the connected listeners are called, each once, in the (sorted) order of the list
        'len(calls) == len(self.listeners)',
        'forall(0, len(calls), lambda k: calls[k][0] == self.listeners[k][1] and calls[k][1] == self.listeners[k][3])',
        'len(result) == len(self.listeners)',
        'forall(0, len(result), lambda k: result[k] == apply(self.listeners[k][1], self.listeners[k][3]))',
    ],
    loops={0: {'as_arr': {'results': 'U'}, 'opaque_callables': ['callback'],
               'inv': ['len(calls) == _i and len(results) == _i',
                       'forall(0, _i, lambda k: calls[k][0] == self.listeners[k][1] and calls[k][1] == self.listeners[k][3])',
                       'forall(0, _i, lambda k: results[k] == apply(self.listeners[k][1], self.listeners[k][3]))']}},
)

Contract(
    target=f'{EV}::EventHandler.emit_until_result', props=['C20'],
    params={'self': _EH(), 'args': FixedList([Opaque()], as_tuple=True), 'kwargs': Const({})},
    setup=_ghost_calls,
    requires=INV,
    ensures=INV + _SORTED_POST + [
        'len(calls) <= len(self.listeners)',
        'forall(0, len(calls), lambda k: calls[k][0] == self.listeners[k][1] and calls[k][1] == self.listeners[k][3])',
        # all calls but the last returned None; the result is the last call's result if not None
        'forall(0, len(calls) - 1, lambda k: is_none(apply(self.listeners[k][1], self.listeners[k][3])))',
        'implies(not is_none(result), len(calls) >= 1 and '
        'result == apply(self.listeners[len(calls) - 1][1], self.listeners[len(calls) - 1][3]))',
        'implies(is_none(result), len(calls) == len(self.listeners) and forall(0, len(calls), '
        'lambda k: is_none(apply(self.listeners[k][1], self.listeners[k][3]))))',
    ],
    loops={0: {'opaque_callables': ['callback'],
               'inv': ['len(calls) == _i',
                       'forall(0, _i, lambda k: calls[k][0] == self.listeners[k][1] and calls[k][1] == self.listeners[k][3])',
                       'forall(0, _i, lambda k: is_none(apply(self.listeners[k][1], self.listeners[k][3])))']}},
)
