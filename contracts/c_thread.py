"""C20: "a failing worker surfaces as an error rather than a hang" - Worker.join_tasks / put_task / _test_worker_alive.

Ghost model of the two threads as seen by the caller: `alive` (the worker thread runs and has not set `exit`) and `unfinished`
(number of queued tasks not yet marked done).  A dead worker never marks a task done, so Queue.join() returns iff
unfinished == 0 or the worker is alive; calling it otherwise blocks forever - the obligation of the hook.
The worker may die while the caller waits: the ghost parameter `dies_while_joining` is the environment's choice.
"""
import z3

from pyvc.contract import Contract, Bool, Int, Obj, Opaque
from pyvc.interp import Builtin, PyRaise
from pyvc.values import SObj, fresh_bool

TH = 'tenpy/tools/thread.py'


def _setup(I, env):
    w = env['self']
    g = I.ghost['__env__'] = {'alive': env['alive0'], 'unfinished': env['unfinished0'], 'blocked_forever': z3.BoolVal(False)}

    def is_alive(I_):
        return g['alive']

    def exit_is_set(I_):
        return z3.Not(g['alive'])

    def join(I_):
        # Queue.join(): returns iff every queued task is marked done
        I_.oblige('Queue.join-can-return', z3.Or(g['alive'], g['unfinished'] == 0),
                  {'clause': 'tasks.join() is only reached with a live worker or an empty queue (otherwise it blocks forever)'})
        # while we wait the worker finishes the tasks - or dies (then it drains the queue)
        g['alive'] = z3.And(g['alive'], z3.Not(env['dies_while_joining']))      # the environment's choice, fixed up front
        g['unfinished'] = z3.IntVal(0)
    w.attrs['worker_thread'] = SObj('GhostThread', None, {'is_alive': Builtin(is_alive, 'is_alive')})
    w.attrs['exit'] = SObj('GhostEvent', None, {'is_set': Builtin(exit_is_set, 'is_set')})
    w.attrs['tasks'] = SObj('GhostQueue', None, {'join': Builtin(join, 'Queue.join')})


Contract(
    target=f'{TH}::Worker.join_tasks', props=['C20'],
    params={'self': Obj('Worker', TH, {'_entered': Bool(), 'name': Opaque()}), 'alive0': Bool(), 'unfinished0': Int(), 'dies_while_joining': Bool()},
    setup=_setup,
    requires=['self._entered and unfinished0 >= 0'],
    # WorkerDied iff the worker was dead on entry or died while we waited; never a hang (obligation of the Queue.join hook)
    raises={'WorkerDied': 'not alive0 or dies_while_joining'},
    ensures=['unfinished == 0 and alive'],
)
