"""C18 (first sentence): crash invariant of Simulation.save_results over the full finite file-state domain.

Ghost file state: O (output file), B (backup file) in {0 absent, 1 partial, 2 complete(old checkpoint),
3 complete(new checkpoint)}.  Assumed contracts (POSIX): Path.exists/unlink/rename(atomic replace);
_save_to_file takes its target through `partial` to `complete(new)` and may be interrupted at any byte.
A crash point is every program point right after a file-system effect (and inside _save_to_file).
Obligation at every crash point:  old(complete(O) or complete(B))  =>  complete(O) or complete(B).
"""
import z3

from pyvc.contract import Contract, Int, Bool, Opaque, Obj, Const, OneOf
from pyvc.interp import Builtin, PyRaise
from pyvc.values import SObj, fresh_real

SIM = 'tenpy/simulations/simulation.py'


def _complete(v):
    return z3.Or(v == 2, v == 3)


def _crash_point(I, what):
    if not I.ghost.get('safe_write'):
        return      # without safe_write the crash invariant is not promised
    g = I.ghost['__env__']
    had = I.ghost['had_complete']
    n = I.ghost['n_fs'] = I.ghost.get('n_fs', 0) + 1
    I.oblige(f'crash-invariant@{what}', z3.Implies(had, z3.Or(_complete(g['O']), _complete(g['B']))),
             {'clause': f'a complete results file (old or new checkpoint) exists right after: {what}'})


def _path(I, which):
    def exists(I_):
        return I_.ghost['__env__'][which] != 0

    def unlink(I_, missing_ok=False):
        g = I_.ghost['__env__']
        if not I_.branch(g[which] != 0):
            raise PyRaise('FileNotFoundError')
        g[which] = z3.IntVal(0)
        _crash_point(I_, f'{which}.unlink()')

    def rename(I_, target):
        g = I_.ghost['__env__']
        if not I_.branch(g[which] != 0):
            raise PyRaise('FileNotFoundError')
        t = target.attrs['which']
        g[t] = g[which]
        g[which] = z3.IntVal(0)
        _crash_point(I_, f'{which}.rename({t})')
    return SObj('GhostPath', None, {'which': which, 'exists': Builtin(exists, 'Path.exists'),
                                    'unlink': Builtin(unlink, 'Path.unlink'), 'rename': Builtin(rename, 'Path.rename')})


def _save_to_file(I, f, args, kwargs):
    target = args[1].attrs['which']
    g = I.ghost['__env__']
    g[target] = z3.IntVal(1)
    _crash_point(I, f'_save_to_file({target}) interrupted (partial file)')
    g[target] = z3.IntVal(3)
    _crash_point(I, f'_save_to_file({target}) finished')
    return None


def _save_to_file_nobackup(I, f, args, kwargs):
    I.ghost['__env__'][args[1].attrs['which']] = z3.IntVal(3)
    return None


def _setup(safe_write):
    def setup(I, env):
        O, B = z3.Int('O'), z3.Int('B')
        I.assume(z3.And(0 <= O, O <= 2, 0 <= B, B <= 2))
        I.ghost['__env__'] = {'O': O, 'B': B}
        I.ghost['had_complete'] = z3.Or(_complete(O), _complete(B))
        I.ghost['safe_write'] = safe_write
        s = env['self']
        s.attrs['output_filename'] = _path(I, 'O')
        s.attrs['_backup_filename'] = _path(I, 'B') if safe_write else None
        s.attrs['logger'] = SObj('LoggerRecord', None, {'info': Builtin(lambda I_, *a, **k: None, 'logger.info')})
        s.attrs['_last_save'] = fresh_real('t')
    return setup


def _replay(m, ghost):
    names = {0: 'absent', 1: 'partial', 2: 'complete'}
    O, B = m.int('O'), m.int('B')

    def run():
        import pathlib
        import pickle
        import tempfile
        import types
        import logging
        from tenpy.simulations.simulation import Simulation
        with tempfile.TemporaryDirectory() as d:
            out = pathlib.Path(d) / 'results.pkl'
            bak = pathlib.Path(d) / 'results.backup.pkl'
            good = pickle.dumps({'checkpoint': 'old'})
            for p, st in ((out, O), (bak, B)):
                if st == 1:
                    p.write_bytes(good[:len(good) // 2])
                elif st == 2:
                    p.write_bytes(good)

            def complete(p):
                try:
                    pickle.loads(p.read_bytes())
                    return True
                except Exception:
                    return False

            def crashing_save(results, filename):
                data = pickle.dumps(results)
                filename.write_bytes(data[:len(data) // 2])
                raise KeyboardInterrupt('crash injected inside _save_to_file')
            stub = types.SimpleNamespace(output_filename=out, _backup_filename=bak, _save_to_file=crashing_save,
                                         logger=logging.getLogger('replay'), _last_save=0.)
            had = complete(out) or complete(bak)
            try:
                Simulation.save_results(stub, {'checkpoint': 'new'})
            except KeyboardInterrupt:
                pass
            have = (out.exists() and complete(out)) or (bak.exists() and complete(bak))
            return (not had) or have, (f'entry state output={names[O]}, backup={names[B]}; crash while writing the new file: '
                                       f'output complete={out.exists() and complete(out)}, backup complete={bak.exists() and complete(bak)}')
    return {'input': {'output_file': names[O], 'backup_file': names[B], 'crash': 'inside _save_to_file'}, 'run': run}


_SELF = lambda: Obj('Simulation', SIM, {})

Contract(target=f'{SIM}::Simulation.save_results', props=['C18'], name='Simulation.save_results[safe_write]',
         params={'self': _SELF(), 'results': Opaque()},
         setup=_setup(True), requires=['not is_none(results)'],
         ensures=['O == 3', 'B == 0', 'result == results'],
         hooks={f'{SIM}::Simulation._save_to_file': _save_to_file},
         replay=_replay)

Contract(target=f'{SIM}::Simulation.save_results', props=['C18'], name='Simulation.save_results[no backup]',
         params={'self': _SELF(), 'results': Opaque()},
         setup=_setup(False), requires=['not is_none(results)'],
         # without safe_write only the exit state is promised
         ensures=['O == 3', 'result == results'],
         hooks={f'{SIM}::Simulation._save_to_file': _save_to_file_nobackup})


# ---------------------------------------------------------------------------------------------
# fix_output_filenames on a resume (loaded_from_checkpoint): must not destroy an existing complete file.
def _path2(I, which):
    p = _path(I, which)

    def with_suffix(I_, suffix):
        # get_backup_filename: output.with_suffix('.backup' + suffix) -> the backup path
        return I_.ghost['paths']['B']

    def open_(I_, mode='r'):
        g = I_.ghost['__env__']
        if 'w' in mode:
            g[which] = z3.IntVal(1)        # truncated: the previous content is gone, what is written is not a results file
            _crash_point(I_, f'{which}.open("w")')
        h = SObj('GhostFile', None, {'write': Builtin(lambda I2, *a: None, 'file.write')})
        h.attrs['__enter__'] = Builtin(lambda I2: h, '__enter__')
        h.attrs['__exit__'] = Builtin(lambda I2, *a: None, '__exit__')
        return h
    p.attrs['with_suffix'] = Builtin(with_suffix, 'Path.with_suffix')
    p.attrs['suffix'] = '.pkl'
    p.attrs['open'] = Builtin(open_, 'Path.open')
    return p


def _setup_fix(I, env):
    O, B = z3.Int('O'), z3.Int('B')
    I.assume(z3.And(0 <= O, O <= 2, 0 <= B, B <= 2))
    I.ghost['__env__'] = {'O': O, 'B': B}
    I.ghost['had_complete'] = z3.Or(_complete(O), _complete(B))
    I.ghost['safe_write'] = True
    I.ghost['paths'] = {}
    I.ghost['paths']['O'] = _path2(I, 'O')
    I.ghost['paths']['B'] = _path2(I, 'B')
    s = env['self']
    ow = z3.Bool('overwrite_output')

    def setdefault(I_, key, default=None):
        return {'overwrite_output': ow, 'skip_if_output_exists': False, 'safe_write': True}.get(key, default)
    s.attrs['options'] = SObj('OptionsDict', None, {'setdefault': Builtin(setdefault, 'options.setdefault')})
    s.attrs['loaded_from_checkpoint'] = True


def _replay_fix(m, ghost):
    names = {0: 'absent', 1: 'partial', 2: 'complete'}
    O, B = m.int('O'), m.int('B')
    ow = m.bool('overwrite_output')

    def run():
        import pathlib
        import pickle
        import tempfile
        import types
        from tenpy.simulations.simulation import Simulation
        with tempfile.TemporaryDirectory() as d:
            out = pathlib.Path(d) / 'results.pkl'
            bak = pathlib.Path(d) / 'results.backup.pkl'
            good = pickle.dumps({'checkpoint': 'old'})
            for p_, st in ((out, O), (bak, B)):
                if st == 1:
                    p_.write_bytes(good[:len(good) // 2])
                elif st == 2:
                    p_.write_bytes(good)

            def complete(p_):
                try:
                    pickle.loads(p_.read_bytes())
                    return True
                except Exception:
                    return False
            stub = types.SimpleNamespace(options={'overwrite_output': ow, 'skip_if_output_exists': False, 'safe_write': True},
                                         loaded_from_checkpoint=True, get_output_filename=lambda: str(out))
            stub.get_backup_filename = lambda fn: Simulation.get_backup_filename(stub, fn)
            before = (out.exists() and complete(out), bak.exists() and complete(bak))
            Simulation.fix_output_filenames(stub)
            after = (out.exists() and complete(out), bak.exists() and complete(bak))
            ok = (not before[0] or after[0]) and (not before[1] or after[1])
            return ok, (f'resume with output={names[O]}, backup={names[B]}: complete files (output, backup) before {before}, '
                        f'after fix_output_filenames {after}')
    return {'input': {'output_file': names[O], 'backup_file': names[B], 'overwrite_output': ow, 'loaded_from_checkpoint': True}, 'run': run}


Contract(target=f'{SIM}::Simulation.fix_output_filenames', props=['C18'], name='Simulation.fix_output_filenames[resume]',
         replay=_replay_fix,
         params={'self': _SELF()},
         setup=_setup_fix,
         hooks={f'{SIM}::Simulation.get_output_filename': lambda I, f, args, kwargs: 'results.pkl',
                'import:pathlib.Path': lambda I, name: I.ghost['paths']['O']},
         # preparing the output files of a resumed run never destroys a complete results file, and does not touch the output
         ensures=['O == old(O)', 'implies(old(B) == 2, B == 2)', 'implies(old(B) == 0, B == 1)', 'implies(old(B) != 0, B == old(B))'])
