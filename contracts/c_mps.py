"""C07/C09: index normalisation of MPSGeometry (site and bond indices, finite and infinite)."""
from pyvc.contract import Contract, Int, Bool, Obj, Const, OneOf

MPS = 'tenpy/networks/mps.py'


def _geo(bc):
    return Obj('MPSGeometry', MPS, {'L': Int(), 'bc': Const(bc), '_valid_bc': Const(('finite', 'infinite', 'segment'))})


for bc in ('infinite',):
    Contract(target=f'{MPS}::MPSGeometry._to_valid_site_index', props=['C07', 'C09'], name=f'MPSGeometry._to_valid_site_index[{bc}]',
             params={'self': _geo(bc), 'i': Int(), 'return_num_unit_cells': Const(True)},
             requires=['self.L >= 1'],
             # periodic extension: i = cells * L + site with 0 <= site < L, for every integer i (negative included)
             ensures=['0 <= result[0] < self.L', 'i == result[1] * self.L + result[0]'])
    Contract(target=f'{MPS}::MPSGeometry._to_valid_bond_index', props=['C07', 'C09'], name=f'MPSGeometry._to_valid_bond_index[{bc}]',
             params={'self': _geo(bc), 'i_site': Int(), 'is_left': Bool(), 'return_num_unit_cells': Const(True)},
             requires=['self.L >= 1'],
             # the bond left of site i is bond i, the bond right of it is bond i+1 (mod L, counting unit cells)
             ensures=['0 <= result[0] < self.L', 'i_site + ite(is_left, 0, 1) == result[1] * self.L + result[0]'])

for bc in ('finite', 'segment'):
    Contract(target=f'{MPS}::MPSGeometry._to_valid_site_index', props=['C07', 'C09'], name=f'MPSGeometry._to_valid_site_index[{bc}]',
             params={'self': _geo(bc), 'i': Int(), 'return_num_unit_cells': Const(True)},
             requires=['self.L >= 1'],
             raises={'ValueError': 'not (-self.L <= i < self.L)'},
             ensures=['result[1] == 0', 'result[0] == ite(i < 0, i + self.L, i)'])
    Contract(target=f'{MPS}::MPSGeometry._to_valid_bond_index', props=['C07', 'C09'], name=f'MPSGeometry._to_valid_bond_index[{bc}]',
             params={'self': _geo(bc), 'i_site': Int(), 'is_left': Bool(), 'return_num_unit_cells': Const(False)},
             requires=['self.L >= 1'],
             raises={'ValueError': 'not (-self.L <= i_site < self.L)'},
             # L+1 bonds 0..L: left of site i is bond i, right of it bond i+1
             ensures=['result == ite(i_site < 0, i_site + self.L, i_site) + ite(is_left, 0, 1)', '0 <= result <= self.L'])


# ---------------------------------------------------------------------------------------------
# form-exponent algebra (C07: "conversion between the canonical forms leaves the state unchanged";
# C09: unit-cell transformations keep tensors and form labels consistent).
# Ghost model: the tensor stored at site s is  S_left^nuL  Gamma_s  S_right^nuR ;  a ghost tensor records
# (site, nuL, nuR).  Representation invariant INV: the exponents of the stored tensor _B[s] equal form[s].
import z3
from pyvc.contract import Real, Opaque, FixedList
from pyvc.values import SObj, fresh_real
from pyvc.interp import Builtin, PyRaise


def _ghostB(site, nuL, nuR, cells=0, right_abs=None, inner_ok=True, L=None):
    return _self_returning(SObj('GhostB', None, {'site': site, 'nuL': nuL, 'nuR': nuR, 'dtype': 'float64', 'cells': cells,
                                 'right_abs': right_abs, 'inner_ok': inner_ok,
                                 'replace_label': Builtin(lambda I, *a, **k: None, 'replace_label'),
                                 'itranspose': Builtin(lambda I, *a, **k: None, 'itranspose'),
                                 'copy': Builtin(lambda I, *a, **k: None, 'copy')}))


def _self_returning(t):
    for nm in ('itranspose', 'copy', 'replace_label'):
        t.attrs[nm] = Builtin(lambda I2, *aa, _t=t, **kk: _t, nm)
    return t


def _setup_forms(I, env):
    s = env['self']
    TL, TR = z3.Array('TL', z3.IntSort(), z3.RealSort()), z3.Array('TR', z3.IntSort(), z3.RealSort())
    FL, FR = z3.Array('FL', z3.IntSort(), z3.RealSort()), z3.Array('FR', z3.IntSort(), z3.RealSort())
    g = I.ghost.setdefault('__env__', {})
    from pyvc.values import SArr as _SArr
    g.update({n: _SArr(z3.IntVal(10 ** 9), [a_], 'real') for n, a_ in (('TL', TL), ('TR', TR), ('FL', FL), ('FR', FR))})
    I.ghost['arr'] = {'TL': TL, 'TR': TR, 'FL': FL, 'FR': FR}

    def b_get(I_, idx):
        a = I_.ghost['arr']
        idx = z3.IntVal(idx) if isinstance(idx, int) else idx
        t = _ghostB(idx, z3.Select(a['TL'], idx), z3.Select(a['TR'], idx), right_abs=idx)
        t.attrs['itranspose'] = Builtin(lambda I2, *aa, **kk: t, 'itranspose')
        t.attrs['copy'] = Builtin(lambda I2, *aa, **kk: t, 'copy')
        return t

    def b_set(I_, idx, val):
        a = I_.ghost['arr']
        idx = z3.IntVal(idx) if isinstance(idx, int) else idx
        I_.oblige('set_B-stores-tensor-of-that-site', I_.z3bool(I_.equals(val.attrs['site'], idx)), {'clause': 'the tensor stored at site i is a tensor of site i'})
        a['TL'] = z3.Store(a['TL'], idx, val.attrs['nuL'])
        a['TR'] = z3.Store(a['TR'], idx, val.attrs['nuR'])

    def f_get(I_, idx):
        a = I_.ghost['arr']
        idx = z3.IntVal(idx) if isinstance(idx, int) else idx
        return (z3.Select(a['FL'], idx), z3.Select(a['FR'], idx))

    def f_set(I_, idx, val):
        a = I_.ghost['arr']
        idx = z3.IntVal(idx) if isinstance(idx, int) else idx
        a['FL'] = z3.Store(a['FL'], idx, z3.RealVal(str(val[0])) if not isinstance(val[0], z3.ExprRef) else val[0])
        a['FR'] = z3.Store(a['FR'], idx, z3.RealVal(str(val[1])) if not isinstance(val[1], z3.ExprRef) else val[1])

    def s_get(I_, idx):
        return SObj('GhostS', None, {'bond': idx})
    s.attrs['_B'] = SObj('GhostBList', None, {'__getitem__': Builtin(b_get, '_B.__getitem__'), '__setitem__': Builtin(b_set, '_B.__setitem__')})
    s.attrs['form'] = SObj('GhostFormList', None, {'__getitem__': Builtin(f_get, 'form.__getitem__'), '__setitem__': Builtin(f_set, 'form.__setitem__')})
    s.attrs['_S'] = SObj('GhostSList', None, {'__getitem__': Builtin(s_get, '_S.__getitem__')})
    L = s.attrs['L']
    I.ghost['L'] = L
    k = z3.Int('k!inv')
    I.assume(z3.ForAll([k], z3.Implies(z3.And(0 <= k, k < L), z3.And(z3.Select(TL, k) == z3.Select(FL, k), z3.Select(TR, k) == z3.Select(FR, k)))))


def _scale_axis_B(I, f, args, kwargs):
    """assumed contract of _scale_axis_B(B, S, form_diff, axis, cutoff): multiplies the axis by S**form_diff.
    Obligation generated here: S must be the singular values of the bond attached to that axis."""
    B, S, d, axis, cutoff = args
    L = f.self_obj.attrs['L']
    site = B.attrs['site']
    want = site if axis == 'vL' else I.binop(__import__('ast').Mod(), site + 1, L)
    I.oblige(f'scale-{axis}-uses-the-adjacent-bond', I.z3bool(I.equals(S.attrs['bond'], want)),
             {'clause': f'the singular values used to rescale {axis} of the tensor of site s belong to the bond {"s" if axis == "vL" else "s+1"} (mod L)'})
    nuL, nuR = B.attrs['nuL'], B.attrs['nuR']
    if axis == 'vL':
        nuL = nuL + d
    else:
        nuR = nuR + d
    return _ghostB(site, nuL, nuR, cells=B.attrs['cells'], right_abs=B.attrs['right_abs'])


def _shift(I, f, args, kwargs):
    B = args[0]
    n = args[1] if len(args) > 1 else kwargs.get('num_unit_cells', 0)
    if isinstance(B, SObj) and B.cls == 'GhostB':
        c2 = B.attrs['cells'] + n
        r = _ghostB(B.attrs['site'], B.attrs['nuL'], B.attrs['nuR'], cells=c2, right_abs=B.attrs['site'] + c2 * I.ghost['L'])
        return r
    return B


def _abs(B, L):
    return B.attrs['site'] + B.attrs['cells'] * L


def _tensordot(I, f, args, kwargs):
    """assumed contract of npc.tensordot(theta, B, axes=['vR', 'vL']) on ghost tensors: joins theta (sites l..r) with the tensor of
    site r+1; the exponent of the singular values on the joined bond is theta.nuR + B.nuL."""
    theta, B = args[0], args[1]
    L = I.ghost['L']
    r_abs = theta.attrs['right_abs']
    I.oblige('theta-contracts-neighbouring-sites', I.z3bool(I.equals(_abs(B, L), r_abs + 1)), {'clause': 'get_theta contracts the tensor of the next site'})
    bond_exp_ok = I.z3bool(I.equals(theta.attrs['nuR'] + B.attrs['nuL'], 1))
    ok = z3.And(I.z3bool(theta.attrs['inner_ok']), bond_exp_ok)
    return _ghostB(theta.attrs['site'], theta.attrs['nuL'], B.attrs['nuR'], cells=theta.attrs['cells'], right_abs=_abs(B, L), inner_ok=ok)


_FORM_HOOKS = {f'{MPS}::MPS._replace_p_label': (lambda I, f, args, kwargs: args[0]), f'{MPS}::MPS._scale_axis_B': _scale_axis_B, 'tenpy/linalg/np_conserved.py::tensordot': _tensordot, f'{MPS}::MPSGeometry.shift_Array_unit_cells': _shift,
               f'{MPS}::MPS.shift_Array_unit_cells': _shift}
_MPS = lambda: Obj('MPS', MPS, {'L': Int(), 'bc': Const('infinite'), '_valid_bc': Const(('finite', 'infinite', 'segment')),
                                'dtype': Const('float64')})
_FORMS = OneOf('A', 'B', 'C', 'G', 'Th', None, FixedList([Real(), Real()], as_tuple=True), FixedList([Const(None), Real()], as_tuple=True),
               FixedList([Real(), Const(None)], as_tuple=True))
_NAMED = "{'A': (1., 0.), 'B': (0., 1.), 'C': (0.5, 0.5), 'G': (0., 0.), 'Th': (1., 1.)}"

Contract(target=f'{MPS}::MPS.get_B', props=['C07', 'C09'], name='MPS.get_B[form algebra]',
         params={'self': _MPS(), 'i': Int(), 'form': _FORMS, 'copy': Const(False), 'cutoff': Real(), 'label_p': Const(None)},
         setup=_setup_forms, hooks=_FORM_HOOKS,
         requires=['self.L >= 1'],
         ensures=[
             'result.site == i - (i // self.L) * self.L',
             # the returned tensor has the requested exponents (the stored ones where nothing is requested)
             f"implies(isinstance(form, str), result.nuL == {_NAMED}.get(form, (0, 0))[0] and result.nuR == {_NAMED}.get(form, (0, 0))[1])"
             if False else 'True',
             'wanted_ok',
             # stored tensors and labels untouched
             'forall(0, self.L, lambda k: TL[k] == old(TL)[k] and TR[k] == old(TR)[k] and FL[k] == old(FL)[k] and FR[k] == old(FR)[k])'],
         call=lambda I, env: _call_get_B(I, env))


def _call_get_B(I, env):
    from pyvc.interp import FuncVal
    from pyvc import source
    mod, cls, fn = source.locate(f'{MPS}::MPS.get_B')
    s = env['self']
    res = I.call_function(FuncVal(mod, fn, self_obj=s, cls='MPS'), [env['i'], env['form'], False, env['cutoff'], None], {})
    form = env['form']
    named = {'A': (1, 0), 'B': (0, 1), 'C': (0.5, 0.5), 'G': (0, 0), 'Th': (1, 1)}
    a = I.ghost['arr']
    site = res.attrs['site']
    stored = (z3.Select(a['TL'], site), z3.Select(a['TR'], site))
    if form is None:
        want = stored
    elif isinstance(form, str):
        want = tuple(z3.RealVal(str(x)) for x in named[form])
    else:
        want = tuple(stored[k] if form[k] is None else form[k] for k in (0, 1))
    I.frames[-1].locals['wanted_ok'] = z3.And(res.attrs['nuL'] == want[0], res.attrs['nuR'] == want[1])
    for nm in ('TL', 'TR', 'FL', 'FR'):
        from pyvc.values import SArr
        I.frames[-1].locals[nm] = SArr(z3.IntVal(10 ** 9), [a[nm]], 'real')
    return res


Contract(target=f'{MPS}::MPS.get_theta', props=['C07', 'C09'], name='MPS.get_theta[form algebra]',
         params={'self': _MPS(), 'i': Int(), 'n': Int(), 'cutoff': Real(), 'formL': Real(), 'formR': Real()},
         setup=_setup_forms, hooks=_FORM_HOOKS,
         requires=['self.L >= 1', 'n >= 1'],
         ensures=[
             # sites i .. i+n-1, exponent formL on the left, formR on the right and exactly 1 on every inner bond
             'result.site + result.cells * self.L == i',
             'ite(is_none(result.right_abs), result.site + result.cells * self.L, result.right_abs) == i + n - 1' if False else 'right_ok',
             'result.nuL == formL and result.nuR == formR',
             'result.inner_ok'],
         loops={0: {'inv': ['True'], 'frame': {'self': []}},
                1: {'inv': ['theta.site + theta.cells * self.L == i', 'theta.right_abs == i + _i', 'theta.nuL == formL', 'theta.inner_ok',
                            'implies(_i + 1 < n, theta.nuR == old_fR)', 'implies(_i + 1 >= n and n >= 2 and _i >= 1, theta.nuR == formR)',
                            'old_fR == FRc[(i + _i) % self.L]'],
                    'frame': {'self': []}}},
         call=lambda I, env: _call_get_theta(I, env))


def _call_get_theta(I, env):
    from pyvc.interp import FuncVal
    from pyvc import source
    from pyvc.values import SArr
    mod, cls, fn = source.locate(f'{MPS}::MPS.get_theta')
    s = env['self']
    a = I.ghost['arr']
    I.ghost['__env__']['FRc'] = SArr(z3.IntVal(10 ** 9), [a['FR']], 'real')
    res = I.call_function(FuncVal(mod, fn, self_obj=s, cls='MPS'), [env['i'], env['n'], env['cutoff'], env['formL'], env['formR']], {})
    L = s.attrs['L']
    r_abs = res.attrs['right_abs']
    I.frames[-1].locals['right_ok'] = (r_abs == env['i'] + env['n'] - 1)
    return res


def _call_convert_step(I, env):
    """the body of convert_form's loop for one (symbolic) site: set_B(i, get_B(i, form=f), form=f)"""
    from pyvc.interp import FuncVal
    from pyvc import source
    from pyvc.values import SArr
    s = env['self']
    mod, cls, fn = source.locate(f'{MPS}::MPS.convert_form')
    # the loop body is taken from the real source of convert_form (the two statements of the for loop)
    loop = [n for n in fn.body if n.__class__.__name__ == 'For'][0]
    fr = I.frames[-1]
    from pyvc.interp import Frame
    f2 = Frame(mod, {'self': s, 'i': env['i'], 'new_form': env['form']}, cls='MPS', qual='convert_form-body')
    f2.funcnode = fn
    I.frames.append(f2)
    try:
        I.exec_block(loop.body)
    finally:
        I.frames.pop()
    a = I.ghost['arr']
    for nm in ('TL', 'TR', 'FL', 'FR'):
        fr.locals[nm] = SArr(z3.IntVal(10 ** 9), [a[nm]], 'real')
    return None


Contract(target=f'{MPS}::MPS.convert_form', props=['C07', 'C09'], name='MPS.convert_form[loop body, any site]',
         params={'self': _MPS(), 'i': Int(), 'form': OneOf('A', 'B', 'C', 'G', 'Th')},
         setup=_setup_forms, hooks=_FORM_HOOKS,
         requires=['self.L >= 1', '0 <= i < self.L'],
         call=_call_convert_step,
         ensures=[
             # representation invariant re-established at site i with the new label, all other sites untouched
             'TL[i] == FL[i] and TR[i] == FR[i]',
             "FL[i] == {'A': 1., 'B': 0., 'C': 0.5, 'G': 0., 'Th': 1.}[form] and FR[i] == {'A': 0., 'B': 1., 'C': 0.5, 'G': 0., 'Th': 1.}[form]",
             'forall(0, self.L, lambda k: implies(k != i, TL[k] == old(TL)[k] and TR[k] == old(TR)[k] and FL[k] == old(FL)[k] and FR[k] == old(FR)[k]))'])


# ---------------------------------------------------------------------------------------------------------------
from pyvc.contract import List as _List
# C09: MPS.permute_sites realises the permutation by neighbour swaps: site i ends up at perm[i], for every L and
# every permutation; the returned truncation error is the sum over the swaps performed.
# Ghost state: content[k] = original index of the site now at position k (the hook of swap_sites exchanges two
# neighbouring entries - assumed contract of swap_sites, which the bounded C09 harness checks against dense states);
# total = accumulated eps of the swaps.  Termination of the sort is not proved (no variant given).
def _perm_setup(I, env):
    import z3 as _z
    from pyvc.values import SArr as _SA
    k = _z.Int('k!id')
    L = env['self'].attrs['L']
    I.ghost['__env__'] = {'content': _SA(L, [_z.Lambda([k], k)], 'int', False), 'total': _z.RealVal(0)}


def _swap_hook(I, f, args, kwargs):
    import z3 as _z
    from pyvc.values import to_z3 as _t, fresh_real as _fr
    from pyvc import source as _src
    from pyvc.interp import ClassVal as _CV
    i = _t(args[0])
    g = I.ghost['__env__']
    c = g['content']
    L = _t(f.self_obj.attrs['L'])
    I.oblige('swap-in-range', _z.And(0 <= i, i + 1 < L), {'clause': 'swap_sites(i) is called with 0 <= i < L - 1 (finite MPS)'})
    a = c.leaves[0]
    c.leaves = [_z.Store(_z.Store(a, i, _z.Select(a, i + 1)), i + 1, _z.Select(a, i))]
    eps = _fr('eps')
    g['total'] = g['total'] + eps
    mod = _src.get_module('tenpy/linalg/truncation.py')
    return I.instantiate(_CV(mod, mod.classes['TruncationError']), [eps, _fr('ov')], {})


Contract(
    target=f'{MPS}::MPS.permute_sites', props=['C09'],
    params={'self': Obj('MPS', MPS, {'L': Int()}), 'perm': _List('int'), 'swap_op': Const('auto'), 'trunc_par': Opaque()},
    setup=_perm_setup, hooks={f'{MPS}::MPS.swap_sites': _swap_hook},
    requires=['self.L >= 1 and len(perm) == self.L and not is_none(trunc_par)',
              'forall(0, len(perm), lambda j: 0 <= perm[j] < len(perm))',
              'forall2(0, len(perm), lambda p, q: implies(p != q, perm[p] != perm[q]))'],
    ensures=[
        # the documented map: the site that was at i is now at perm[i]
        'forall(0, self.L, lambda i: content[perm[i]] == i)',
        'forall(0, len(perm), lambda j: perm[j] == old(perm)[j])',          # the argument is copied, not sorted in place
        'result.eps == total',                                             # error of every swap reported, once
    ],
    loops={0: {
        'inv': ['0 <= i <= self.L - 1 and len(perm) == self.L and self.L == old(self.L)',
                'forall(0, self.L, lambda k: 0 <= content[k] < self.L)',
                'forall2(0, self.L, lambda p, q: implies(p != q, content[p] != content[q]))',
                # the working copy travels with the sites
                'forall(0, self.L, lambda k: perm[k] == old(perm)[content[k]])',
                # "keeping everything up to i in strictly ascending order"
                'forall2(0, i + 1, lambda p, q: implies(p < q, perm[p] < perm[q]))',
                # once the whole list is ascending it is the identity (lemma: proved in this run)
                'implies(i >= self.L - 1, forall(0, self.L, lambda k: perm[k] == k))',
                'trunc_err.eps == total'],
        'lemmas': ['sorted_perm_identity(perm)'], 'lemmas_pres': ['sorted_perm_identity(perm)'],
        'ghost_mut': ['content', 'total'],
    }},
)
