"""C20 (first sentence, sequential part): DictCache over Storage refines a dictionary.

View V of a cache: dom V = long_term_keys, V[k] = long_term_storage.data[k].
Invariant INV (taken from "reads return the latest value written"):
  * long_term_keys == key set of the storage data,
  * every short-term entry is the *current* pair of V and its key is a short-term key.
Every operation is verified from an arbitrary state satisfying INV and re-establishes it, so the
dictionary behaviour holds for every finite history (induction over the history).
The storage is the in-memory `Storage` (the real class, inlined); PickleStorage/Hdf5Storage/
ThreadedStorage are exercised by the bounded stand-in only.
"""
from pyvc.contract import Contract, Int, Bool, Opaque, OptOpaque, List, Obj, Const, OneOf, FixedList, Map, Set

CA = 'tenpy/tools/cache.py'


def _cache():
    st = Obj('Storage', CA, {'_opened': Const(True), '_owns_resources': Const(True), '_subcontainers': Const([]),
                             'data': Map('U', 'U')})
    return Obj('DictCache', CA, {'long_term_storage': st, 'long_term_keys': Set('U'),
                                 'short_term_cache': Map('U', 'U'), 'short_term_keys': Set('U')})


D = 'self.long_term_storage.data'
INV = [f'forall_U(lambda k: (k in self.long_term_keys) == (k in {D}))',
       f'forall_U(lambda k: implies(k in self.short_term_cache, k in self.long_term_keys and '
       f'self.short_term_cache[k] == {D}[k] and k in self.short_term_keys))',
       'self.long_term_storage._opened']
# frame: the view at every other key is unchanged
OTHERS_SAME = (f'forall_U(lambda k: implies(k != key, (k in self.long_term_keys) == old(k in self.long_term_keys) and '
               f'implies(k in self.long_term_keys, {D}[k] == old({D}[k]))))')
VIEW_SAME = (f'forall_U(lambda k: (k in self.long_term_keys) == old(k in self.long_term_keys) and '
             f'implies(k in self.long_term_keys, {D}[k] == old({D}[k])))')


def _replay_delitem(m, ghost):
    def run():
        from tenpy.tools.cache import DictCache
        c = DictCache.trivial()
        c.set_short_term_keys('a')
        c['a'] = 1
        del c['a']
        try:
            v = c['a']
        except KeyError:
            return True, 'KeyError as for a dict'
        return False, f"set_short_term_keys('a'); c['a']=1; del c['a']; c['a'] returned {v!r} (dict raises KeyError)"
    return {'input': "history: set_short_term_keys('a'); c['a']=1; del c['a']; c['a']", 'run': run}


Contract(target=f'{CA}::DictCache.__setitem__', props=['C20'],
         params={'self': _cache(), 'key': Opaque(), 'val': Opaque()},
         requires=INV,
         ensures=INV + ['key in self.long_term_keys', f'{D}[key] == val', OTHERS_SAME])

Contract(target=f'{CA}::DictCache.__getitem__', props=['C20'],
         params={'self': _cache(), 'key': Opaque()},
         requires=INV,
         raises={'KeyError': 'not (key in self.long_term_keys)'},
         ensures=INV + [f'result == {D}[key]', VIEW_SAME])

Contract(target=f'{CA}::DictCache.get', props=['C20'],
         params={'self': _cache(), 'key': Opaque(), 'default': Opaque()},
         requires=INV,
         ensures=INV + [f'result == ({D}[key] if key in self.long_term_keys else default)', VIEW_SAME])

Contract(target=f'{CA}::DictCache.__delitem__', props=['C20'],
         params={'self': _cache(), 'key': Opaque()},
         requires=INV,
         ensures=INV + ['not (key in self.long_term_keys)', OTHERS_SAME],
         replay=_replay_delitem)

Contract(target=f'{CA}::DictCache.__contains__', props=['C20'],
         params={'self': _cache(), 'key': Opaque()},
         requires=INV,
         ensures=INV + ['result == (key in self.long_term_keys)', VIEW_SAME])

Contract(target=f'{CA}::DictCache.set_short_term_keys', props=['C20'], name='DictCache.set_short_term_keys[2 keys]',
         params={'self': _cache(), 'keys': FixedList([Opaque(), Opaque()], as_tuple=True)},
         requires=INV,
         ensures=INV + [VIEW_SAME,
                        'forall_U(lambda k: (k in self.short_term_keys) == (k == keys[0] or k == keys[1]))',
                        # the short-term cache is the old one restricted to the new keys
                        'forall_U(lambda k: (k in self.short_term_cache) == (old(k in self.short_term_cache) and '
                        '(k == keys[0] or k == keys[1])))'],
         loops={0: {'inv': [VIEW_SAME, 'self.long_term_storage._opened',
                            'forall_U(lambda k: (k in self.short_term_keys) == (k in keys))',
                            'forall_U(lambda k: (k in keys) == (k == old(keys)[0] or k == old(keys)[1]))',
                            'sc is self.short_term_cache',
                            'forall_U(lambda k: implies(k in sc, old(k in self.short_term_cache) and sc[k] == old(self.short_term_cache[k])))',
                            # keys already visited are removed iff not wanted; the rest is untouched
                            'forall(0, _i, lambda j: (visited[j] in sc) == (visited[j] in keys))',
                            'forall(_i, len(visited), lambda j: visited[j] in sc)',
                            'forall_U(lambda k: implies(old(k in self.short_term_cache) and (k in keys), k in sc))',
                            ],
                    'bind_iter': 'visited'}})

Contract(target=f'{CA}::DictCache.preload', props=['C20'], name='DictCache.preload[2 keys]',
         params={'self': _cache(), 'keys': FixedList([Opaque(), Opaque()], as_tuple=True), 'raise_missing': Bool()},
         requires=INV,
         raises={'KeyError': 'raise_missing and not (keys[0] in self.long_term_keys and keys[1] in self.long_term_keys)'},
         ensures=INV + [VIEW_SAME, 'keys[0] in self.short_term_keys and keys[1] in self.short_term_keys',
                        'forall_U(lambda k: implies(old(k in self.short_term_keys), k in self.short_term_keys))'])

Contract(target=f'{CA}::DictCache.__len__', props=['C20'], name='DictCache.create_subcache',
         params={'self': _cache(), 'name': Opaque()},
         requires=INV,
         call=lambda I, env: I.call(I.getattr(env['self'], 'create_subcache'), [env['name']], {}),
         # sub-caches are isolated: fresh empty view over a storage that is not the parent's
         ensures=INV + [VIEW_SAME, 'result.long_term_storage is not self.long_term_storage',
                        'result.long_term_storage.data is not self.long_term_storage.data',
                        'len(result.long_term_storage.data) == 0 and len(result.long_term_keys) == 0 '
                        'and len(result.short_term_cache) == 0'])
