"""Samplers for the CPython cross-check (loaded last): real arguments for contracts whose clause text is evaluable on
real objects.  The driver draws inputs, runs the real function and evaluates the clause text that was proved; a
disagreement means the verifier (or an assumed primitive contract) is wrong and is reported as a checker error."""
from pyvc.contract import REGISTRY


def _sorted_unique(rng, n, lo=-6, hi=12):
    return sorted(rng.sample(range(lo, hi), min(n, hi - lo)))


def s_iter_common(rng):
    import numpy as np
    return {'a': _sorted_unique(rng, rng.randint(0, 7)), 'b': _sorted_unique(rng, rng.randint(0, 7))}


def s_get_qindex(rng):
    import numpy as np
    from tenpy.linalg import charges
    nb = rng.randint(1, 5)
    slices = [0]
    for _ in range(nb):
        slices.append(slices[-1] + rng.randint(1, 4))
    leg = charges.LegCharge(charges.ChargeInfo(), slices, np.zeros((nb, 0), dtype=int))
    return {'self': leg, 'flat_index': rng.randint(-slices[-1] - 3, slices[-1] + 3)}


def s_make_stride(cstyle):
    def s(rng):
        return {'shape': [rng.randint(1, 5) for _ in range(rng.randint(1, 5))], 'cstyle': cstyle}
    return s


def s_leg_index_int(rng):
    import numpy as np
    import tenpy.linalg.np_conserved as npc
    rank = rng.randint(1, 5)
    return {'self': npc.Array.from_ndarray_trivial(np.zeros((1,) * rank)), 'label': rng.randint(-rank - 3, rank + 3)}


def s_geometry(bc):
    def s(rng):
        from tenpy.networks.mps import MPSGeometry
        g = object.__new__(MPSGeometry)
        g.sites, g.bc = [None] * rng.randint(1, 7), bc
        return {'self': g, 'i': rng.randint(-3 * g.L - 2, 3 * g.L + 2), 'return_num_unit_cells': True}
    return s


def s_geometry_bond(bc):
    def s(rng):
        from tenpy.networks.mps import MPSGeometry
        g = object.__new__(MPSGeometry)
        g.sites, g.bc = [None] * rng.randint(1, 7), bc
        return {'self': g, 'i_site': rng.randint(-3 * g.L - 2, 3 * g.L + 2), 'is_left': rng.random() < 0.5,
                'return_num_unit_cells': bc == 'infinite'}
    return s


def s_inverse_permutation(rng):
    import numpy as np
    n = rng.randint(0, 8)
    p = list(range(n))
    rng.shuffle(p)
    inv = [0] * n
    for j, v in enumerate(p):
        inv[v] = j
    return {'perm': np.array(p, dtype=np.intp), 'inv0': np.array(inv, dtype=np.intp)}


def s_te_add(rng):
    from tenpy.linalg.truncation import TruncationError
    return {'self': TruncationError(rng.random() * 0.1, 1 - rng.random() * 0.1), 'other': TruncationError(rng.random() * 0.1, 1 - rng.random() * 0.1)}


def s_to_cache(rng):
    from tenpy.linalg.krylov_based import KrylovBased
    k = object.__new__(KrylovBased)
    k.N_cache = rng.randint(1, 5)
    k._cache = [f'vector {j}' for j in range(rng.randint(0, k.N_cache))]     # (values that survive the snapshot of old(.))
    return {'self': k, 'psi': 'new vector'}


_LATS = {}


def _lattice(rng, bc, D):
    """a real lattice of dimension D with a random named or custom order"""
    import numpy as np
    from tenpy.models import lattice
    from tenpy.networks.site import SpinHalfSite
    s = SpinHalfSite(None)
    if D == 1:
        cls, Ls = rng.choice([(lattice.Chain, (rng.randint(1, 5),)), (lattice.Ladder, (rng.randint(1, 4),))])
    else:
        cls, Ls = rng.choice([(lattice.Square, (rng.randint(1, 3), rng.randint(1, 3))), (lattice.Honeycomb, (rng.randint(1, 3), rng.randint(1, 3))),
                              (lattice.Kagome, (rng.randint(1, 2), rng.randint(1, 2)))])
    lat = cls(*Ls, s, bc_MPS=bc, bc='open' if bc == 'finite' and rng.random() < 0.5 else 'periodic',
              order=rng.choice(['default', 'Cstyle', 'Fstyle', 'snake']))
    if rng.random() < 0.4:
        # custom order that keeps whole rings together (what the periodic extension of an infinite MPS assumes)
        order = lat.order.copy()
        per_ring = lat.N_sites // lat.N_rings
        order = order[np.lexsort((np.arange(lat.N_sites), order[:, 0]))]
        for x in range(lat.N_rings):
            blk = list(range(x * per_ring, (x + 1) * per_ring))
            rng.shuffle(blk)
            order[x * per_ring:(x + 1) * per_ring] = order[blk]
        lat.order = order
    return lat


def s_mps2lat(bc, D):
    def s(rng):
        lat = _lattice(rng, bc, D)
        N = lat.N_sites
        i = rng.randint(0, N - 1) if bc == 'finite' else rng.randint(-4 * N, 4 * N)
        q, r = divmod(i, N)
        return {'self': lat, 'i': i, 'q': q, 'r': r, 'ord': lambda r_, k: int(lat.order[r_][k])}
    return s


def s_lat2mps(bc, D):
    def s(rng):
        import numpy as np
        lat = _lattice(rng, bc, D)
        N = lat.N_sites
        i = rng.randint(0, N - 1) if bc == 'finite' else rng.randint(-4 * N, 4 * N)
        q, r = divmod(i, N)
        li = lat.order[r].copy()
        li[0] += q * lat.N_rings
        return {'self': lat, 'lat_idx': np.array(li, dtype=np.intp), 'q': q, 'r': r, 'ord': lambda r_, k: int(lat.order[r_][k])}
    return s


SAMPLERS = {
    '_iter_common_sorted': s_iter_common,
    'LegCharge.get_qindex': s_get_qindex,
    '_make_stride[C]': s_make_stride(True), '_make_stride[F]': s_make_stride(False),
    'Array.get_leg_index[int]': s_leg_index_int,
    'inverse_permutation': s_inverse_permutation,
    'TruncationError.__add__': s_te_add,
    'KrylovBased._to_cache': s_to_cache,
}
for _bc in ('finite', 'infinite', 'segment'):
    SAMPLERS[f'MPSGeometry._to_valid_site_index[{_bc}]'] = s_geometry(_bc)
    SAMPLERS[f'MPSGeometry._to_valid_bond_index[{_bc}]'] = s_geometry_bond(_bc)

for _bc in ('finite', 'infinite', 'segment'):
    for _D in (1, 2):
        SAMPLERS[f'Lattice.mps2lat_idx[{_bc}, dim={_D}]'] = s_mps2lat(_bc, _D)
        SAMPLERS[f'Lattice.lat2mps_idx[{_bc}, dim={_D}]'] = s_lat2mps(_bc, _D)

for _c in REGISTRY:
    if _c.name in SAMPLERS and _c.sampler is None:
        _c.sampler = SAMPLERS[_c.name]
