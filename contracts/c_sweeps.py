"""C13 (mechanism only): the sweep schedule of Sweep.get_sweep_schedule is consistent for every L.

This does not decide C13's statements about energies/convergence; it pins the bookkeeping the engines rely on:
equal lengths, consecutive positions differ by +1 / -1 exactly as `move_right` announces (including the wrap from the
last to the first entry), every position is visited, and the environment that the next step reads is updated.
"""
import z3

from pyvc.contract import Contract, Int, Bool, Obj, Const, OneOf
from pyvc.builtins_model import seg_to_arr
from pyvc.values import SObj, SArr, SegList

MC = 'tenpy/algorithms/mps_common.py'


def _call(I, env):
    from pyvc.interp import FuncVal
    from pyvc import source
    mod, cls, fn = source.locate(f'{MC}::Sweep.get_sweep_schedule')
    s = env['self']
    res = I.call_function(FuncVal(mod, fn, self_obj=s, cls='Sweep'), [], {})
    i0s, mr, up = res.parts
    fr = I.frames[-1]
    fr.locals['i0s'] = i0s
    fr.locals['mr'] = seg_to_arr(I, mr) if isinstance(mr, (SegList, list)) else mr
    fr.locals['up'] = seg_to_arr(I, up) if isinstance(up, (SegList, list)) else up
    return res


def _setup(I, env):
    s = env['self']
    L = z3.Int('L')
    n = env['n']
    s.attrs['psi'] = SObj('PsiRecord', None, {'L': L})
    s.attrs['EffectiveH'] = SObj('EffHRecord', None, {'length': n})
    fin = env['finite']
    s.attrs['finite'] = fin
    I.assume(L > n if fin else L >= 2)
    I.ghost['__env__'] = {'L': L, 'npos': (L - n + 1) if fin else L}


Contract(
    target=f'{MC}::Sweep.get_sweep_schedule', props=['C13'], name='Sweep.get_sweep_schedule',
    params={'self': Obj('Sweep', MC, {}), 'n': OneOf(1, 2), 'finite': OneOf(True, False)},
    setup=_setup, call=_call,
    ensures=[
        'len(i0s) == len(mr) and len(mr) == len(up) and len(i0s) >= 2',
        # each step moves by one site in the announced direction ...
        'forall(0, len(i0s) - 1, lambda k: i0s[k + 1] == i0s[k] + ite(mr[k], 1, -1))',
        # ... and the last entry leads back to the first one (finite: exactly; infinite: modulo the unit cell)
        'ite(finite, i0s[0] == i0s[len(i0s) - 1] + ite(mr[len(i0s) - 1], 1, -1), (i0s[len(i0s) - 1] + ite(mr[len(i0s) - 1], 1, -1) - i0s[0]) % L == 0)',
        # every position is visited while moving right and while moving left
        'forall(0, npos - 1, lambda b: exists(0, len(i0s), lambda k: i0s[k] == b and mr[k]))',
        'forall(1, npos, lambda b: exists(0, len(i0s), lambda k: i0s[k] == b and not mr[k]))',
        # the environment read by the next step is updated: LP when moving right, RP when moving left
        'forall(0, len(i0s), lambda k: implies(mr[k], up[k][0]) and implies(not mr[k], up[k][1]))',
        # positions stay inside the chain (finite) / within one unit cell of it (infinite)
        'forall(0, len(i0s), lambda k: 0 <= i0s[k] and i0s[k] <= ite(finite, L - n, L))',
    ],
)
