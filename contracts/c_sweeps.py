"""C13 (mechanism only): the sweep schedule of Sweep.get_sweep_schedule is consistent for every L.

This does not decide C13's statements about energies/convergence; it pins the bookkeeping the engines rely on:
equal lengths, consecutive positions differ by +1 / -1 exactly as `move_right` announces (including the wrap from the
last to the first entry), every position is visited, and the environment that the next step reads is updated.
"""
import z3

from pyvc.contract import Contract, Int, Bool, Obj, Const, OneOf
from pyvc.builtins_model import seg_to_arr
from pyvc.values import SObj, SArr, SegList

MC = 'tenpy/algorithms/mps_common.py'


def _call(I, env):
    from pyvc.interp import FuncVal
    from pyvc import source
    mod, cls, fn = source.locate(f'{MC}::Sweep.get_sweep_schedule')
    s = env['self']
    res = I.call_function(FuncVal(mod, fn, self_obj=s, cls='Sweep'), [], {})
    i0s, mr, up = res.parts
    fr = I.frames[-1]
    fr.locals['i0s'] = i0s
    fr.locals['mr'] = seg_to_arr(I, mr) if isinstance(mr, (SegList, list)) else mr
    fr.locals['up'] = seg_to_arr(I, up) if isinstance(up, (SegList, list)) else up
    return res


def _setup(I, env):
    s = env['self']
    L = z3.Int('L')
    n = env['n']
    s.attrs['psi'] = SObj('PsiRecord', None, {'L': L})
    s.attrs['EffectiveH'] = SObj('EffHRecord', None, {'length': n})
    fin = env['finite']
    s.attrs['finite'] = fin
    I.assume(L > n if fin else L >= 2)
    I.ghost['__env__'] = {'L': L, 'npos': (L - n + 1) if fin else L}


Contract(
    target=f'{MC}::Sweep.get_sweep_schedule', props=['C13'], name='Sweep.get_sweep_schedule',
    params={'self': Obj('Sweep', MC, {}), 'n': OneOf(1, 2), 'finite': OneOf(True, False)},
    setup=_setup, call=_call,
    ensures=[
        'len(i0s) == len(mr) and len(mr) == len(up) and len(i0s) >= 2',
        # each step moves by one site in the announced direction ...
        'forall(0, len(i0s) - 1, lambda k: i0s[k + 1] == i0s[k] + ite(mr[k], 1, -1))',
        # ... and the last entry leads back to the first one (finite: exactly; infinite: modulo the unit cell)
        'ite(finite, i0s[0] == i0s[len(i0s) - 1] + ite(mr[len(i0s) - 1], 1, -1), (i0s[len(i0s) - 1] + ite(mr[len(i0s) - 1], 1, -1) - i0s[0]) % L == 0)',
        # every position is visited while moving right and while moving left
        'forall(0, npos - 1, lambda b: exists(0, len(i0s), lambda k: i0s[k] == b and mr[k]))',
        'forall(1, npos, lambda b: exists(0, len(i0s), lambda k: i0s[k] == b and not mr[k]))',
        # the environment read by the next step is updated: LP when moving right, RP when moving left
        'forall(0, len(i0s), lambda k: implies(mr[k], up[k][0]) and implies(not mr[k], up[k][1]))',
        # positions stay inside the chain (finite) / within one unit cell of it (infinite)
        'forall(0, len(i0s), lambda k: 0 <= i0s[k] and i0s[k] <= ite(finite, L - n, L))',
    ],
)


# ---------------------------------------------------------------------------------------------------------------
# C18 / C13: the iteration loop of IterativeSweeps.run (DMRG, VUMPS, variational compression): a checkpoint - where a simulation
# saves and measures - is emitted between two iterations *of this call*, never before the first one (a resumed engine, whose sweep
# counter is not zero, would otherwise repeat the measurement of the checkpoint it was resumed from) and never after the last;
# the result is that of the last iteration (of pre_run_initialize if none ran); post_run_cleanup runs exactly once, at the end.
# Ghost: counters `iters`, `emits`, `cleanups`; stopping_criterion is an arbitrary predicate (termination is not claimed).
from pyvc.contract import Opaque as _Opaque
from pyvc.interp import Builtin as _Builtin
from pyvc.values import Opq as _Opq, U as _U, fresh_name as _fresh_name


def _run_setup(I, env):
    g = {'iters': z3.IntVal(0), 'emits': z3.IntVal(0), 'cleanups': z3.IntVal(0), 'last': _Opq(z3.Const('pre_run_result', _U)),
         'pre': None}
    g['pre'] = g['last']
    I.ghost['__env__'] = g

    def emit(I_, *a, **k):
        gg = I_.ghost['__env__']
        I_.oblige('checkpoint-only-between-iterations', z3.And(gg['iters'] >= 1, gg['emits'] == gg['iters'] - 1, gg['cleanups'] == 0),
                  {'clause': 'checkpoint.emit() is called only after an iteration of this run() call, once per iteration'})
        gg['emits'] = gg['emits'] + 1
        return []
    env['self'].attrs['checkpoint'] = SObj('GhostEventHandler', None, {'emit': _Builtin(emit, 'checkpoint.emit')})


def _stop(I, f, args, kwargs):
    return z3.Bool(_fresh_name('stop'))


def _iteration(I, f, args, kwargs):
    g = I.ghost['__env__']
    I.oblige('no-iteration-after-cleanup', g['cleanups'] == 0, {'clause': 'run_iteration() is not called after post_run_cleanup()'})
    g['iters'] = g['iters'] + 1
    g['last'] = _Opq(z3.Const(_fresh_name('iteration_result'), _U))
    return g['last']


def _cleanup(I, f, args, kwargs):
    g = I.ghost['__env__']
    g['cleanups'] = g['cleanups'] + 1
    return None



def _hunt_run():
    """witness on a real engine: two-site DMRG run for 2 sweeps, then continued (what a resumed simulation does): the event
    sequence of the second run() call must start with an iteration, checkpoints only between iterations"""
    import warnings
    warnings.simplefilter('ignore')
    from tenpy.models.xxz_chain import XXZChain
    from tenpy.networks.mps import MPS
    from tenpy.algorithms import dmrg
    M = XXZChain({'L': 4, 'Jxx': 1., 'Jz': 1.3, 'hz': 0.05, 'bc_MPS': 'finite'})
    psi = MPS.from_product_state(M.lat.mps_sites(), ['up', 'down'] * 2, 'finite')
    eng = dmrg.TwoSiteDMRGEngine(psi, M, {'max_sweeps': 2, 'min_sweeps': 2, 'N_sweeps_check': 1, 'mixer': False, 'trunc_params': {'chi_max': 8}})
    log = []
    eng.checkpoint.connect(lambda algorithm: log.append('checkpoint'))
    orig = eng.run_iteration

    def run_iteration():
        log.append('iteration')
        return orig()
    eng.run_iteration = run_iteration
    for call, max_sweeps in ((1, 2), (2, 5)):
        del log[:]
        eng.options['max_sweeps'] = eng.options['min_sweeps'] = max_sweeps
        eng.run()
        ok = (not log or log[0] == 'iteration') and all(a != b for a, b in zip(log, log[1:])) and (not log or log[-1] == 'iteration')
        if not ok:
            return {'input': {'engine': 'TwoSiteDMRGEngine on XXZChain(L=4)', 'run() call': call, 'sweeps before the call': 0 if call == 1 else 2,
                              'max_sweeps': max_sweeps},
                    'observed': 'event sequence of this call: ' + ' '.join(log)}
    return None


Contract(
    target=f'{MC}::IterativeSweeps.run', props=['C18', 'C13'], name='IterativeSweeps.run',
    params={'self': Obj('IterativeSweeps', MC, {'sweeps': Int(), 'shelve': Bool(), 'trunc_err_list': _Opaque(), 'options': _Opaque()})},
    setup=_run_setup, hunt=_hunt_run,
    hooks={f'{MC}::IterativeSweeps.stopping_criterion': _stop, f'{MC}::IterativeSweeps.run_iteration': _iteration,
           f'{MC}::IterativeSweeps.pre_run_initialize': lambda I, f, a, k: I.ghost['__env__']['pre'],
           f'{MC}::IterativeSweeps.status_update': lambda I, f, a, k: None,
           f'{MC}::IterativeSweeps.post_run_cleanup': _cleanup,
           'import:tenpy.tools.params.consistency_check': lambda I, *a, **k: None, 'global:consistency_check': lambda I, *a, **k: None,
           'module:numpy.max': lambda I, x: _Opq(z3.Const('max_trunc_err', _U))},
    ensures=['emits == ite(iters >= 1, iters - 1, 0)', 'cleanups == 1', 'result == last'],
    loops={0: {'inv': ['emits == ite(iters >= 1, iters - 1, 0) and cleanups == 0 and iters >= 0', 'is_first_sweep == (iters == 0)', 'result == last'],
               'ghost_mut': ['iters', 'emits', 'cleanups', 'last']}},
)


# ---------------------------------------------------------------------------------------------------------------
# C13: DMRGEngine.post_run_cleanup - what makes "the returned state is in canonical form" true for every mixer schedule:
# the effects of a mixer are always removed (mixer_cleanup: 2-D "singular values" back to Schmidt values - also when the mixer was
# switched off during the last sweep), then the mixer is switched off (F-43: _canonicalize does nothing while one is set), then the
# final canonicalisation runs, exactly once each and in this order.
DM = 'tenpy/algorithms/dmrg.py'


def _prc_setup(I, env):
    I.ghost['__env__'] = {'cleanups': z3.IntVal(0), 'canon': z3.IntVal(0)}
    s = env['self']
    if s.attrs['mixer'] is not None:
        s.attrs['mixer'] = SObj('GhostMixer', None, {'amplitude': z3.Real('amplitude')})


def _mixer_cleanup(I, f, args, kwargs):
    g = I.ghost['__env__']
    I.oblige('mixer_cleanup-before-canonicalisation', g['canon'] == 0, {'clause': 'mixer_cleanup() runs before the final canonicalisation'})
    g['cleanups'] = g['cleanups'] + 1
    return None


def _canonicalize(I, f, args, kwargs):
    g = I.ghost['__env__']
    ok = f.self_obj.attrs['mixer'] is None
    I.oblige('canonicalise-with-mixer-off-after-cleanup', z3.And(z3.BoolVal(ok), g['cleanups'] == 1),
             {'clause': '_canonicalize() is called after mixer_cleanup(), with self.mixer None (it returns at once otherwise)'})
    g['canon'] = g['canon'] + 1
    return None



def _prc_hunt():
    """witness on real runs: every relation of disable_after to the number of sweeps; Schmidt values 1-D, state canonical"""
    import warnings
    import numpy as np
    warnings.simplefilter('ignore')
    from tenpy.models.xxz_chain import XXZChain
    from tenpy.networks.mps import MPS
    from tenpy.algorithms import dmrg
    M = XXZChain({'L': 6, 'Jxx': 1., 'Jz': 1.3, 'hz': 0.05, 'bc_MPS': 'finite'})
    for disable_after in (1, 2, 3):
        for n in (1, 2, 3, 4):
            psi = MPS.from_product_state(M.lat.mps_sites(), ['up', 'down'] * 3, 'finite')
            opts = {'trunc_params': {'chi_max': 3, 'svd_min': 1e-12}, 'mixer': True, 'max_sweeps': n, 'min_sweeps': n, 'N_sweeps_check': 1,
                    'max_trunc_err': None, 'mixer_params': {'amplitude': 1e-3, 'decay': 2., 'disable_after': disable_after}}
            try:
                E, out = dmrg.TwoSiteDMRGEngine(psi, M, opts).run()
                bad = [i for i in range(1, out.L) if np.ndim(out.get_SL(i)) != 1]
                nt = None if bad else float(np.max(np.abs(out.norm_test())))
                ok = not bad and nt < 1e-8
                obs = f'bonds with 2-D "Schmidt values": {bad}; norm_test {nt}'
            except Exception as e:
                ok, obs = False, f'{type(e).__name__}: {e}'
            if not ok:
                return {'input': {'engine': 'TwoSiteDMRGEngine, XXZChain(L=6), chi_max=3', 'disable_after': disable_after, 'sweeps': n}, 'observed': obs}
    return None


Contract(
    target=f'{DM}::DMRGEngine.post_run_cleanup', props=['C13'], name='DMRGEngine.post_run_cleanup',
    params={'self': Obj('DMRGEngine', DM, {'mixer': OneOf(None, 'some mixer'), 'sweeps': Int(), 'ortho_to_envs': Const([]), 'psi': _Opaque()})},
    setup=_prc_setup, hunt=_prc_hunt,
    hooks={f'{MC}::Sweep.mixer_cleanup': _mixer_cleanup, f'{DM}::DMRGEngine._canonicalize': _canonicalize},
    ensures=['cleanups == 1 and canon == 1', 'is_none(self.mixer)'],
)
