"""C10 / C12: fermionic sign algebra of order_combine_term (bubble sort of the factors of a term by site).

Operator algebra (assumed, listed in the evidence): an uninterpreted value `opval(seq)` of a product of factors
(op, site, needs_JW) in a Z2-graded algebra; the only algebraic law used is the defining one - exchanging two
neighbouring factors on *different* sites multiplies the value by (-1)^(jw_a * jw_b) - supplied as an explicit
lemma instance at the swap (DESIGN 2.5).  Verified from the real source: the nested loops sort the factors by site
(stable bubble sort, any length N) and `overall_sign * opval(sorted) == opval(original)`.
The subsequent grouping of equal sites (itertools.groupby + multiply_op_names) is not covered here.
"""
import z3

from pyvc.contract import Contract, Int, List, Obj, Const
from pyvc.interp import Builtin
from pyvc.values import SObj, Opq, U

TERMS = 'tenpy/networks/terms.py'
_NEEDS = z3.Function('needs_JW', U, z3.IntSort(), z3.BoolSort())


def _setup(I, env):
    Ls = z3.Int('len(sites)')
    I.assume(Ls >= 1)

    def site_at(I_, idx):
        return SObj('GhostSite', None, {'op_needs_JW': Builtin(lambda I2, op, _i=idx: _NEEDS(op.t, _i), 'op_needs_JW'),
                                        'multiply_op_names': Builtin(lambda I2, ops: Opq(base='prod'), 'multiply_op_names')})
    env['sites'] = SObj('GhostSiteList', None, {'__getitem__': Builtin(site_at, 'sites[i]'), '__len__': Builtin(lambda I_: Ls, 'len(sites)')})
    I.ghost['__env__'] = {}


def _groupby(I, seq, key=None):
    """phase boundary: record the sorted factor list; the grouping phase is outside this contract"""
    I.ghost['__env__']['sorted_factors'] = seq.copy()
    return []


def _replay(m, ghost):
    return None


def _hunt():
    """witness hunt on the real function: fermionic terms on a chain, dense comparison"""
    import itertools
    import numpy as np
    import warnings
    warnings.simplefilter('ignore')
    from tenpy.networks.site import FermionSite
    from tenpy.networks.terms import order_combine_term
    import sys
    sys.path.insert(0, '/verif')
    from bounded import mpsgen
    L = 4
    sites = [FermionSite('N') for _ in range(L)]
    for n in (2, 3, 4):
        for idx in itertools.product(range(L), repeat=n):
            for names in itertools.product(['C', 'Cd', 'N'], repeat=n):
                term = list(zip(names, idx))
                try:
                    new_term, sign = order_combine_term(term, sites)
                except Exception:
                    continue
                a = mpsgen.op_dense(sites, term)
                b = sign * mpsgen.op_dense(sites, new_term)
                if not np.allclose(a, b):
                    return {'input': {'term': term, 'sites': 'FermionSite chain L=4'},
                            'observed': f'order_combine_term returned {new_term} with sign {sign}: dense operators differ'}
    return None


Contract(
    target=f'{TERMS}::order_combine_term', props=['C10', 'C12'],
    params={'term': List(('tuple', ['U', 'int'], None)), 'sites': Const(None)},
    setup=_setup, hooks={'module:itertools.groupby': _groupby}, hunt=_hunt,
    ensures=[
        # factors sorted by site ...
        'forall2(0, len(sorted_factors), lambda p, q: implies(p < q, sorted_factors[p][1] <= sorted_factors[q][1]))',
        'len(sorted_factors) == len(term)',
        # ... and the reordering is accounted for by the returned sign
        'result[1] == 1 or result[1] == -1',
        'opval(original_factors) == opsigned(result[1], opval(sorted_factors))',
    ],
    loops={
        0: {'inv': ['len(terms_commute) == N and N == len(term) and (overall_sign == 1 or overall_sign == -1)',
                    'opval(original_factors) == opsigned(overall_sign, opval(terms_commute))',
                    # the suffix above s_max is sorted and dominates the rest   (s_max = N-1-_i is the next value)
                    'forall2(N - 1 - _i + 1, N, lambda p, q: implies(p < q, terms_commute[p][1] <= terms_commute[q][1]))',
                    'forall(0, N - _i, lambda p: forall(N - _i, N, lambda q: terms_commute[p][1] <= terms_commute[q][1]))'],
            'ghost_pre': {'original_factors': 'terms_commute'}},
        1: {'inv': ['len(terms_commute) == N and N == len(term) and (overall_sign == 1 or overall_sign == -1)',
                    'opval(original_factors) == opsigned(overall_sign, opval(terms_commute))',
                    '1 <= s_max < N',
                    'forall2(s_max + 1, N, lambda p, q: implies(p < q, terms_commute[p][1] <= terms_commute[q][1]))',
                    'forall(0, s_max + 1, lambda p: forall(s_max + 1, N, lambda q: terms_commute[p][1] <= terms_commute[q][1]))',
                    # the maximum of the first _i+1 entries has been bubbled to position _i
                    'forall(0, _i, lambda p: terms_commute[p][1] <= terms_commute[_i][1])'],
            'head_snapshot': {'tc_head': 'terms_commute'},
            'lemmas_pres': ['swap_val(tc_head, terms_commute, s)']},
    },
)
