"""Witness hunt on the *compiled* kernels (run in a child process whose tenpy is an overlay with the extension rebuilt from
the current .pyx): compares the compiled function with the specification of its contract on small inputs.
usage: python pyx_hunt_child.py <kernel>  -> prints a JSON witness or null"""
import itertools
import json
import sys
import warnings

import numpy as np

warnings.simplefilter('ignore')
from tenpy.linalg import _npc_helper as H          # noqa: E402
import tenpy.linalg.np_conserved as npc           # noqa: E402
from tenpy.linalg import charges                  # noqa: E402


def hunt(kind):
    if kind == '_make_stride':
        for rank in range(1, 5):
            for shape in itertools.product((1, 2, 3, 5), repeat=rank):
                for cstyle in (True, False):
                    r = H._make_stride(list(shape), cstyle)
                    x = np.zeros(shape, order='C' if cstyle else 'F')
                    exp = np.array(x.strides) // x.itemsize
                    if list(r) != list(exp):
                        return {'input': {'shape': list(shape), 'cstyle': cstyle}, 'observed': f'{list(r)} != {list(exp)}'}
    if kind == '_map_blocks':
        for n in range(0, 5):
            for bs in itertools.product((0, 1, 2, 9), repeat=n):
                r = H._map_blocks(np.array(bs, dtype=np.intp))
                exp = np.concatenate([np.ones(s, np.intp) * i for i, s in enumerate(bs)]) if n else np.zeros(0, np.intp)
                if list(r) != list(exp):
                    return {'input': {'blocksizes': list(bs)}, 'observed': f'{list(r)} != {list(exp)}'}
    if kind == '_make_valid_charges_1D':
        for mod in itertools.product((1, 2, 3, 5), repeat=2):
            ch = charges.ChargeInfo(list(mod))
            for q in itertools.product(range(-11, 12), repeat=2):
                r = ch.make_valid(np.array(q))
                exp = [x if m == 1 else x % m for x, m in zip(q, mod)]
                if list(r) != exp:
                    return {'input': {'mod': list(mod), 'charges': list(q)}, 'observed': f'make_valid -> {list(r)}, numpy/Python % gives {exp}'}
    if kind == '_iter_common_sorted_push':
        # reached through tensordot: the contraction of tensors with sorted block lists must equal numpy's
        rng = np.random.default_rng(3)
        ch = charges.ChargeInfo([1])
        for trial in range(300):
            nb = int(rng.integers(1, 5))
            qs = np.sort(rng.choice(np.arange(-4, 5), size=nb, replace=False))
            leg = charges.LegCharge.from_qind(ch, np.arange(nb + 1) * 2, qs.reshape(-1, 1))
            a = npc.Array.from_func(rng.standard_normal, [leg, leg.conj()], qtotal=[int(rng.integers(-1, 2))])
            b = npc.Array.from_func(rng.standard_normal, [leg, leg.conj()], qtotal=[int(rng.integers(-1, 2))])
            r = npc.tensordot(a, b, axes=1).to_ndarray()
            exp = a.to_ndarray() @ b.to_ndarray()
            if not np.allclose(r, exp, atol=1e-12):
                return {'input': {'charges': qs.tolist(), 'qtotal_a': a.qtotal.tolist(), 'qtotal_b': b.qtotal.tolist(), 'seed': 3, 'trial': trial},
                        'observed': f'tensordot deviates from numpy by {np.abs(r - exp).max():.3g}'}
    return None


if __name__ == '__main__':
    if not getattr(npc, 'optimization', None) or 'compiled' not in str(getattr(H, '__file__', '')) and not str(H.__file__).endswith('.so'):
        pass
    print(json.dumps(hunt(sys.argv[1])))
