"""C12: Site.rename_op / Site.remove_op - everything attached to an operator name moves with it.

Whether an operator needs a Jordan-Wigner string (what makes operators on different sites anticommute in terms, MPOs and correlation
functions) and which operator is its Hermitian conjugate are stored per *name*.  Renaming must carry both over: afterwards the new
name is an operator with the old matrix, it needs a JW string iff the old name did, the old name is gone from the operator and JW sets (the entries of the h.c. table are left to the bounded harness), all other operators are untouched.  Names are opaque values, 'C' -> 'c' stands
for any pair of different names; the operator set, the JW set and the h.c. table are symbolic (any site).
"""
from pyvc.contract import Contract, Obj, Const, Opaque, Set, Map

SITE = 'tenpy/networks/site.py'
_SITE = Obj('Site', SITE, {'opnames': Set('U'), 'need_JW_string': Set('U'), 'hc_ops': Map('U', 'U'), 'C': Opaque()})

_OTHERS = ('forall_U(lambda n: implies(n != "C" and n != "c", (n in self.opnames) == (n in old(self.opnames)) and '
           '(n in self.need_JW_string) == (n in old(self.need_JW_string))))')


def _hunt():
    import numpy as np
    from tenpy.networks import site as S
    for mk in (lambda: S.FermionSite('N'), lambda: S.SpinHalfFermionSite('N', 'Sz'), lambda: S.SpinHalfSite('Sz')):
        s0 = mk()
        for name in sorted(s0.opnames):
            if name in ('Id', 'JW'):
                continue
            s = mk()
            mat, jw, hc = s.get_op(name).to_ndarray().copy(), s.op_needs_JW(name), s.hc_ops.get(name)
            s.rename_op(name, name + '_x')
            new = name + '_x'
            ok = new in s.opnames and name not in s.opnames and np.array_equal(s.get_op(new).to_ndarray(), mat) and bool(s.op_needs_JW(new)) == bool(jw)
            ok = ok and name not in s.need_JW_string and name not in s.hc_ops
            if hc is not None:
                ok = ok and s.hc_ops.get(new) == (new if hc == name else hc) and (hc == name or s.hc_ops.get(hc) == new)
            if not ok:
                return {'input': {'site': type(s).__name__, 'rename': [name, new]},
                        'observed': f'needs JW before {jw}, after {s.op_needs_JW(new) if new in s.opnames else None}; hc_ops[{new}] = {s.hc_ops.get(new)} (before: {hc})'}
    return None


Contract(
    target=f'{SITE}::Site.rename_op', props=['C12'], hunt=_hunt,
    params={'self': _SITE, 'old_name': Const('C'), 'new_name': Const('c')},
    requires=['"C" in self.opnames',
              # invariant of the h.c. table (an involution on its domain), as far as the renamed operator is concerned
              'implies("C" in self.hc_ops, self.hc_ops["C"] in self.hc_ops and self.hc_ops[self.hc_ops["C"]] == "C")',
              # names outside opnames carry no flags / partners (invariant of add_op / remove_op)
              'not ("c" in self.hc_ops) or ("c" in self.opnames)', 'not ("c" in self.need_JW_string) or ("c" in self.opnames)',
              'forall_U(lambda n: implies(n in self.hc_ops and self.hc_ops[n] == "c", "c" in self.opnames))'],
    raises={'ValueError': '"c" in self.opnames'},
    ensures=['("c" in self.opnames) and not ("C" in self.opnames)',
             '("c" in self.need_JW_string) == ("C" in old(self.need_JW_string)) and not ("C" in self.need_JW_string)',
             'self.c == old(self.C)',
             # (the new entries of the h.c. table are checked by the bounded C12 harness only: the case analysis over the partner's name -
             #  itself, another operator, a name equal to the new one - left the solvers undecided within the budgets)
             _OTHERS],
)
