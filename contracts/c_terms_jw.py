"""C10 / C12: Jordan-Wigner bookkeeping of MultiCouplingTerms.multi_coupling_term_handle_JW (any number of factors).

For a term  op_0(i_0) op_1(i_1) ... op_{n-1}(i_{n-1})  with strictly ascending sites, every factor that needs a
Jordan-Wigner string stands for (prod_{k < i_x} JW_k) op_x.  On a site strictly between i_x and i_{x+1} the strings of the
factors x+1, ..., n-1 meet: the operator there is JW iff an odd number of those factors is fermionic - which, the total
being even, is the parity of the factors 0..x.  On site i_x itself the strings of the factors to the right multiply
op_x from the right.  Clause text below: with par(x) := (number of JW-needing factors among 0..x) odd,
    new_op_str[x] == 'JW'  iff  par(x),      ops[x] == op_x * JW  iff  par(x),
    ValueError  iff  the total number is odd,   sites shifted by one common multiple of... (first site into the unit cell).
needs_JW and the operator-name product are uninterpreted (contracts of Site.op_needs_JW / multiply_op_names assumed).

Scope: any number of factors n >= 2 on any sites, any operators, any unit cell length L >= 1.  With a symbolic L the site
index `i % L` is nonlinear; the contract therefore runs with `%` as an uninterpreted function (its defining property is
added for every term the code computes) plus two lemmas proved in the same run by cvc5: 0 <= a < L ==> a % L == a, and
b - c == (i0 % L) - i0 ==> b % L == c % L (the common shift of the sites is a multiple of L).
"""
import z3

from pyvc.contract import Contract, Int, List, Obj, Const, Opaque
from pyvc.interp import Builtin
from pyvc.values import SObj, SArr, Opq, U, to_z3

TERMS = 'tenpy/networks/terms.py'
_NEEDS = z3.Function('needs_JW_at', z3.IntSort(), U, z3.BoolSort())     # (site index in the unit cell, operator name)
_MULJW = z3.Function('opname_times_JW', z3.IntSort(), U, U)            # site.multiply_op_names([op, 'JW'])
_JWMUL = z3.Function('JW_times_opname', z3.IntSort(), U, U)            # site.multiply_op_names(['JW', op])


def _setup(I, env):
    L = env['self'].attrs['L']
    if not isinstance(L, int):
        I.ghost['uninterpreted_mod'] = True      # symbolic unit cell: i % L as uninterpreted function + proved lemmas

    def site_at(I_, idx):
        def needs(I2, op):
            return _NEEDS(to_z3(idx), to_z3(op, U))

        def mul(I2, names):
            names = list(names)
            if len(names) == 2 and names[1] == 'JW':
                return Opq(_MULJW(to_z3(idx), to_z3(names[0], U)))
            if len(names) == 2 and names[0] == 'JW':
                return Opq(_JWMUL(to_z3(idx), to_z3(names[1], U)))      # JW * op: a different operator (they anticommute)
            from pyvc.interp import Unsupported
            raise Unsupported('multiply_op_names called with something else than [op, "JW"] / ["JW", op]')
        return SObj('GhostSite', None, {'op_needs_JW': Builtin(needs, 'op_needs_JW'), 'multiply_op_names': Builtin(mul, 'multiply_op_names')})
    env['sites'] = SObj('GhostSiteList', None, {'__getitem__': Builtin(site_at, 'sites[i]')})
    term = env['term']
    k = z3.Int('k!needs')
    # needs[x] = 1 if factor x needs a JW string (its site taken modulo the unit cell, as the function does) else 0
    site_k = (I.MODU(z3.Select(term.leaves[1], k), to_z3(L)) if I.ghost.get('uninterpreted_mod')
              else I.pymod(z3.Select(term.leaves[1], k), to_z3(L)))
    needs = SArr(term.n, [z3.Lambda([k], z3.If(_NEEDS(site_k, z3.Select(term.leaves[0], k)), 1, 0))], 'int', True)
    I.ghost['__env__'] = {'needs': needs,
                          'times_JW': Builtin(lambda I2, i, op: Opq(_MULJW(to_z3(i), to_z3(op, U))), 'times_JW')}


def _hunt():
    """witness hunt on the real function: dense comparison of fermionic multi-coupling terms on a chain"""
    import itertools
    import warnings
    import numpy as np
    warnings.simplefilter('ignore')
    import sys
    sys.path.insert(0, '/verif')
    from bounded import mpsgen
    from tenpy.networks.site import FermionSite
    from tenpy.networks.terms import MultiCouplingTerms
    L = 5
    sites = [FermionSite('N') for _ in range(L)]
    for n in (2, 3, 4):
        for idx in itertools.combinations(range(L), n):
            for names in itertools.product(['C', 'Cd', 'N'], repeat=n):
                if sum(nm != 'N' for nm in names) % 2:
                    continue
                term = list(zip(names, idx))
                mc = MultiCouplingTerms(L)
                _, ijkl, ops, opstr = mc.multi_coupling_term_handle_JW(1., term, sites)
                full = []
                for x, (o, i) in enumerate(zip(ops, ijkl)):
                    full.append((o, i))
                    if x + 1 < len(ijkl):
                        full.extend((opstr[x], k) for k in range(i + 1, ijkl[x + 1]))
                mats = [np.eye(2)] * L
                for o, i in full:
                    mats[i] = sites[i].get_op(o).to_ndarray()      # operator names are used literally (no further JW)
                dense = mats[0]
                for m in mats[1:]:
                    dense = np.kron(dense, m)
                ref = mpsgen.op_dense(sites, term)
                if not np.allclose(dense, ref):
                    return {'input': {'term': term, 'sites': 'FermionSite chain L=5'},
                            'observed': f'ops {ops} at {ijkl} with strings {opstr} differ from the fermionic product'}
    return None


_PAR = 'ssum(needs, 0, {} + 1) % 2 == 1'

for _tag, _Lspec in (('any L', Int()),):
  Contract(
      target=f'{TERMS}::MultiCouplingTerms.multi_coupling_term_handle_JW', props=['C10', 'C12'], name=f'multi_coupling_term_handle_JW[op_string=None, {_tag}]',
      params={'self': Obj('MultiCouplingTerms', TERMS, {'L': _Lspec}), 'strength': Opaque(),
              'term': List(('tuple', ['U', 'int'], None)), 'sites': Const(None), 'op_string': Const(None)},
      setup=_setup, hunt=_hunt,
      requires=['self.L >= 1',
                # documented: "We require the operators to be sorted (strictly ascending) by sites" (transitive form)
                'forall2(0, len(term), lambda p, q: implies(p < q, term[p][1] < term[q][1]))'],
      raises={'ValueError': 'len(term) < 2 or (exists(0, len(term), lambda k: needs[k] == 1) and ssum(needs, 0, len(term)) % 2 == 1)'},
      ensures=[
          'len(result[1]) == len(term) and len(result[2]) == len(term) and len(result[3]) == len(term) - 1',
          # the sites move by one common shift that brings the first one into the unit cell
          '0 <= result[1][0] < self.L',
          'forall(0, len(term), lambda x: result[1][x] - result[1][0] == term[x][1] - term[0][1])',
          # no fermionic factor at all: identities in between, operators untouched
          'implies(not exists(0, len(term), lambda k: needs[k] == 1), forall(0, len(term) - 1, lambda x: result[3][x] == "Id"))',
          'implies(not exists(0, len(term), lambda k: needs[k] == 1), forall(0, len(term), lambda x: result[2][x] == term[x][0]))',
          # otherwise: a string right of factor x, and a JW multiplied onto factor x, iff the parity of the factors 0..x is odd
          'implies(exists(0, len(term), lambda k: needs[k] == 1), forall(0, len(term) - 1, lambda x: '
          'result[3][x] == ite(' + _PAR.format('x') + ', "JW", "Id")))',
          'implies(exists(0, len(term), lambda k: needs[k] == 1), forall(0, len(term), lambda x: '
          'result[2][x] == ite(' + _PAR.format('x') + ', times_JW(term[x][1] % self.L, term[x][0]), term[x][0])))',
      ],
      loops={0: {
          'as_arr': {'new_op_str': 'U'},
          'inv': ['number_ops == len(term) and len(ops) == number_ops and len(ijkl) == number_ops and len(new_op_str) == _i and L == self.L',
                  'len(op_needs_JW) == number_ops and forall(0, number_ops, lambda k: op_needs_JW[k] == (needs[k] == 1))',
                  '0 <= ijkl[0] < L and ijkl[0] == term[0][1] % L',
                  'forall(0, number_ops, lambda x: ijkl[x] - ijkl[0] == term[x][1] - term[0][1])',
                  'JW_right == (ssum(needs, 0, _i) % 2 == 1)',
                  'forall(0, _i, lambda x: new_op_str[x] == ite(' + _PAR.format('x') + ', "JW", "Id"))',
                  'forall(0, _i, lambda x: ops[x] == ite(' + _PAR.format('x') + ', times_JW(term[x][1] % L, term[x][0]), term[x][0]))',
                  'forall(_i, number_ops, lambda x: ops[x] == term[x][0])'],
          'lemmas': ['sum_unfold(needs, 0, 0)'] + ([] if _tag == 'L=3' else ['mod_small(term[0][1], L)', 'mod_shift(term[0][1], L)']),
          'lemmas_pres': ['sum_unfold(needs, 0, _i)'] + ([] if _tag == 'L=3' else ['mod_shift(term[0][1], L)']),
      }},
  )


# ---------------------------------------------------------------------------------------------------------------
# The two-site version, CouplingTerms.coupling_term_handle_JW (what add_coupling / add_local_term use for two factors):
# with op_string=None a Jordan-Wigner string runs between the two sites iff both factors need one, and then JW is multiplied onto
# the left factor from the right; exactly one fermionic factor is an error; a given op_string is used as it is.  Sites and
# strength are passed through untouched.
from pyvc.contract import FixedList as _FixedList, OneOf as _OneOf, Real as _Real


def _setup2(I, env):
    L = env['self'].attrs['L']
    I.ghost['uninterpreted_mod'] = True

    def site_at(I_, idx):
        def needs(I2, op):
            return _NEEDS(to_z3(idx), to_z3(op, U))

        def mul(I2, names):
            names = list(names)
            if len(names) == 2 and names[1] == 'JW':
                return Opq(_MULJW(to_z3(idx), to_z3(names[0], U)))
            from pyvc.interp import Unsupported
            raise Unsupported('multiply_op_names called with something else than [op, "JW"]')
        return SObj('GhostSite', None, {'op_needs_JW': Builtin(needs, 'op_needs_JW'), 'multiply_op_names': Builtin(mul, 'multiply_op_names')})
    env['sites'] = SObj('GhostSiteList', None, {'__getitem__': Builtin(site_at, 'sites[i]')})
    (op_i, i), (op_j, j) = env['term']
    I.ghost['__env__'] = {'need_i': _NEEDS(I.MODU(to_z3(i), to_z3(L)), to_z3(op_i, U)), 'need_j': _NEEDS(I.MODU(to_z3(j), to_z3(L)), to_z3(op_j, U)),
                          'op_i': op_i, 'op_j': op_j, 'i': i, 'j': j,
                          'times_JW': Builtin(lambda I2, k, op: Opq(_MULJW(I2.MODU(to_z3(k), to_z3(L)), to_z3(op, U))), 'times_JW')}


def _hunt2():
    import warnings
    import numpy as np
    warnings.simplefilter('ignore')
    import sys
    sys.path.insert(0, '/verif')
    from bounded import mpsgen
    from tenpy.networks.site import FermionSite
    from tenpy.networks.terms import CouplingTerms
    L = 4
    sites = [FermionSite('N') for _ in range(L)]
    for i in range(L):
        for j in range(i + 1, L):
            for a, b in (('C', 'Cd'), ('Cd', 'C'), ('N', 'N'), ('C', 'C')):
                ct = CouplingTerms(L)
                _, i2, j2, oi, oj, ostr = ct.coupling_term_handle_JW(1., [(a, i), (b, j)], sites)
                mats = [np.eye(2)] * L
                mats[i2] = sites[i2].get_op(oi).to_ndarray()
                mats[j2] = sites[j2].get_op(oj).to_ndarray()
                for k in range(i2 + 1, j2):
                    mats[k] = sites[k].get_op(ostr).to_ndarray()
                dense = mats[0]
                for m in mats[1:]:
                    dense = np.kron(dense, m)
                if (i2, j2) != (i, j) or not np.allclose(dense, mpsgen.op_dense(sites, [(a, i), (b, j)])):
                    return {'input': {'term': [(a, i), (b, j)], 'sites': 'FermionSite chain L=4'},
                            'observed': f'ops {oi}, {oj} at {i2}, {j2} with string {ostr} differ from the fermionic product'}
    return None


Contract(
    target=f'{TERMS}::CouplingTerms.coupling_term_handle_JW', props=['C10', 'C12'], name='CouplingTerms.coupling_term_handle_JW',
    params={'self': Obj('CouplingTerms', TERMS, {'L': Int()}), 'strength': Opaque(),
            'term': _FixedList([_FixedList([Opaque(), Int()], as_tuple=True), _FixedList([Opaque(), Int()], as_tuple=True)]),
            'sites': Const(None), 'op_string': _OneOf(None, 'JW', 'Id', 'Sz')},
    setup=_setup2, hunt=_hunt2,
    requires=['self.L >= 1'],
    raises={'ValueError': 'is_none(op_string) and (need_i != need_j)'},
    ensures=['result[0] == strength and result[1] == i and result[2] == j and result[4] == op_j',
             'implies(is_none(op_string), result[5] == ite(need_i and need_j, "JW", "Id"))',
             'implies(not is_none(op_string), result[5] == op_string)',
             'result[3] == ite(result[5] == "JW", times_JW(i, op_i), op_i)'],
)
