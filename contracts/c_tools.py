"""Small shared helpers every property leans on (index permutations)."""
from pyvc.contract import Contract, Int, List, NpArr

MISC = 'tenpy/tools/misc.py'

_IS_PERM = ['forall(0, len(perm), lambda j: 0 <= perm[j] < len(perm))',
            'forall2(0, len(perm), lambda p, q: implies(p != q, perm[p] != perm[q]))',
            # onto (follows from the two lines above by counting; stated, since the solver does no pigeonhole argument)
            'forall(0, len(perm), lambda k: exists(0, len(perm), lambda j: perm[j] == k))']


def _hunt():
    import itertools
    import numpy as np
    from tenpy.tools.misc import inverse_permutation
    for n in range(0, 6):
        for p in itertools.permutations(range(n)):
            inv = inverse_permutation(list(p))
            if any(inv[p[j]] != j for j in range(n)) or any(p[inv[j]] != j for j in range(n)) or len(inv) != n:
                return {'input': {'perm': list(p)}, 'observed': f'inverse_permutation -> {list(inv)}'}
    return None


# "inv_perm[perm[j]] = j = perm[inv_perm[j]]" for every permutation of any length; the argument is left alone.
# Used by combine/split (C01, C06), sort_legcharge, permute, from_product_mps_covering (C07), MPO sorting (C10), lattice orders (C19).
Contract(
    target=f'{MISC}::inverse_permutation', props=['C01', 'C06', 'C07', 'C19'], hunt=_hunt,
    params={'perm': NpArr('int')},
    requires=_IS_PERM,
    ensures=['len(result) == len(perm)',
             'forall(0, len(perm), lambda j: result[perm[j]] == j)',
             'forall(0, len(perm), lambda j: perm[result[j]] == j)',
             'forall(0, len(perm), lambda j: 0 <= result[j] < len(perm))',
             'forall(0, len(perm), lambda j: perm[j] == old(perm)[j])'],
)
