"""Small shared helpers every property leans on (index permutations)."""
from pyvc.contract import Contract, Int, List, NpArr

MISC = 'tenpy/tools/misc.py'

# "perm is a permutation of 0..n-1", stated with a witness of bijectivity instead of an existential (the solver does no
# pigeonhole argument and existentials make it unstable): `inv0` is a ghost parameter, any array that is a two-sided
# inverse of perm.  Every permutation has exactly one, so nothing is lost.
_IS_PERM = ['len(inv0) == len(perm)',
            'forall(0, len(perm), lambda j: 0 <= perm[j] < len(perm) and 0 <= inv0[j] < len(perm))',
            'forall(0, len(perm), lambda j: inv0[perm[j]] == j)',
            'forall(0, len(perm), lambda j: perm[inv0[j]] == j)']


def _hunt():
    import itertools
    import numpy as np
    from tenpy.tools.misc import inverse_permutation
    for n in range(0, 6):
        for p in itertools.permutations(range(n)):
            inv = inverse_permutation(list(p))
            if any(inv[p[j]] != j for j in range(n)) or any(p[inv[j]] != j for j in range(n)) or len(inv) != n:
                return {'input': {'perm': list(p)}, 'observed': f'inverse_permutation -> {list(inv)}'}
    return None


# "inv_perm[perm[j]] = j = perm[inv_perm[j]]" for every permutation of any length; the argument is left alone.
# Used by combine/split (C01, C06), sort_legcharge, permute, from_product_mps_covering (C07), MPO sorting (C10), lattice orders (C19).
Contract(
    target=f'{MISC}::inverse_permutation', props=['C01', 'C06', 'C07', 'C19'], hunt=_hunt,
    params={'perm': NpArr('int'), 'inv0': NpArr('int')},
    requires=_IS_PERM,
    ensures=['len(result) == len(perm)',
             # the result is *the* inverse: with the precondition on inv0 this is "inv_perm[perm[j]] = j = perm[inv_perm[j]]"
             # and 0 <= inv_perm[j] < n
             'forall(0, len(perm), lambda j: result[j] == inv0[j])',
             'forall(0, len(perm), lambda j: perm[j] == old(perm)[j])'],
)
