"""C09: MPS.compress_svd reports the error of every truncation it performs - exactly once each, finite and infinite.

"Compression changes the state by no more than the reported truncation error": the numerical half (a truncation changes the
state by its error) is the bounded C15/C09 check; the bookkeeping half is this contract.  The real control flow of compress_svd
is executed with the tensor operations abstract: `svd_theta(theta, trunc_par)` and `set_svd_theta(i, theta, trunc_par, ...)` are
leaves that perform a truncation with some error eps and return it (ghost: `performed += eps` when called with the caller's
`trunc_par`; the canonicalising sweep of the infinite branch runs with the module constant `_machine_prec_trunc_par` and is not
part of the reported error - ghost `unreported`).  Clauses: the returned error is `performed`; every bond 1..L-1 (finite) /
0..L-1 (infinite) is truncated with the caller's parameters exactly once (ghost counter array); the recorded norm is multiplied by
exactly the renormalisation factors of those truncations (finite).
"""
import z3

from pyvc.contract import Contract, Int, Real, Opaque, Obj, Const, List
from pyvc.interp import Builtin
from pyvc.values import SArr, Opq, U, to_z3, fresh_real, fresh_name
from pyvc import source
from pyvc.interp import ClassVal

MPS = 'tenpy/networks/mps.py'
TR = 'tenpy/linalg/truncation.py'
NPC = 'tenpy/linalg/np_conserved.py'
_MACHINE = Opq(z3.Const('machine_prec_trunc_par', U))


def _new_te(I, eps):
    mod = source.get_module(TR)
    return I.instantiate(ClassVal(mod, mod.classes['TruncationError']), [eps, fresh_real('ov')], {})


def _opq(*a, **k):
    return Opq(z3.Const(fresh_name('tensor'), U))


def _setup(I, env):
    k = z3.Int('k!cnt')
    L = env['self'].attrs['L']
    I.ghost['__env__'] = {'performed': z3.RealVal(0), 'unreported': z3.RealVal(0), 'normfac': z3.RealVal(1),
                          'count': SArr(L, [z3.Lambda([k], z3.IntVal(0))], 'int', False),
                          'user_trunc_par': env['trunc_par']}
    I.ghost['bond'] = None


def _is_user(I, tp):
    return isinstance(tp, Opq) and tp is I.ghost['__env__']['user_trunc_par']


def _svd_theta(I, f, args, kwargs):
    # svd_theta(theta, trunc_par) -> U, S, VH, err, renormalization ; called inside the finite truncating loop for bond `i`
    g = I.ghost['__env__']
    eps, nrm = fresh_real('eps'), fresh_real('renorm')
    I.assume(eps >= 0)
    if _is_user(I, args[1]):
        g['performed'] = g['performed'] + eps
        g['normfac'] = g['normfac'] * nrm
        i = to_z3(I.lookup('i'))            # the bond that the enclosing loop of compress_svd is working on
        c = g['count']
        c.leaves = [z3.Store(c.leaves[0], i, z3.Select(c.leaves[0], i) + 1)]
    else:
        g['unreported'] = g['unreported'] + eps
    return (_opq(), _opq(), _opq(), _new_te(I, eps), nrm)


def _set_svd_theta(I, f, args, kwargs):
    g = I.ghost['__env__']
    eps = fresh_real('eps')
    I.assume(eps >= 0)
    i = to_z3(args[0])
    L = to_z3(f.self_obj.attrs['L'])
    I.oblige('set_svd_theta-bond-in-range', z3.And(0 <= i, i < L), {'clause': 'set_svd_theta(i, ...) is called with 0 <= i < L'})
    if _is_user(I, args[2]):
        g['performed'] = g['performed'] + eps
        c = g['count']
        c.leaves = [z3.Store(c.leaves[0], i, z3.Select(c.leaves[0], i) + 1)]
    else:
        g['unreported'] = g['unreported'] + eps
    return _new_te(I, eps)


def _qr(I, f, args, kwargs):
    return (_opq(), _opq())



def _hunt():
    """witness hunt on the real method: record every truncation performed with the caller's parameters (wrapping the two leaves)
    and compare their sum / the bonds / the norm factors with what compress_svd returns and does"""
    import warnings
    import numpy as np
    warnings.simplefilter('ignore')
    from tenpy.networks import mps as mps_mod
    from tenpy.networks.site import SpinHalfSite
    rng = np.random.default_rng(5)
    s = SpinHalfSite(conserve=None)
    for bc in ('infinite', 'finite'):
        for L in (2, 3, 4):
            chis = [int(x) for x in rng.integers(3, 7, size=L + 1)]
            if bc == 'finite':
                chis[0] = chis[-1] = 1
            else:
                chis[-1] = chis[0]
            Bs = [rng.normal(size=(2, chis[i], chis[i + 1])) + 1.j * rng.normal(size=(2, chis[i], chis[i + 1])) for i in range(L)]
            psi = mps_mod.MPS.from_Bflat([s] * L, Bs, bc=bc, dtype=complex, form=None)
            psi.canonical_form()
            psi.norm = 0.8
            tp = {'chi_max': 2, 'svd_min': 1e-14}
            rec = {'eps': 0., 'bonds': [], 'fac': 1.}
            orig_set, orig_svd = mps_mod.MPS.set_svd_theta, mps_mod.svd_theta

            def set_svd_theta(self, i, theta, trunc_par=None, update_norm=False):
                rec['inside'] = True          # (set_svd_theta calls svd_theta itself: count the truncation once)
                try:
                    err = orig_set(self, i, theta, trunc_par, update_norm)
                finally:
                    rec['inside'] = False
                if trunc_par is tp:
                    rec['eps'] += err.eps
                    rec['bonds'].append(i)
                return err

            def svd_theta(theta, trunc_par, *a, **k):
                res = orig_svd(theta, trunc_par, *a, **k)
                if trunc_par is tp and not rec.get('inside'):
                    rec['eps'] += res[3].eps
                    rec['fac'] *= res[4]
                    rec['bonds'].append(None)
                return res
            mps_mod.MPS.set_svd_theta, mps_mod.svd_theta = set_svd_theta, svd_theta
            try:
                err = psi.compress_svd(tp)
            finally:
                mps_mod.MPS.set_svd_theta, mps_mod.svd_theta = orig_set, orig_svd
            nb = L if bc == 'infinite' else L - 1
            ok = abs(err.eps - rec['eps']) <= 1e-14 + 1e-10 * rec['eps'] and len(rec['bonds']) == nb
            if bc == 'infinite':
                ok = ok and sorted(rec['bonds']) == list(range(L)) and abs(psi.norm - 0.8) < 1e-14
            else:
                ok = ok and abs(psi.norm - 0.8 * rec['fac']) < 1e-12
            if not ok:
                return {'input': {'bc': bc, 'L': L, 'chi': chis, 'trunc_par': tp, 'norm': 0.8},
                        'observed': f'compress_svd returned eps={err.eps}; truncations performed with these parameters: {len(rec["bonds"])} '
                                    f'(bonds {rec["bonds"]}) with total eps={rec["eps"]}; norm {psi.norm} (factors {rec["fac"]})'}
    return None


_HOOKS = {f'{MPS}::MPS.get_B': lambda I, f, a, k: _opq(), f'{MPS}::MPS.set_B': lambda I, f, a, k: None,
          f'{MPS}::MPS.get_theta': lambda I, f, a, k: _opq(), f'{MPS}::MPS.set_SL': lambda I, f, a, k: None,
          f'{MPS}::MPS.set_svd_theta': _set_svd_theta,
          f'{TR}::svd_theta': _svd_theta, 'import:tenpy.linalg.truncation.svd_theta': lambda I, *a, **k: _svd_theta(I, None, a, k),
          f'{NPC}::qr': _qr, f'{NPC}::tensordot': lambda I, f, a, k: _opq(),
          'global:_machine_prec_trunc_par': _MACHINE}

_COMMON = ['self.L == old(self.L)']

Contract(
    target=f'{MPS}::MPS.compress_svd', props=['C09'], name='MPS.compress_svd[finite]',
    params={'self': Obj('MPS', MPS, {'L': Int(), 'bc': Const('finite'), 'norm': Real()}), 'trunc_par': Opaque()},
    setup=_setup, hooks=_HOOKS, hunt=_hunt,
    requires=['self.L >= 1'],
    ensures=['result.eps == performed',                                                    # every truncation reported ...
             'forall(1, self.L, lambda b: count[b] == 1) and count[0] == 0',                 # ... each inner bond truncated exactly once
             'self.norm == old(self.norm) * normfac', 'unreported == 0'] + _COMMON,
    loops={0: {'inv': ['self.L == old(self.L) and self.norm == old(self.norm)', 'trunc_err.eps == 0 and performed == 0 and unreported == 0 and normfac == 1',
                       'forall(0, self.L, lambda b: count[b] == 0)'],
               'ghost_mut': ['performed', 'unreported', 'normfac', 'count']},
           1: {'inv': ['self.L == old(self.L)', 'trunc_err.eps == performed and unreported == 0', 'self.norm == old(self.norm) * normfac',
                       'forall(0, self.L, lambda b: count[b] == ite(b > self.L - 1 - _i and b <= self.L - 1, 1, 0))'],
               'ghost_mut': ['performed', 'unreported', 'normfac', 'count']}},
)

Contract(
    target=f'{MPS}::MPS.compress_svd', props=['C09'], name='MPS.compress_svd[infinite]',
    params={'self': Obj('MPS', MPS, {'L': Int(), 'bc': Const('infinite'), 'norm': Real()}), 'trunc_par': Opaque()},
    setup=_setup, hooks=_HOOKS, hunt=_hunt,
    requires=['self.L >= 1'],
    ensures=['result.eps == performed',
             'forall(0, self.L, lambda b: count[b] == 1)',                                   # every bond of the unit cell, once
             'self.norm == old(self.norm)'] + _COMMON,                                        # update_norm=False
    loops={2: {'inv': ['self.L == old(self.L) and self.norm == old(self.norm)', 'trunc_err.eps == 0 and performed == 0',
                       'forall(0, self.L, lambda b: count[b] == 0)'],
               'ghost_mut': ['performed', 'unreported', 'normfac', 'count']},
           3: {'inv': ['self.L == old(self.L) and self.norm == old(self.norm)', 'trunc_err.eps == performed',
                       'forall(0, self.L, lambda b: count[b] == ite(b > self.L - 1 - _i, 1, 0))'],
               'ghost_mut': ['performed', 'unreported', 'normfac', 'count']}},
)
