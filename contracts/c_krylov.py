"""C16: cache discipline and index coverage of the Krylov result reconstruction.

`_calc_result_full(N)` must pair every coefficient vf[j], 0 <= j < N, exactly once with the Krylov vector q(j),
whatever the number of cached vectors (N_cache): "the result does not depend on how many basis vectors are kept
in memory".  Vectors are abstract: a vector is identified by its Krylov index, the result `psif` by a ghost
coefficient array `coef` (psif = sum_j coef[j] q(j)); the leaf operations act on `coef`.
"""
import z3

from pyvc.contract import Contract, Int, Real, Bool, Opaque, List, NpArr, Obj, Const
from pyvc.values import SObj, SArr, fresh_real
from pyvc.interp import Builtin

KB = 'tenpy/linalg/krylov_based.py'
NPC = 'tenpy/linalg/np_conserved.py'

Contract(
    target=f'{KB}::KrylovBased._to_cache', props=['C16'],
    params={'self': Obj('KrylovBased', KB, {'_cache': List('U'), 'N_cache': Int()}), 'psi': Opaque()},
    requires=['self.N_cache >= 1', 'len(self._cache) <= self.N_cache'],
    ensures=[
        # the cache holds the last min(m, N_cache) vectors in order
        'len(self._cache) == ite(old(len(self._cache)) + 1 > self.N_cache, self.N_cache, old(len(self._cache)) + 1)',
        'self._cache[len(self._cache) - 1] == psi',
        'implies(old(len(self._cache)) < self.N_cache, forall(0, old(len(self._cache)), lambda k: self._cache[k] == old(self._cache)[k]))',
        'implies(old(len(self._cache)) == self.N_cache, forall(0, len(self._cache) - 1, lambda k: self._cache[k] == old(self._cache)[k + 1]))',
    ],
)


def _coef(I):
    return I.ghost['__env__']['coef']


def _mul(I, f, args, kwargs):
    """psi0 * vf[0]: result vector with coefficient vf[0] on q(0)"""
    c = _coef(I)
    k = z3.Int('k!c')
    c.leaves = [z3.Lambda([k], z3.If(k == f.self_obj.attrs['kidx'], args[0], z3.RealVal(0)))]
    return SObj('Array', f.self_obj.mod, {'is_psif': True})


def _iadd(I, f, args, kwargs):
    """iadd_prefactor_other(w, alpha, v): w += alpha * v  (w must be the accumulator psif, v = q(kidx))"""
    w, alpha, v = args
    c = _coef(I)
    c.leaves = [z3.Store(c.leaves[0], z3.IntVal(v) if isinstance(v, int) else v, z3.Select(c.leaves[0], v) + alpha)]
    return w


def _rebuild(I, f, args, kwargs):
    """assumed contract of _rebuild_krylov_for_result_full(psif, N_max) (its body: the Lanczos recurrence re-creates
    q(0), ..., q(N_max) and adds vf[k+1] * q(k+1) for 0 <= k < N_max); requires an empty cache."""
    psif, N_max = args
    s = f.self_obj
    I.oblige('rebuild-called-with-empty-cache', I.z3bool(I.equals(I.length(s.attrs['_cache']), 0)), {'clause': 'len(self._cache) == 0 before the rebuild'})
    c = _coef(I)
    vf = s.attrs['_result_krylov']
    k = z3.Int('k!r')
    c.leaves = [z3.Lambda([k], z3.Select(c.leaves[0], k) + z3.If(z3.And(1 <= k, k <= N_max), z3.Select(vf.leaves[0], k), z3.RealVal(0)))]
    return None


def _norm(I, *a, **k):
    r = fresh_real('norm')
    I.assume(r > 0)
    return r


def _iscale(I, f, args, kwargs):
    I.ghost['__env__']['scale'] = args[1]
    return args[0]


def _setup(I, env):
    c = SArr(z3.IntVal(0), [z3.K(z3.IntSort(), z3.RealVal(0))], 'real')
    I.ghost['__env__'] = {'coef': c, 'scale': z3.RealVal(1)}
    s = env['self']
    from pyvc import source
    s.attrs['psi0'] = SObj('Array', source.get_module(NPC), {'kidx': 0})


def _hunt_ncache():
    """witness hunt on the real solver: the Lanczos result must not depend on N_cache"""
    import warnings
    import numpy as np
    import tenpy.linalg.np_conserved as npc
    from tenpy.linalg import krylov_based as kb
    warnings.simplefilter('ignore')
    rng = np.random.default_rng(5)
    for n in (6, 9, 14):
        A = rng.standard_normal((n, n)) + 1.j * rng.standard_normal((n, n))
        H = npc.Array.from_ndarray_trivial(A + A.conj().T, labels=['p', 'p*'])
        psi0 = npc.Array.from_ndarray_trivial(rng.standard_normal(n) + 0.j, labels=['p'])
        ref = kb.LanczosGroundState(H, psi0.copy(), {'N_cache': n + 5, 'N_max': n + 2, 'N_min': n, 'reortho': False}).run()
        for nc in (2, 3, 4):
            E, v, N = kb.LanczosGroundState(H, psi0.copy(), {'N_cache': nc, 'N_max': n + 2, 'N_min': n, 'reortho': False}).run()
            ov = abs(npc.inner(ref[1], v, axes='range', do_conj=True))
            if abs(E - ref[0]) > 1e-8 or abs(ov - 1) > 1e-6:
                return {'input': {'dimension': n, 'N_cache': nc, 'operator': 'random Hermitian, seed 5'},
                        'observed': f'N_cache={nc}: E0={E}, overlap with the N_cache={n + 5} result {ov} (E0={ref[0]})'}
    return None


Contract(
    target=f'{KB}::KrylovBased._calc_result_full', props=['C16'], hunt=_hunt_ncache,
    params={'self': Obj('LanczosGroundState', KB, {'_cache': List('int'), '_result_krylov': NpArr('real'), 'N_cache': Int()}), 'N': Int()},
    setup=_setup,
    requires=['N >= 2 and len(self._result_krylov) == N',
              # state after building N Krylov vectors with a FIFO cache of size N_cache >= 2:
              # the cache holds q(N - len_cache), ..., q(N - 1) in order
              'self.N_cache >= 2 and len(self._cache) == ite(N < self.N_cache, N, self.N_cache)',
              'forall(0, len(self._cache), lambda j: self._cache[j] == N - len(self._cache) + j)'],
    hooks={f'{NPC}::Array.__mul__': _mul, f'{KB}::iadd_prefactor_other': _iadd, f'{KB}::iscale_prefactor': _iscale,
           f'{KB}::LanczosGroundState._rebuild_krylov_for_result_full': _rebuild, f'{NPC}::norm': _norm},
    ensures=[
        # every coefficient is used exactly once and paired with its own Krylov vector
        'forall(0, N, lambda j: coef[j] == self._result_krylov[j])',
        'forall(N, N + 1000000, lambda j: coef[j] == 0)',
    ],
    loops={0: {'inv': ['len_cache == old(len(self._cache)) and len(self._cache) == len_cache and N == old(N)',
                       'forall(0, len_cache, lambda j: self._cache[j] == N - len_cache + j)',
                       'coef[0] == vf[0]',
                       'forall(1, N, lambda j: coef[j] == ite(j >= N - _i, vf[j], 0))',
                       'forall(N, N + 1000000, lambda j: coef[j] == 0)',
                       'len(vf) == N and forall(0, N, lambda j: vf[j] == self._result_krylov[j])'],
               'ghost_mut': ['coef'], 'frame': {'self': []}}},
)


# ---------------------------------------------------------------------------------------------------------------
# LanczosEvolution.run(delta, normalize): which vector is returned.  Vectors are ghost values (direction, real scale);
# `_build_krylov` and `_calc_result_full` are abstract (the latter is under contract above; "result_full is normalized at this
# point" is its documented postcondition, the N == 1 branch multiplies the normalised start vector by a phase).
# Clause: the result is the normalised vector iff `normalize` is True, or is None and np.real(delta) == 0 (documented default);
# otherwise it is scaled by |psi0| * |expm(delta h) e_0|, i.e. it approximates expm(delta H) psi0 itself.
_RE = z3.Function('re_part', z3.DeclareSort('Delta') if False else z3.IntSort(), z3.RealSort())


def _vec(scale):
    from pyvc.values import to_z3 as _t

    def rmul(I, a):
        return _vec(_t(a) * scale)
    return SObj('GhostVector', None, {'scale': scale, '__rmul__': Builtin(rmul, 'scalar * vector'), '__mul__': Builtin(rmul, 'vector * scalar')})


def _run_setup(I, env):
    s = env['self']
    s.attrs['psi0'] = _vec(z3.RealVal(1))
    phase = SObj('GhostPhase', None, {'__mul__': Builtin(lambda I_, v: v, 'phase * vector')})       # |phase| == 1: the scale is kept
    s.attrs['_result_krylov'] = SObj('GhostCoefficients', None, {'__getitem__': Builtin(lambda I_, i: phase, '_result_krylov[i]')})
    d = env['delta']
    I.ghost['__env__'] = {'re_delta': _RE(d), 'im_delta': z3.Function('im_part', z3.IntSort(), z3.RealSort())(d)}


def _build(I, f, args, kwargs):
    n = z3.Int('N_krylov')
    I.assume(n >= 1)
    return n



def _hunt_run():
    """witness on the real class: exponents of every kind x normalize in (None, True, False) against scipy's expm"""
    import warnings
    import numpy as np
    import scipy.linalg
    warnings.simplefilter('ignore')
    import tenpy.linalg.np_conserved as npc
    from tenpy.linalg import krylov_based as kb
    from tenpy.linalg.sparse import FlatHermitianOperator
    rng = np.random.default_rng(3)
    n = 6
    A = rng.normal(size=(n, n)) + 1.j * rng.normal(size=(n, n))
    A = A + A.conj().T
    leg = npc.LegCharge.from_trivial(n)
    H = npc.Array.from_ndarray(A, [leg, leg.conj()], labels=['p', 'p*'])
    v0 = rng.normal(size=n) + 1.j * rng.normal(size=n)
    psi0 = npc.Array.from_ndarray(1.7 * v0 / np.linalg.norm(v0), [leg], labels=['p'])

    class Op:
        dtype = np.complex128
        def matvec(self, x):
            return npc.tensordot(H, x, axes=['p*', 'p'])
    for delta in (-0.3j, -0.2, 0.1 - 0.2j, 0.):
        for normalize in (None, True, False):
            out, _ = kb.LanczosEvolution(Op(), psi0.copy(), {'N_max': n + 2, 'N_min': 2, 'P_tol': 1e-14, 'reortho': True}).run(delta, normalize=normalize)
            exp = scipy.linalg.expm(delta * A) @ psi0.to_ndarray()
            if normalize or (normalize is None and np.real(delta) == 0):
                exp = exp / np.linalg.norm(exp)
            if not np.allclose(out.to_ndarray(), exp, atol=1e-8):
                return {'input': {'delta': str(delta), 'normalize': normalize, 'norm of psi0': 1.7, 'dimension': n},
                        'observed': f'|result| = {np.linalg.norm(out.to_ndarray())}, documented: {np.linalg.norm(exp)}'}
    return None


from pyvc.contract import OneOf as _OneOf
Contract(
    target=f'{KB}::LanczosEvolution.run', props=['C16'],
    params={'self': Obj('LanczosEvolution', KB, {'_psi0_norm': Real(), '_result_norm': Real(), '_h_krylov': Opaque()}),
            'delta': Int(), 'normalize': _OneOf(None, True, False)},          # (delta: an index into the ghost function re_part)
    setup=_run_setup, hunt=_hunt_run,
    hooks={f'{KB}::KrylovBased._build_krylov': _build, f'{KB}::LanczosGroundState._build_krylov': _build,
           f'{KB}::KrylovBased._calc_result_full': lambda I, f, a, k: _vec(z3.RealVal(1)),
           f'{KB}::LanczosEvolution._calc_result_full': lambda I, f, a, k: _vec(z3.RealVal(1)),
           'module:numpy.real': lambda I, x: I.ghost['__env__']['re_delta'], 'module:numpy.imag': lambda I, x: I.ghost['__env__']['im_delta']},
    requires=['self._psi0_norm > 0 and self._result_norm > 0'],
    ensures=['result[0].scale == ite(normalize == True or (is_none(normalize) and re_delta == 0), 1, self._psi0_norm * self._result_norm)',
             'result[1] >= 1'],
)
