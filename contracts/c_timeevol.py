"""C14: Suzuki-Trotter schedules and time / truncation-error accounting."""
from pyvc.contract import Contract, Int, Real, Bool, Opaque, List, Obj, Const, OneOf, FixedList
from pyvc import runtime

TEBD = 'tenpy/algorithms/tebd.py'


def _call_schedule(I, env):
    from pyvc import source
    from pyvc.interp import FuncVal
    mod, cls, fn = source.locate(f'{TEBD}::TEBDEngine.suzuki_trotter_time_steps')
    d = I.call_function(FuncVal(mod, fn, cls='TEBDEngine'), [env['order']], {})
    mod, cls, fn2 = source.locate(f'{TEBD}::TEBDEngine.suzuki_trotter_decomposition')
    ST = I.call_function(FuncVal(mod, fn2, cls='TEBDEngine'), [env['order'], env['N_steps']], {})
    return (d, ST)


def _replay_schedule(m, ghost):
    order = ghost.get('choices', {}).get('order')
    N = m.int('N_steps')
    if N > 50:
        N = 50

    def run():
        from tenpy.algorithms.tebd import TEBDEngine
        d = TEBDEngine.suzuki_trotter_time_steps(order)
        ST = TEBDEngine.suzuki_trotter_decomposition(order, N)
        for par in (0, 1):
            tot = sum(d[j] for j, k in ST if k == par)
            if abs(tot - N) > 1e-9:
                return False, f'order {order!r}, N_steps={N}: steps on parity {par} sum to {tot}, expected {N}'
        return True, 'ok'
    return {'input': {'order': order, 'N_steps': N}, 'run': run}


Contract(
    target=f'{TEBD}::TEBDEngine.suzuki_trotter_decomposition', props=['C14'], static=True,
    name='TEBDEngine.suzuki_trotter_decomposition+time_steps',
    params={'order': OneOf(1, 2, 4, '4_opt'), 'N_steps': Int()},
    requires=['N_steps >= 0'],
    call=_call_schedule,
    ensures=[
        # "the Suzuki-Trotter schedule composes to exactly that time on every bond"
        'seg_weight(result[1], result[0], 0) == N_steps',
        'seg_weight(result[1], result[0], 1) == N_steps',
        'seg_all(result[1], lambda e: 0 <= e[0] < len(result[0]) and (e[1] == 0 or e[1] == 1))',
    ],
    replay=_replay_schedule,
)


# ---------------------------------------------------------------------------------------------
# time and truncation-error accounting (modular: leaf updates are abstract, everything between the
# leaves and run_evolution is the real code)
import ast as _ast
import z3 as _z3
from pyvc import source as _source
from pyvc.interp import Builtin as _Builtin, ClassVal as _ClassVal
from pyvc.values import SObj as _SObj, SArr as _SArr, fresh_real as _fresh_real, fresh_int as _fresh_int
from pyvc.builtins_model import spec_sum as _spec_sum

ALG = 'tenpy/algorithms/algorithm.py'
TR = 'tenpy/linalg/truncation.py'
TDVP = 'tenpy/algorithms/tdvp.py'
MPOEV = 'tenpy/algorithms/mpo_evolution.py'
MPSC = 'tenpy/algorithms/mps_common.py'


def _new_te(I, eps):
    mod = _source.get_module(TR)
    return I.instantiate(_ClassVal(mod, mod.classes['TruncationError']), [eps, _fresh_real('ov')], {})


def _leaf_truncating(I, f, args, kwargs):
    """abstract leaf update: performs truncations with total error eps (ghost: performed += eps)"""
    eps = _fresh_real('eps')
    genv = I.ghost['__env__']
    genv['performed'] = genv['performed'] + eps
    return _new_te(I, eps)


def _leaf_noop(I, f, args, kwargs):
    return None


def _leaf_sweep(I, f, args, kwargs):
    """abstract TDVP sweep: leaves the per-bond errors of this sweep in self.trunc_err_list"""
    self_obj = f.self_obj
    lst = _SArr.fresh('real', 'errlist')
    I.assume(lst.n >= 0)
    self_obj.attrs['trunc_err_list'] = lst
    genv = I.ghost['__env__']
    genv['performed'] = genv['performed'] + _spec_sum(I, lst, 0, lst.n)
    return None


def _setup_engine(I, env):
    I.ghost['__env__'] = {'performed': _z3.Real('performed0')}
    pn = [None, True, False][I.choose(3, 'preserve_norm')]

    def opt_get(I_, key, default=None, *a, **k):
        if key == 'preserve_norm':
            return pn
        return default
    env['self'].attrs['options'] = _SObj('OptionsRecord', None, {'get': _Builtin(opt_get, 'options.get')})


def _frame_check():
    """static frame obligation: the only functions assigning self.trunc_err / self.evolved_time in
    tenpy/algorithms are the ones under contract here (so the abstract leaves cannot change them)."""
    import glob
    import os
    allowed = {('algorithm.py', 'TimeEvolutionAlgorithm.__init__'), ('algorithm.py', 'TimeEvolutionAlgorithm.run_evolution'),
               ('algorithm.py', 'TimeEvolutionAlgorithm.evolve'), ('algorithm.py', 'TimeDependentHAlgorithm.run_evolution'),
               ('tebd.py', 'TEBDEngine.evolve'), ('tebd.py', 'TEBDEngine.update_imag'),
               ('tebd.py', 'RandomUnitaryEvolution.evolve'), ('purification.py', 'PurificationTEBD.update'),
               ('purification.py', 'PurificationTEBD2.update'),
               ('tdvp.py', 'TDVPEngine.evolve'), ('tdvp.py', 'TimeDependentSingleSiteTDVP.__init__'),
               ('tdvp.py', 'TimeDependentTwoSiteTDVP.__init__')}
    bad = []
    for path in sorted(glob.glob(os.path.join(_source.REPO, 'tenpy', 'algorithms', '*.py'))):
        tree = _ast.parse(open(path).read())
        for cls in [n for n in tree.body if isinstance(n, _ast.ClassDef)]:
            for fn in [n for n in cls.body if isinstance(n, _ast.FunctionDef)]:
                for n in _ast.walk(fn):
                    tgts = []
                    if isinstance(n, _ast.Assign):
                        tgts = n.targets
                    elif isinstance(n, (_ast.AugAssign, _ast.AnnAssign)):
                        tgts = [n.target]
                    for t in tgts:
                        if isinstance(t, _ast.Attribute) and t.attr in ('trunc_err', 'evolved_time') \
                                and isinstance(t.value, _ast.Name) and t.value.id == 'self':
                            key = (os.path.basename(path), f'{cls.name}.{fn.name}')
                            if key not in allowed:
                                bad.append(f'{key[0]}:{key[1]} assigns self.{t.attr}')
    return [('frame-trunc_err-evolved_time', not bad, 'only functions under contract assign self.trunc_err / '
             'self.evolved_time: ' + ('; '.join(bad) if bad else 'ok'))]


_TE = lambda: Obj('TruncationError', TR, {'eps': Real(), 'ov': Real()})
_PSI = lambda: Obj('PsiRecord', None, {'norm': Real()})

_HOOKS = {
    f'{TEBD}::TEBDEngine.evolve_step': _leaf_truncating,
    f'{TEBD}::TEBDEngine.prepare_evolve': _leaf_noop,
    f'{TEBD}::RandomUnitaryEvolution.calc_U': _leaf_noop,
    f'{TEBD}::RandomUnitaryEvolution.prepare_evolve': _leaf_noop,
    f'{MPOEV}::ExpMPOEvolution.prepare_evolve': _leaf_noop,
    f'{MPOEV}::ExpMPOEvolution.evolve_step': _leaf_truncating,
    f'{TDVP}::TDVPEngine.prepare_evolve': _leaf_noop,
    f'{MPSC}::Sweep.sweep': _leaf_sweep,
    'tenpy/tools/misc.py::consistency_check': _leaf_noop,
    f'{ALG}::TimeDependentHAlgorithm.reinit_model': _leaf_noop,
    f'{TDVP}::TimeDependentTwoSiteTDVP.reinit_model': _leaf_noop,
    f'{TDVP}::TimeDependentSingleSiteTDVP.reinit_model': _leaf_noop,
}

# the property's sentence, as postcondition of the public driver run_evolution:
_ACCOUNT_POST = [
    # "the accumulated truncation error an engine reports equals the sum of the errors of the truncations it performed"
    'self.trunc_err.eps == old(self.trunc_err.eps) + (performed - old(performed))',
    # "the advertised evolved time equals the number of steps times the step"
    'self.evolved_time == old(self.evolved_time) + N_steps * dt',
]
_INV_ACC = ['trunc_err.eps == performed - perf_in',
            'self.trunc_err.eps == te_in and self.evolved_time == et_in']
_GP = {'perf_in': 'performed', 'te_in': 'self.trunc_err.eps', 'et_in': 'self.evolved_time'}
_FR = {'self': []}   # leaves do not assign self.trunc_err / self.evolved_time (static frame obligation above)


def _acc_contract(name, relpath, cls, attrs, requires, loops, target=f'{ALG}::TimeEvolutionAlgorithm.run_evolution',
                  extra_post=()):
    a = {'evolved_time': Real(), 'trunc_err': _TE(), 'psi': _PSI()}
    a.update(attrs)
    Contract(target=target, props=['C14'], name=name,
             params={'self': Obj(cls, relpath, a), 'N_steps': Int(), 'dt': Real()},
             setup=_setup_engine, hooks=_HOOKS,
             requires=['N_steps >= 0'] + requires,
             ensures=_ACCOUNT_POST + list(extra_post), loops=loops, static_checks=[_frame_check],
             hunt=_hunt_accounting(cls))


def _hunt_accounting(cls):
    def hunt():
        import numpy as np
        import tenpy
        from tenpy.models.xxz_chain import XXZChain
        from tenpy.networks.mps import MPS
        from tenpy.linalg.truncation import TruncationError
        if cls not in ('TEBDEngine', 'RandomUnitaryEvolution', 'ExpMPOEvolution', 'TwoSiteTDVPEngine'):
            return None
        M = XXZChain({'L': 8, 'Jxx': 1., 'Jz': 1., 'hz': 0.2, 'bc_MPS': 'finite'})
        psi = MPS.from_product_state(M.lat.mps_sites(), ['up', 'down'] * 4, 'finite')
        opts = {'dt': 0.1, 'N_steps': 4, 'trunc_params': {'chi_max': 3, 'svd_min': 1e-12}}
        if cls == 'TEBDEngine':
            from tenpy.algorithms.tebd import TEBDEngine as E
            opts['order'] = 2
        elif cls == 'RandomUnitaryEvolution':
            from tenpy.algorithms.tebd import RandomUnitaryEvolution as E
            M = None
        elif cls == 'ExpMPOEvolution':
            from tenpy.algorithms.mpo_evolution import ExpMPOEvolution as E
        else:
            from tenpy.algorithms.tdvp import TwoSiteTDVPEngine as E
        eng = E(psi, M, opts) if M is not None else E(psi, opts)
        performed = [0.0]
        for leaf in ('update_bond', ):
            if hasattr(eng, leaf):
                orig = getattr(eng, leaf)

                def wrapped(*a, _orig=orig, **k):
                    te = _orig(*a, **k)
                    performed[0] += te.eps
                    return te
                setattr(eng, leaf, wrapped)
        if not hasattr(eng, 'update_bond'):
            return None
        eng.run()
        if abs(eng.trunc_err.eps - performed[0]) > 1e-12 + 1e-9 * abs(performed[0]):
            return {'input': {'engine': cls, 'options': opts, 'chain': 'XXZ L=8'},
                    'observed': f'eng.trunc_err.eps = {eng.trunc_err.eps!r} but the truncations performed sum to '
                                f'{performed[0]!r} (ratio {eng.trunc_err.eps / performed[0] if performed[0] else None})'}
        return None
    return hunt


from pyvc.contract import DictOf

_UP = lambda: DictOf({'order': OneOf(1, 2, 4, '4_opt'), 'tau': Real(), 'delta_t': Real(), 'type_evo': 'real'})

_acc_contract('run_evolution[TEBDEngine]', TEBD, 'TEBDEngine', {'_U_param': _UP()},
              ["dt == self._U_param['delta_t'] and self._U_param['tau'] == dt"],
              {(f'{TEBD}::TEBDEngine.evolve', 0): {'inv': _INV_ACC, 'frame': _FR, 'ghost_mut': ['performed'], 'ghost_pre': _GP}})

_acc_contract('run_evolution[RandomUnitaryEvolution]', TEBD, 'RandomUnitaryEvolution', {}, [],
              {(f'{TEBD}::RandomUnitaryEvolution.evolve', 0): {'inv': _INV_ACC, 'frame': _FR, 'ghost_mut': ['performed'], 'ghost_pre': _GP}})

_acc_contract('run_evolution[ExpMPOEvolution]', MPOEV, 'ExpMPOEvolution', {}, [],
              {(f'{ALG}::TimeEvolutionAlgorithm.evolve', 0): {'inv': _INV_ACC, 'frame': _FR, 'ghost_mut': ['performed'], 'ghost_pre': _GP}})

_acc_contract('run_evolution[TwoSiteTDVPEngine]', TDVP, 'TwoSiteTDVPEngine', {'trunc_err_list': List('real'), 'dt': Real()}, [],
              {(f'{TDVP}::TDVPEngine.evolve', 0): {'inv': _INV_ACC + ['self.dt == dt'],
                                                   'frame': {'self': ['trunc_err_list']}, 'ghost_mut': ['performed'], 'ghost_pre': _GP},
               (f'{TDVP}::TDVPEngine.evolve', 1): {
                   'inv': ['trunc_err.eps == t_eps0 + ssum(self.trunc_err_list, 0, _i)',
                           'self.trunc_err.eps == te_in and self.evolved_time == et_in', 'self.dt == dt'],
                   'lemmas': ['sum_unfold(self.trunc_err_list, 0, _i)', 'sum_unfold(self.trunc_err_list, 0, _i + 1)'],
                   'ghost_pre': {'t_eps0': 'trunc_err.eps'}}})

# time-dependent Hamiltonians: run_evolution of TimeDependentHAlgorithm drives evolve(1, dt) N_steps times
_acc_contract('run_evolution[TimeDependentExpMPOEvolution]', MPOEV, 'TimeDependentExpMPOEvolution', {}, [],
              {(f'{ALG}::TimeEvolutionAlgorithm.evolve', 0): {'inv': _INV_ACC, 'frame': _FR, 'ghost_mut': ['performed'],
                                                              'ghost_pre': _GP},
               (f'{ALG}::TimeDependentHAlgorithm.run_evolution', 0): {
                   'inv': ['self.trunc_err.eps == old(self.trunc_err.eps) + (performed - old(performed))',
                           'self.evolved_time == old(self.evolved_time) + _i * dt'],
                   'frame': {'self': ['trunc_err', 'evolved_time']}, 'ghost_mut': ['performed']}},
              target=f'{ALG}::TimeDependentHAlgorithm.run_evolution')

_acc_contract('run_evolution[TimeDependentTEBD]', TEBD, 'TimeDependentTEBD', {'_U_param': _UP()},
              ["dt == self._U_param['delta_t'] and self._U_param['tau'] == dt"],
              {(f'{TEBD}::TEBDEngine.evolve', 0): {'inv': _INV_ACC, 'frame': _FR, 'ghost_mut': ['performed'], 'ghost_pre': _GP},
               (f'{ALG}::TimeDependentHAlgorithm.run_evolution', 0): {
                   'inv': ['self.trunc_err.eps == old(self.trunc_err.eps) + (performed - old(performed))',
                           'self.evolved_time == old(self.evolved_time) + _i * dt',
                           "dt == self._U_param['delta_t'] and self._U_param['tau'] == dt"],
                   'frame': {'self': ['trunc_err', 'evolved_time']}, 'ghost_mut': ['performed']}},
              target=f'{ALG}::TimeDependentHAlgorithm.run_evolution')

_acc_contract('run_evolution[TimeDependentTwoSiteTDVP]', TDVP, 'TimeDependentTwoSiteTDVP',
              {'trunc_err_list': List('real'), 'dt': Real()}, [],
              {(f'{TDVP}::TDVPEngine.evolve', 1): {
                  'inv': ['trunc_err.eps == t_eps0 + ssum(self.trunc_err_list, 0, _i)',
                          'self.trunc_err.eps == te_in and self.evolved_time == et_in', 'self.dt == dt'],
                  'lemmas': ['sum_unfold(self.trunc_err_list, 0, _i)', 'sum_unfold(self.trunc_err_list, 0, _i + 1)'],
                  'ghost_pre': {'t_eps0': 'trunc_err.eps', 'te_in': 'self.trunc_err.eps', 'et_in': 'self.evolved_time'}},
               (f'{ALG}::TimeDependentHAlgorithm.run_evolution', 0): {
                   'inv': ['self.trunc_err.eps == old(self.trunc_err.eps) + (performed - old(performed))',
                           'self.evolved_time == old(self.evolved_time) + _i * dt'],
                   'frame': {'self': ['trunc_err', 'evolved_time', 'trunc_err_list', 'dt']}, 'ghost_mut': ['performed']}},
              target=f'{ALG}::TimeDependentHAlgorithm.run_evolution')

# TruncationError algebra: eps additive, ov multiplicative, operands unchanged
Contract(target=f'{TR}::TruncationError.__add__', props=['C14', 'C15'],
         params={'self': _TE(), 'other': _TE()},
         ensures=['result.eps == self.eps + other.eps', 'result.ov == self.ov * other.ov',
                  'self.eps == old(self.eps) and self.ov == old(self.ov) and other.eps == old(other.eps) and other.ov == old(other.ov)',
                  'result is not self and result is not other'])

Contract(target=f'{TR}::TruncationError.copy', props=['C14', 'C15'], params={'self': _TE()},
         ensures=['result.eps == self.eps and result.ov == self.ov and result is not self'])

Contract(target=f'{TR}::TruncationError.from_norm', props=['C15'], name='TruncationError.from_norm',
         params={'cls': Const(None), 'norm_new': Real(), 'norm_old': Real()},
         requires=['norm_old != 0'],
         call=lambda I, env: I.call(I.getattr(I.lookup_global(_source.get_module(TR), 'TruncationError'), 'from_norm'),
                                    [env['norm_new'], env['norm_old']], {}),
         ensures=['result.eps * norm_old * norm_old == norm_old * norm_old - norm_new * norm_new',
                  'result.ov == 1 - 2 * result.eps'])


# further engines that inherit the drivers (the contract shows that no override in their MRO breaks the accounting)
_acc_contract('run_evolution[SingleSiteTDVPEngine]', TDVP, 'SingleSiteTDVPEngine', {'trunc_err_list': List('real'), 'dt': Real()}, [],
              {(f'{TDVP}::TDVPEngine.evolve', 0): {'inv': _INV_ACC + ['self.dt == dt'],
                                                   'frame': {'self': ['trunc_err_list']}, 'ghost_mut': ['performed'], 'ghost_pre': _GP},
               (f'{TDVP}::TDVPEngine.evolve', 1): {
                   'inv': ['trunc_err.eps == t_eps0 + ssum(self.trunc_err_list, 0, _i)',
                           'self.trunc_err.eps == te_in and self.evolved_time == et_in', 'self.dt == dt'],
                   'lemmas': ['sum_unfold(self.trunc_err_list, 0, _i)', 'sum_unfold(self.trunc_err_list, 0, _i + 1)'],
                   'ghost_pre': {'t_eps0': 'trunc_err.eps'}}})

_acc_contract('run_evolution[QRBasedTEBDEngine]', TEBD, 'QRBasedTEBDEngine', {'_U_param': _UP()},
              ["dt == self._U_param['delta_t'] and self._U_param['tau'] == dt"],
              {(f'{TEBD}::TEBDEngine.evolve', 0): {'inv': _INV_ACC, 'frame': _FR, 'ghost_mut': ['performed'], 'ghost_pre': _GP}})

_acc_contract('run_evolution[TimeDependentSingleSiteTDVP]', TDVP, 'TimeDependentSingleSiteTDVP',
              {'trunc_err_list': List('real'), 'dt': Real()}, [],
              {(f'{TDVP}::TDVPEngine.evolve', 1): {
                  'inv': ['trunc_err.eps == t_eps0 + ssum(self.trunc_err_list, 0, _i)',
                          'self.trunc_err.eps == te_in and self.evolved_time == et_in', 'self.dt == dt'],
                  'lemmas': ['sum_unfold(self.trunc_err_list, 0, _i)', 'sum_unfold(self.trunc_err_list, 0, _i + 1)'],
                  'ghost_pre': {'t_eps0': 'trunc_err.eps', 'te_in': 'self.trunc_err.eps', 'et_in': 'self.evolved_time'}},
               (f'{ALG}::TimeDependentHAlgorithm.run_evolution', 0): {
                   'inv': ['self.trunc_err.eps == old(self.trunc_err.eps) + (performed - old(performed))',
                           'self.evolved_time == old(self.evolved_time) + _i * dt'],
                   'frame': {'self': ['trunc_err', 'evolved_time', 'trunc_err_list', 'dt']}, 'ghost_mut': ['performed']}},
              target=f'{ALG}::TimeDependentHAlgorithm.run_evolution')


# ---------------------------------------------------------------------------------------------
# Time-dependent drivers: after reinit_model() the engine works with H(evolved_time) - the model carries that time, and whatever
# the engine caches from the model is refreshed: TEBD / ExpMPO are told to recompute their propagators (force_prepare_evolve), the
# TDVP drivers rebuild their environments *with the new model* (init_env(None) means "keep the model used before").
# Ghost: `update_time_parameter(t)` returns a fresh model object whose options carry time == t; init_env records its argument.
def _td_setup(I, env):
    s = env['self']
    old_time = _z3.Real('model_time0')
    has_time = _z3.Bool('model_has_time0')

    def mk_model(time, has):
        m = _SObj('GhostModel', None, {'time': time, 'has_time': has})

        def get2(I_, key, default=None, *a, **k):
            if key != 'time':
                return default
            if I_.branch(has):
                return time
            return None
        m.attrs['options'] = _SObj('OptionsRecord', None, {'get': _Builtin(get2, 'options.get')})

        def utp(I_, new_time):
            return mk_model(new_time, _z3.BoolVal(True))
        m.attrs['update_time_parameter'] = _Builtin(utp, 'model.update_time_parameter')
        return m
    s.attrs['model'] = mk_model(old_time, has_time)
    I.ghost['__env__'] = {'model0': s.attrs['model'], 'env_model': 'never initialised', 'env_inits': 0}


def _init_env_hook(I, f, args, kwargs):
    g = I.ghost['__env__']
    g['env_model'] = args[0] if args else kwargs.get('model')
    g['env_inits'] = g['env_inits'] + 1
    return None



def _hunt_td():
    """witness on the real drivers: after one step the environment must hold the MPO of the *current* model"""
    import warnings
    warnings.simplefilter('ignore')
    from tenpy.models.spins import SpinChain
    from tenpy.networks.mps import MPS
    from tenpy.algorithms import tdvp, tebd

    class DrivenChain(SpinChain):
        def init_terms(self, model_params):
            t = model_params.get('time', 0., 'real')
            super().init_terms(model_params)
            self.add_coupling(1.5 * t, 0, 'Sz', 0, 'Sz', 1)
    pars = {'L': 4, 'S': 0.5, 'Jx': 1.0, 'Jy': 1.0, 'Jz': 0.5, 'bc_MPS': 'finite', 'conserve': 'Sz'}
    for name in ('TimeDependentSingleSiteTDVP', 'TimeDependentTwoSiteTDVP'):
        M = DrivenChain(dict(pars, time=0.))
        psi = MPS.from_product_state(M.lat.mps_sites(), ['up', 'down'] * 2, 'finite')
        tebd.TEBDEngine(psi, M, {'dt': 0.05, 'N_steps': 4, 'trunc_params': {'chi_max': 16}}).run()
        eng = getattr(tdvp, name)(psi, M, {'dt': 0.1, 'N_steps': 2, 'trunc_params': {'chi_max': 16}})
        eng.run()
        t_model = eng.model.options.get('time', None)
        if eng.env.H is not eng.model.H_MPO or abs(t_model - eng.evolved_time) > 1e-12:
            return {'input': {'engine': name, 'model': 'SpinChain + 1.5 t SzSz, L=4', 'dt': 0.1, 'N_steps': 2},
                    'observed': f'after run(): evolved_time={eng.evolved_time}, model time={t_model}, '
                                f'environment built from the MPO of the current model: {eng.env.H is eng.model.H_MPO}'}
    return None


_TD_ENGINE = lambda cls, path: Obj(cls, path, {'evolved_time': Real(), 'force_prepare_evolve': Bool()})
_TD_POST = ['self.model.has_time and self.model.time == self.evolved_time',              # the model is H(evolved_time)
            'self.evolved_time == old(self.evolved_time)',
            # a new model was built unless the old one was already at that time; then the cached propagators are invalidated
            'implies(not (self.model is model0), self.force_prepare_evolve == True)',
            'implies(self.model is model0, model0.has_time and model0.time == self.evolved_time)']

Contract(target=f'{ALG}::TimeDependentHAlgorithm.reinit_model', props=['C14'], name='TimeDependentHAlgorithm.reinit_model',
         params={'self': _TD_ENGINE('TimeDependentHAlgorithm', ALG)}, setup=_td_setup, ensures=_TD_POST)

for _cls in ('TimeDependentSingleSiteTDVP', 'TimeDependentTwoSiteTDVP'):
    Contract(target=f'{TDVP}::{_cls}.reinit_model', props=['C14'], name=f'{_cls}.reinit_model',
             params={'self': _TD_ENGINE(_cls, TDVP)}, setup=_td_setup, hunt=_hunt_td,
             hooks={f'{MPSC}::Sweep.init_env': _init_env_hook, f'{TDVP}::TDVPEngine.init_env': _init_env_hook,
                    f'{TDVP}::{_cls}.init_env': _init_env_hook},
             ensures=_TD_POST + ['env_inits == 1 and env_model is self.model'])       # environments rebuilt once, with the current model


# ---------------------------------------------------------------------------------------------
# TEBDEngine.evolve called directly with a prepared propagator (what run_GS does for imaginary time): the advertised time advances by
# N_steps * tau - the *time* of the prepared step (dt for real time, -i*dt for imaginary time: `tau` is an independent symbol here, the
# complex number -i*delta_t abstracted to a real one) - not by N_steps times its magnitude delta_t; truncation errors accumulate.
def _hunt_imag():
    import warnings
    import numpy as np
    warnings.simplefilter('ignore')
    from tenpy.models.xxz_chain import XXZChain
    from tenpy.networks.mps import MPS
    from tenpy.algorithms.tebd import TEBDEngine
    M = XXZChain({'L': 4, 'Jxx': 1., 'Jz': 1., 'hz': 0.2, 'bc_MPS': 'finite'})
    for order in (1, 2, 4):
        for kind, unit in (('imag', -1.j), ('real', 1.)):
            psi = MPS.from_product_state(M.lat.mps_sites(), ['up', 'down'] * 2, 'finite')
            eng = TEBDEngine(psi, M, {'trunc_params': {'chi_max': 8}})
            eng.calc_U(order, 0.05, type_evo=kind)
            eng.evolve(3, 0.05)
            if abs(eng.evolved_time - 3 * 0.05 * unit) > 1e-12:
                return {'input': {'order': order, 'type_evo': kind, 'delta_t': 0.05, 'N_steps': 3},
                        'observed': f'evolved_time = {eng.evolved_time!r}, documented {3 * 0.05 * unit!r}'}
    return None


Contract(target=f'{TEBD}::TEBDEngine.evolve', props=['C14'], name='TEBDEngine.evolve[prepared step, tau independent of |dt|]',
         params={'self': Obj('TEBDEngine', TEBD, {'evolved_time': Real(), 'trunc_err': _TE(), 'psi': _PSI(),
                                                  '_U_param': DictOf({'order': OneOf(1, 2, 4, '4_opt'), 'tau': Real(), 'delta_t': Real(), 'type_evo': 'imag'})}),
                 'N_steps': Int(), 'dt': Real()},
         setup=_setup_engine, hooks=_HOOKS, hunt=_hunt_imag,
         requires=['N_steps >= 0', "dt == self._U_param['delta_t']"],
         ensures=["self.evolved_time == old(self.evolved_time) + N_steps * old(self._U_param['tau'])",
                  'result.eps == performed - old(performed)'],
         loops={(f'{TEBD}::TEBDEngine.evolve', 0): {'inv': _INV_ACC, 'frame': _FR, 'ghost_mut': ['performed'], 'ghost_pre': _GP}})
