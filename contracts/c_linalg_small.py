"""Contracts for the small index/bookkeeping kernels of tenpy.linalg (C01, C04, C06)."""
from pyvc.contract import Contract, Int, Bool, List, NpArr, Obj, Const, OneOf
from pyvc import runtime


def _real_leg(slices):
    import numpy as np
    from tenpy.linalg import charges
    slices = list(slices)
    return charges.LegCharge(charges.ChargeInfo(), slices, np.zeros((len(slices) - 1, 0), dtype=int))


def _replay_get_qindex(m, ghost):
    bn = m.int('self.block_number')
    slices = m.arr('self.slices', bn + 1)
    fi = m.int('flat_index')
    if bn > 10 or len(slices) < 1:
        return None

    def run():
        leg = _real_leg(slices)
        c = [c for c in __import__('pyvc.contract').contract.REGISTRY if c.name == 'LegCharge.get_qindex'][0]
        return runtime.check_call(c, None, {'self': leg, 'flat_index': fi},
                                  call=lambda env: env['self'].get_qindex(env['flat_index']))
    return {'input': {'slices': slices, 'flat_index': fi}, 'run': run}

NPC = 'tenpy/linalg/np_conserved.py'
CH = 'tenpy/linalg/charges.py'

Contract(
    target=f'{NPC}::_iter_common_sorted', props=['C01', 'C02'],
    params={'a': List('int'), 'b': List('int')},
    # strictly ascending, stated in the transitive form (equivalent; the solver does no induction)
    requires=['forall2(0, len(a), lambda p, q: implies(p < q, a[p] < a[q]))',
              'forall2(0, len(b), lambda p, q: implies(p < q, b[p] < b[q]))'],
    ensures=[
        # soundness: every returned pair is a match, in range
        'forall(0, len(result), lambda k: 0 <= result[k][0] < len(a) and 0 <= result[k][1] < len(b) '
        'and a[result[k][0]] == b[result[k][1]])',
        # order: strictly increasing in i (and j)
        'forall(0, len(result) - 1, lambda k: result[k][0] < result[k + 1][0] and result[k][1] < result[k + 1][1])',
        # completeness: every match is returned
        'forall(0, len(a), lambda i: forall(0, len(b), lambda j: implies(a[i] == b[j], '
        'exists(0, len(result), lambda k: result[k][0] == i and result[k][1] == j))))',
    ],
    loops={0: {
        'as_arr': {'res': ('tuple', ['int', 'int'], None)},
        'inv': [
            '0 <= i <= l_a and 0 <= j <= l_b and l_a == len(a) and l_b == len(b)',
            'forall(0, len(res), lambda k: 0 <= res[k][0] < i and 0 <= res[k][1] < j and a[res[k][0]] == b[res[k][1]])',
            'forall(0, len(res) - 1, lambda k: res[k][0] < res[k + 1][0] and res[k][1] < res[k + 1][1])',
            # all matches with i' < i or j' < j are already in res
            'forall(0, l_a, lambda p: forall(0, l_b, lambda q: implies(a[p] == b[q] and (p < i or q < j), '
            'exists(0, len(res), lambda k: res[k][0] == p and res[k][1] == q))))',
            # everything left of the cursors is smaller than what the other cursor points to
            'forall(0, i, lambda p: implies(j < l_b, a[p] < b[j]))',
            'forall(0, j, lambda q: implies(i < l_a, b[q] < a[i]))',
        ],
        'decreases': '(l_a - i) + (l_b - j)',
    }},
)

_LEG = Obj('LegCharge', CH, {'ind_len': Int(), 'block_number': Int(), 'slices': NpArr('int')})
_WF_LEG = ['self.block_number >= 0 and len(self.slices) == self.block_number + 1',
           'self.slices[0] == 0 and self.slices[self.block_number] == self.ind_len',
           # block boundaries non-decreasing (transitive form)
           'forall2(0, len(self.slices), lambda p, q: implies(p <= q, self.slices[p] <= self.slices[q]))']

Contract(
    target=f'{CH}::LegCharge.get_qindex', props=['C01', 'C06'],
    params={'self': _LEG, 'flat_index': Int()},
    requires=_WF_LEG,
    # "the same numpy operation ... or the same class of error": out-of-range index <=> IndexError
    raises={'IndexError': 'not (-self.ind_len <= flat_index < self.ind_len)'},
    ensures=['0 <= result[0] < self.block_number',
             'self.slices[result[0]] <= ite(flat_index < 0, flat_index + self.ind_len, flat_index) < self.slices[result[0] + 1]',
             'result[1] == ite(flat_index < 0, flat_index + self.ind_len, flat_index) - self.slices[result[0]]',
             'self.ind_len == old(self.ind_len) and len(self.slices) == old(len(self.slices))'],
    replay=_replay_get_qindex,
)

Contract(
    target=f'{CH}::_make_stride', props=['C04', 'C06'], name='_make_stride[C]',
    params={'shape': List('int'), 'cstyle': Const(True)},
    requires=['len(shape) >= 1'],
    ensures=['len(result) == len(shape)', 'result[len(shape) - 1] == 1',
             'forall(0, len(shape) - 1, lambda a: result[a] == result[a + 1] * shape[a + 1])'],
    loops={0: {'inv': ['L == len(shape) and len(res) == L and a_ == L - 1 - _i' if False else
                       'L == len(shape) and len(res) == L',
                       'res[L - 1] == 1', 'stride == res[L - 1 - _i]',
                       'forall(L - 1 - _i, L - 1, lambda a: res[a] == res[a + 1] * shape[a + 1])']}},
)

Contract(
    target=f'{CH}::_make_stride', props=['C04', 'C06'], name='_make_stride[F]',
    params={'shape': List('int'), 'cstyle': Const(False)},
    requires=['len(shape) >= 1'],
    ensures=['len(result) == len(shape)', 'result[0] == 1',
             'forall(1, len(shape), lambda a: result[a] == result[a - 1] * shape[a - 1])'],
    loops={1: {'inv': ['L == len(shape) and len(res) == L', 'res[0] == 1', 'stride == res[_i]',
                       'forall(1, _i + 1, lambda a: res[a] == res[a - 1] * shape[a - 1])']}},
)


def _replay_get_leg_index(m, ghost):
    rank = m.int('self.rank')
    label = m.int('label')
    if not (1 <= rank <= 6):
        return None

    def run():
        import numpy as np
        import tenpy.linalg.np_conserved as npc
        a = npc.Array.from_ndarray_trivial(np.zeros((1,) * rank))
        try:
            r = a.get_leg_index(label)
        except ValueError:
            return (not (-rank <= label < rank)), f'ValueError for label {label}, rank {rank}'
        ok = (-rank <= label < rank) and r == label % rank
        return ok, f'get_leg_index({label}) on a rank-{rank} array returned {r} (numpy: axis out of range)'
    return {'input': {'rank': rank, 'label': label}, 'run': run}


Contract(
    target=f'{NPC}::Array.get_leg_index', props=['C01'], name='Array.get_leg_index[int]',
    params={'self': Obj('Array', NPC, {'rank': Int(), '_labels': Const([])}), 'label': Int()},
    requires=['self.rank >= 1'],   # type invariant: tenpy arrays have at least one leg
    # integer axes follow numpy: valid iff -rank <= label < rank ("the same class of error")
    raises={'ValueError': 'not (-self.rank <= label < self.rank)'},
    ensures=['result == ite(label < 0, label + self.rank, label)', '0 <= result < self.rank'],
    replay=_replay_get_leg_index,
)

Contract(
    target=f'{NPC}::Array.get_leg_index', props=['C01'], name='Array.get_leg_index[str]',
    params={'self': Obj('Array', NPC, {'rank': Const(3), '_labels': Const(['a', None, 'b'])}),
            'label': OneOf('a', 'b', 'c')},
    raises={'KeyError': "label == 'c'"},
    ensures=['self._labels[result] == label'],
)
