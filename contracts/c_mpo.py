"""C11: argument/range selection of MPO.overlap (no exception for unknown or infinite max_range)."""
import z3
from pyvc.contract import Contract, Int, Bool, Opaque, Obj, Const, OneOf
from pyvc.values import INF, Opq

MPO = 'tenpy/networks/mpo.py'


def _overlap_no_hc(I, f, args, kwargs):
    I.ghost.setdefault('num_sites_used', []).append(kwargs.get('num_sites', args[1] if len(args) > 1 else None))
    return z3.Real('ov_%d' % len(I.ghost['num_sites_used']))


def _mpo(name):
    return Obj('MPO', MPO, {'bc': Const('infinite'), 'L': Int(), 'max_range': OneOf(None, INF, Int()),
                            'explicit_plus_hc': Const(False)})


def _post_setup(I, env):
    for nm in ('self', 'other'):
        mr = env[nm].attrs['max_range']
        if isinstance(mr, z3.ExprRef):
            I.assume(mr >= 0)


def _replay(m, ghost):
    def run():
        import warnings
        import numpy as np
        from tenpy.models.tf_ising import TFIChain
        warnings.simplefilter('ignore')
        M = TFIChain({'L': 2, 'J': 1., 'g': 0.5, 'bc_MPS': 'infinite'})
        A, B = M.H_MPO.copy(), M.H_MPO.copy()
        B.max_range = None
        try:
            A.overlap(B, understood_infinite=True)
        except TypeError as e:
            return False, f'overlap of two infinite MPOs with other.max_range=None raised TypeError: {e}'
        return True, 'ok'
    return {'input': 'infinite TFIChain H_MPO, other.max_range = None', 'run': run}


Contract(target=f'{MPO}::MPO.overlap', props=['C11'], name='MPO.overlap[infinite, num_sites=None]',
         params={'self': _mpo('self'), 'other': _mpo('other'), 'understood_infinite': Const(True), 'num_sites': Const(None)},
         setup=_post_setup,
         requires=['self.L >= 1 and other.L >= 1'],
         hooks={f'{MPO}::MPO._overlap_no_hc': _overlap_no_hc},
         # raises nothing for max_range in {None, inf}; documented default of num_sites
         ensures=['num_sites_ok'],
         call=lambda I, env: _call(I, env),
         replay=_replay)


def _call(I, env):
    from pyvc.interp import FuncVal
    from pyvc import source
    mod, cls, fn = source.locate(f'{MPO}::MPO.overlap')
    res = I.call_function(FuncVal(mod, fn, self_obj=env['self'], cls='MPO'), [env['other']],
                          {'understood_infinite': True, 'num_sites': None})
    used = I.ghost.get('num_sites_used', [])

    def r(o):
        mr = o.attrs['max_range']
        return o.attrs['L'] if (mr is None or mr is INF) else mr
    a = env['self'].attrs['L'] + 2 * r(env['self'])
    b = env['other'].attrs['L'] + 2 * r(env['other'])
    exp = z3.If(a >= b, a, b)
    if not used or any(not isinstance(u, (int, z3.ExprRef)) for u in used):
        ok = z3.BoolVal(False)      # e.g. num_sites = inf
    else:
        ok = z3.And(*[u == exp for u in used])
    I.frames[-1].locals['num_sites_ok'] = ok
    return res
