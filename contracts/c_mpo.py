"""C11: argument/range selection of MPO.overlap (no exception for unknown or infinite max_range)."""
import z3
from pyvc.contract import Contract, Int, Bool, Opaque, Obj, Const, OneOf
from pyvc.values import INF, Opq

MPO = 'tenpy/networks/mpo.py'


def _overlap_no_hc(I, f, args, kwargs):
    I.ghost.setdefault('num_sites_used', []).append(kwargs.get('num_sites', args[1] if len(args) > 1 else None))
    return z3.Real('ov_%d' % len(I.ghost['num_sites_used']))


def _mpo(name):
    return Obj('MPO', MPO, {'bc': Const('infinite'), 'L': Int(), 'max_range': OneOf(None, INF, Int()),
                            'explicit_plus_hc': Const(False)})


def _post_setup(I, env):
    for nm in ('self', 'other'):
        mr = env[nm].attrs['max_range']
        if isinstance(mr, z3.ExprRef):
            I.assume(mr >= 0)


def _replay(m, ghost):
    def run():
        import warnings
        import numpy as np
        from tenpy.models.tf_ising import TFIChain
        warnings.simplefilter('ignore')
        M = TFIChain({'L': 2, 'J': 1., 'g': 0.5, 'bc_MPS': 'infinite'})
        A, B = M.H_MPO.copy(), M.H_MPO.copy()
        B.max_range = None
        try:
            A.overlap(B, understood_infinite=True)
        except TypeError as e:
            return False, f'overlap of two infinite MPOs with other.max_range=None raised TypeError: {e}'
        return True, 'ok'
    return {'input': 'infinite TFIChain H_MPO, other.max_range = None', 'run': run}


Contract(target=f'{MPO}::MPO.overlap', props=['C11'], name='MPO.overlap[infinite, num_sites=None]',
         params={'self': _mpo('self'), 'other': _mpo('other'), 'understood_infinite': Const(True), 'num_sites': Const(None)},
         setup=_post_setup,
         requires=['self.L >= 1 and other.L >= 1'],
         hooks={f'{MPO}::MPO._overlap_no_hc': _overlap_no_hc},
         # raises nothing for max_range in {None, inf}; documented default of num_sites
         ensures=['num_sites_ok'],
         call=lambda I, env: _call(I, env),
         replay=_replay)


def _call(I, env):
    from pyvc.interp import FuncVal
    from pyvc import source
    mod, cls, fn = source.locate(f'{MPO}::MPO.overlap')
    res = I.call_function(FuncVal(mod, fn, self_obj=env['self'], cls='MPO'), [env['other']],
                          {'understood_infinite': True, 'num_sites': None})
    used = I.ghost.get('num_sites_used', [])

    def r(o):
        mr = o.attrs['max_range']
        return o.attrs['L'] if (mr is None or mr is INF) else mr
    a = env['self'].attrs['L'] + 2 * r(env['self'])
    b = env['other'].attrs['L'] + 2 * r(env['other'])
    exp = z3.If(a >= b, a, b)
    if not used or any(not isinstance(u, (int, z3.ExprRef)) for u in used):
        ok = z3.BoolVal(False)      # e.g. num_sites = inf
    else:
        ok = z3.And(*[u == exp for u in used])
    I.frames[-1].locals['num_sites_ok'] = ok
    return res


# ---------------------------------------------------------------------------------------------------------------
# MPO.is_equal / is_hermitian: which window of sites is compared.  All three overlaps use one num_sites: L for finite MPOs; for
# infinite ones L + 2*max_range with the max_range *argument* if it is a finite number, else the MPO's own max_range if that is a
# finite number, else L ("None defaults to max_range (or L in case this is infinite or None)").  The verdict is the documented
# comparison of those overlaps.  overlap() itself is abstract here (its argument handling is under contract above).
_OV = z3.Function('overlap_value', z3.IntSort(), z3.IntSort(), z3.IntSort(), z3.RealSort())     # (id of a, id of b, num_sites)


def _eq_setup(I, env):
    for k, nm in enumerate(('self', 'other')):
        env[nm].attrs['uid'] = k
        mr = env[nm].attrs['max_range']
        if isinstance(mr, z3.ExprRef):
            I.assume(mr >= 0)
    if isinstance(env['max_range'], z3.ExprRef):
        I.assume(env['max_range'] >= 0)
    env['self'].attrs['finite'] = env['self'].attrs['bc'] == 'finite'
    I.ghost['windows'] = []

    def ov(I_, a, b, n):
        from pyvc.values import to_z3
        return _OV(a, b, to_z3(n))
    B = __import__('pyvc.interp', fromlist=['Builtin']).Builtin
    I.ghost['__env__'] = {'ov': B(ov, 'ov'), 'is_number': B(lambda I_, x: not (x is None or x is INF), 'is_number')}


def _overlap_hook(I, f, args, kwargs):
    from pyvc.values import to_z3
    n = kwargs.get('num_sites')
    I.ghost['windows'].append(n)
    if not isinstance(n, (int, z3.ExprRef)):
        from pyvc.interp import Unsupported
        raise Unsupported('overlap called with a non-integer num_sites')
    return _OV(f.self_obj.attrs['uid'], args[0].attrs['uid'], to_z3(n))


def _mpo_eq(bc):
    return Obj('MPO', MPO, {'bc': Const(bc), 'L': Int(), 'max_range': OneOf(None, INF, Int()), 'explicit_plus_hc': Const(False)})


_N_DOC = ('ite(self.bc == "finite", self.L, '
          'ite(is_number(max_range), self.L + 2 * max_range, '
          'ite(is_number(self.max_range), self.L + 2 * self.max_range, self.L + 2 * self.L)))')


def _eq_hunt():
    """witness on real infinite MPOs that differ only by a term of range 3: equal on the default window of the short one,
    different on a window that contains the long term"""
    import warnings
    warnings.simplefilter('ignore')
    from tenpy.networks.site import SpinHalfSite
    from tenpy.networks.terms import TermList
    from tenpy.networks.mpo import MPOGraph
    s = SpinHalfSite('Sz')
    sites = [s] * 2

    def build(terms, strengths):
        g = MPOGraph.from_term_list(TermList(terms, strengths), sites, 'infinite')
        return g.build_MPO()
    short = build([[('Sz', 0), ('Sz', 1)], [('Sz', 1), ('Sz', 2)]], [1., 1.])
    long_ = build([[('Sz', 0), ('Sz', 1)], [('Sz', 1), ('Sz', 2)], [('Sz', 0), ('Sz', 5)]], [1., 1., 0.5])
    for a, b, mr, expect in ((short, long_, 6, False), (long_, short, 6, False), (short, short.copy(), 6, True), (short, long_, None, None)):
        got = a.is_equal(b, max_range=mr)
        if expect is not None and bool(got) != expect:
            return {'input': {'self': 'SzSz chain' + (' + 0.5 Sz_0 Sz_5' if a is long_ else ''), 'other': 'SzSz chain' + (' + 0.5 Sz_0 Sz_5' if b is long_ else ''),
                              'max_range': mr, 'self.max_range': a.max_range},
                    'observed': f'is_equal -> {bool(got)}, the operators are {"equal" if expect else "different"} on that window'}
    return None


for _bc in ('finite', 'infinite'):
    Contract(target=f'{MPO}::MPO.is_equal', props=['C11'], name=f'MPO.is_equal[{_bc}]',
             params={'self': _mpo_eq(_bc), 'other': _mpo_eq(_bc), 'eps': z3.RealVal('1e-10') if False else __import__('pyvc.contract', fromlist=['Real']).Real(),
                     'max_range': OneOf(None, INF, Int())},
             setup=_eq_setup, hunt=_eq_hunt,
             hooks={f'{MPO}::MPO.overlap': _overlap_hook, 'module:numpy.real': lambda I, x: x},
             requires=['self.L >= 1 and eps > 0'],
             ensures=['result == (abs(ov(0, 0, ' + _N_DOC + ') - 2 * ov(0, 1, ' + _N_DOC + ') + ov(1, 1, ' + _N_DOC + ')) < '
                      'eps * abs(ov(0, 0, ' + _N_DOC + ') + ov(1, 1, ' + _N_DOC + ')))'])
