"""C08 / C11 / C13: BaseEnvironment.get_LP / get_RP build the requested environment from the nearest stored one,
absorbing exactly the sites in between, in order, and keep the cache consistent - finite and infinite MPS, every L.

Ghost model: an environment tensor is represented by the absolute site index up to which it is contracted
(LP covering all sites < h is the integer h; RP covering all sites > h is the integer h).  The assumed leaves:
`_contract_LP(j, LP)` absorbs site j (obligation: LP covers exactly the sites < j) and `shift_Array_unit_cells(T, n)`
translates by n unit cells.  The cache maps the key of LP[j] (represented by j, 0 <= j < L) to the stored value;
representation invariant: a stored LP[j] covers exactly the sites < j.  `i % L`, `i // L` with symbolic L run in the
uninterpreted-mod mode (defining property per computed term; lemma mod_small proved in the run).
Clause text:  result covers exactly the sites < i (resp. > i);  with store=True the invariant is kept, nothing is
dropped from the cache and LP[i] is stored afterwards;  with store=False the cache is unchanged;
ValueError iff no stored environment lies within one unit cell (finite MPS with LP[0] stored: never).
"""
import z3

from pyvc.contract import Contract, Int, Bool, Obj, Const, OneOf, Map, List
from pyvc.interp import Builtin, Interp
from pyvc.values import SObj, to_z3

MPS = 'tenpy/networks/mps.py'
M = Interp.MODU


def _setup(I, env):
    I.ghost['uninterpreted_mod'] = True
    s = env['self']
    L = s.attrs['L']

    def keys(offset, what):
        def key_at(I_, idx):
            zi = to_z3(idx)
            I_.oblige('key-index-in-range', z3.And(0 <= zi, zi < to_z3(L)), {'clause': f'{what} is indexed within [0, L)'})
            return 2 * zi + offset          # keys of the two families never collide
        return SObj('GhostKeys', None, {'__getitem__': Builtin(key_at, f'{what}[i]')})
    s.attrs['_LP_keys'] = keys(0, '_LP_keys')
    s.attrs['_RP_keys'] = keys(1, '_RP_keys')
    dom = lambda: s.attrs['cache'].dom
    I.ghost['__env__'] = {'hasL': Builtin(lambda I2, t: z3.Select(dom(), 2 * M(to_z3(t), to_z3(L))), 'hasL'),
                          'hasR': Builtin(lambda I2, t: z3.Select(dom(), 2 * M(to_z3(t), to_z3(L)) + 1), 'hasR')}


def _contract_LP(I, f, args, kwargs):
    j, LP = args
    I.oblige('contract_LP-absorbs-the-next-site', to_z3(LP) == to_z3(j), {'clause': '_contract_LP(j, LP) is called with LP covering exactly the sites < j'})
    return to_z3(j) + 1


def _contract_RP(I, f, args, kwargs):
    j, RP = args
    I.oblige('contract_RP-absorbs-the-next-site', to_z3(RP) == to_z3(j), {'clause': '_contract_RP(j, RP) is called with RP covering exactly the sites > j'})
    return to_z3(j) - 1


def _shift(I, f, args, kwargs):
    T, n = args[0], args[1]
    return to_z3(T) + to_z3(n) * to_z3(f.self_obj.attrs['L'])


_HOOKS = {f'{MPS}::BaseEnvironment._contract_LP': _contract_LP, f'{MPS}::BaseEnvironment._contract_RP': _contract_RP,
          f'{MPS}::MPSGeometry.shift_Array_unit_cells': _shift, f'{MPS}::BaseEnvironment.shift_Array_unit_cells': _shift}


def _env(bc):
    return Obj('BaseEnvironment', MPS, {'L': Int(), 'bc': Const(bc), '_valid_bc': Const(('finite', 'infinite', 'segment')),
                                        'cache': Map('int', 'int'), '_LP_age': List('int'), '_RP_age': List('int')})


# representation invariant: a stored LP[j] covers exactly the sites < j, a stored RP[j] exactly the sites > j
_REP = ('forall(0, self.L, lambda j: implies((2 * j) in self.cache, self.cache[2 * j] == j) and '
        'implies((2 * j + 1) in self.cache, self.cache[2 * j + 1] == j))')
_KEEPS = 'forall(0, 2 * self.L, lambda k: implies(k in old(self.cache), k in self.cache))'
_SAME_DOM = 'forall(0, 2 * self.L, lambda k: (k in self.cache) == (k in old(self.cache)))'
_OTHER = {'L': 'forall(0, self.L, lambda j: ((2 * j + 1) in self.cache) == ((2 * j + 1) in old(self.cache)))',
          'R': 'forall(0, self.L, lambda j: ((2 * j) in self.cache) == ((2 * j) in old(self.cache)))'}

for bc in ('finite', 'infinite'):
    for store in (True, False):
        fin = bc == 'finite'
        Contract(
            target=f'{MPS}::BaseEnvironment.get_LP', props=['C08', 'C11', 'C13'], name=f'BaseEnvironment.get_LP[{bc}, store={store}]',
            params={'self': _env(bc), 'i': Int(), 'store': Const(store)},
            setup=_setup, hooks=_HOOKS,
            requires=['self.L >= 1 and len(self._LP_age) == self.L', _REP] +
                     (['0 <= i < self.L and (0 in self.cache)'] if fin else []),
            lemmas=(['mod_small(0, self.L)'] if fin else []),
            raises={} if fin else {'ValueError': 'forall(i - self.L + 1, i + 1, lambda t: not hasL(t))'},
            ensures=['result == i',                                           # covers exactly the sites < i
                     _REP, _KEEPS, _OTHER['L']] + (['hasL(i)'] if store else [_SAME_DOM]),
            loops={0: {'inv': ['self.L == old(self.L)', 'forall(i - _i + 1, i + 1, lambda t: not hasL(t))'],
                       'lemmas': (['mod_small(0, self.L)'] if fin else []), 'frame': {'self': []}},
                   1: {'inv': ['self.L == old(self.L) and LP == i0 + _i and i0 <= i', _REP, _KEEPS, _OTHER['L'],
                               'len(self._LP_age) == self.L'] +
                              (['implies(_i > 0, hasL(i0 + _i))'] if store else [_SAME_DOM]) +
                              (['0 <= i0'] if fin else []),
                       'frame': {'self': ['cache', '_LP_age']}}},
        )
        Contract(
            target=f'{MPS}::BaseEnvironment.get_RP', props=['C08', 'C11', 'C13'], name=f'BaseEnvironment.get_RP[{bc}, store={store}]',
            params={'self': _env(bc), 'i': Int(), 'store': Const(store)},
            setup=_setup, hooks=_HOOKS,
            requires=['self.L >= 1 and len(self._RP_age) == self.L', _REP] +
                     (['0 <= i < self.L and ((2 * (self.L - 1) + 1) in self.cache)'] if fin else []),
            lemmas=(['mod_small(self.L - 1, self.L)'] if fin else []),
            raises={} if fin else {'ValueError': 'forall(i, i + self.L, lambda t: not hasR(t))'},
            ensures=['result == i',                                           # covers exactly the sites > i
                     _REP, _KEEPS, _OTHER['R']] + (['hasR(i)'] if store else [_SAME_DOM]),
            loops={0: {'inv': ['self.L == old(self.L)', 'forall(i, i + _i, lambda t: not hasR(t))'],
                       'lemmas': (['mod_small(self.L - 1, self.L)'] if fin else []), 'frame': {'self': []}},
                   1: {'inv': ['self.L == old(self.L) and RP == i0 - _i and i <= i0', _REP, _KEEPS, _OTHER['R'],
                               'len(self._RP_age) == self.L'] +
                              (['implies(_i > 0, hasR(i0 - _i))'] if store else [_SAME_DOM]) +
                              (['i0 <= self.L - 1'] if fin else []),
                       'frame': {'self': ['cache', '_RP_age']}}},
        )
