"""C19: Lattice.mps2lat_idx / Lattice.lat2mps_idx - the periodic extension of the index maps beyond the MPS unit cell.

For bc_MPS 'infinite' (and 'segment') an MPS index i = q * N_sites + r (0 <= r < N_sites) is the site `order[r]` moved by q
unit cells, i.e. x_0 shifted by q * N_rings; `lat2mps_idx` has to undo exactly that.  The two contracts are written so that
the postcondition of `mps2lat_idx` is, clause by clause, the precondition of `lat2mps_idx` (ghost parameters q, r):

    mps2lat_idx:  i == q*N_sites + r           ==>  result == (order[r][0] + q*N_rings, order[r][1], ..., order[r][D])
    lat2mps_idx:  lat_idx == (order[r][0] + q*N_rings, order[r][1], ...)   ==>  result == q*N_sites + r

hence lat2mps_idx(mps2lat_idx(i)) == i for every integer i (for 'finite': every 0 <= i < N_sites).  The other composition
follows by counting inside one unit cell (both sets have N_sites elements) and is not a discharged obligation.
Both results are fresh arrays: `order` (a ghost read-only table here: a write through a row view is a failed obligation) and
the argument `lat_idx` are left alone.

Ghost model / assumptions.  `self.order` is a ghost 2-D table ord(r, k) readable for 0 <= r < N_sites only (reading outside
is an obligation failure: numpy would wrap negative indices silently).  Rows are 1-D arrays of concrete length D + 1,
D in {1, 2} (one contract instance each).  The representation invariant that the `order` setter establishes with
`np.lexsort` is *assumed* as precondition of lat2mps_idx: 0 <= order[r][k] < shape[k] and
_perm[sum_k order[r][k] * _strides[k]] == r; shape[0] == N_rings as set by `_set_Ls`.  numpy enters through assumed
contracts: np.mod (elementwise Python modulo), np.sum(axis=-1) of a 1-D array, np.take(a, i) == a[i] for 0 <= i < len(a),
np.any of a scalar comparison, `a[..., k]` == `a[k]` for 1-D.  `%` and `//` with the symbolic N_sites / N_rings are
uninterpreted with their defining property per computed term; the uniqueness of division with remainder (`mod_qr`) and
`mod_small` are proved in the same run.
"""
import ast

import z3

from pyvc.contract import Contract, Int, Obj, Const, NpArr
from pyvc.interp import Builtin, Interp, Unsupported, PyRaise
from pyvc.values import SObj, SArr, to_z3

LAT = 'tenpy/models/lattice.py'
ORD = z3.Function('order_entry', z3.IntSort(), z3.IntSort(), z3.IntSort())


def _row(I, zs):
    return I.list_to_arr(list(zs), 'int', np=True)


def _np_mod(I, a, b):
    I.trusted.add('np.mod (elementwise Python modulo, 1-D, equal lengths)')
    if isinstance(a, SArr):
        n = a.n if isinstance(a.n, int) else None
        if n is None or not isinstance(b, (tuple, list)) or len(b) != n:
            raise Unsupported('np.mod on arrays: only a 1-D array of concrete length against a tuple of the same length')
        return _row(I, [I.binop(ast.Mod(), z3.Select(a.leaves[0], k), b[k]) for k in range(n)])
    return I.binop(ast.Mod(), a, b)


def _np_sum(I, a, axis=None):
    I.trusted.add('np.sum(axis=-1) of a 1-D array of concrete length')
    if not (isinstance(a, SArr) and isinstance(a.n, int)) or axis not in (None, -1, 0):
        raise Unsupported('np.sum: only 1-D arrays of concrete length')
    tot = z3.IntVal(0)
    for k in range(a.n):
        tot = tot + z3.Select(a.leaves[0], k)
    return z3.simplify(tot)


def _np_take(I, a, i):
    I.trusted.add('np.take(a, i) == a[i] for a scalar i')
    zi = to_z3(i)
    if I.branch(z3.Or(zi < 0, zi >= to_z3(a.n))):
        raise PyRaise('IndexError')        # np.take (mode='raise') wraps negative indices; they are treated as errors here
    return z3.Select(a.leaves[0], zi)


def _asvalid(I, f, args, kwargs):
    # Lattice._asvalid_latidx: np.asarray (no copy for an array) + check of the last dimension
    I.trusted.add('_asvalid_latidx returns its array argument (np.asarray of an intp array is the same object)')
    return args[0]


_HOOKS = {'module:numpy.mod': _np_mod, 'module:numpy.sum': _np_sum, 'module:numpy.take': _np_take,
          f'{LAT}::Lattice._asvalid_latidx': _asvalid}


def _setup(D):
    def setup(I, env):
        I.ghost['uninterpreted_mod'] = True
        s = env['self']
        N = s.attrs['N_sites']

        def row_at(I_, idx):
            zi = to_z3(idx)
            I_.oblige('order-row-in-range', z3.And(0 <= zi, zi < to_z3(N)), {'clause': 'order[i] is read for 0 <= i < N_sites only'})
            k = z3.Int('k!row')
            r = SArr(D + 1, [z3.Lambda([k], ORD(zi, k))], 'int', True)
            r.view_of = 'ghost:order'           # numpy basic indexing returns a view: a write through it would change `order`
            return r
        s.attrs['_order'] = SObj('GhostOrder', None, {'__getitem__': Builtin(row_at, 'order[i]')})
        # shape = Ls + (len(unit_cell),) with Ls[0] == N_rings (Lattice._set_Ls)
        s.attrs['shape'] = (s.attrs['N_rings'],) + tuple(z3.Int(f'shape{k}') for k in range(1, D + 1))
        I.ghost['__env__'] = {'ord': Builtin(lambda I2, r, k: ORD(to_z3(r), to_z3(k)), 'ord')}
    return setup


def _lat(bc, D):
    return Obj('Lattice', LAT, {'bc_MPS': Const(bc), 'N_sites': Int(), 'N_rings': Int(),
                                '_strides': NpArr('int', n=D + 1), '_perm': NpArr('int')})


def _hunt():
    """witness hunt on the real functions: both compositions on small lattices, all orders, far outside the unit cell"""
    import numpy as np
    from tenpy.models import lattice
    from tenpy.networks.site import SpinHalfSite
    s = SpinHalfSite(None)
    for cls, Ls in ((lattice.Chain, (3,)), (lattice.Ladder, (3,)), (lattice.Square, (2, 3)), (lattice.Honeycomb, (2, 2)), (lattice.Kagome, (2, 2))):
        for order in ('default', 'Cstyle', 'Fstyle', 'snake'):
            for bc in ('finite', 'infinite', 'segment'):
                try:
                    lat = cls(*Ls, s, order=order, bc_MPS=bc, bc='periodic' if bc == 'infinite' else 'open')
                except Exception:
                    continue
                N = lat.N_sites
                rng = range(N) if bc == 'finite' else range(-3 * N, 3 * N + 1)
                for i in rng:
                    before = lat.order.copy()
                    li = lat.mps2lat_idx(i)
                    q, r = divmod(i, N)
                    exp = lat.order[r].copy()
                    exp[0] += q * lat.N_rings
                    back = lat.lat2mps_idx(li)
                    if not (np.array_equal(li, exp) and back == i and np.array_equal(before, lat.order)):
                        return {'input': {'lattice': f'{cls.__name__}{Ls}', 'order': order, 'bc_MPS': bc, 'i': i},
                                'observed': f'mps2lat_idx -> {li.tolist()} (expected {exp.tolist()}), lat2mps_idx -> {back}'}
    return None


for D in (1, 2):
    ROWS = range(D + 1)
    _IS_SPEC = ['len(lat_idx) == %d' % (D + 1), 'lat_idx[0] == ord(r, 0) + q * self.N_rings'] + \
               [f'lat_idx[{k}] == ord(r, {k})' for k in range(1, D + 1)]
    _FLAT = ' + '.join(f'ord(r, {k}) * self._strides[{k}]' for k in ROWS)
    # representation invariant of the `order` setter (np.lexsort), instance for row r
    _REP = [f'0 <= ord(r, {k}) < self.shape[{k}]' for k in ROWS] + \
           [f'0 <= {_FLAT} < len(self._perm)', f'self._perm[{_FLAT}] == r']
    _SMALL = [f'mod_small(ord(r, {k}), self.shape[{k}])' for k in ROWS]
    for bc in ('infinite', 'segment', 'finite'):
        inf = bc != 'finite'
        Contract(
            target=f'{LAT}::Lattice.mps2lat_idx', props=['C19'], name=f'Lattice.mps2lat_idx[{bc}, dim={D}]', hunt=_hunt,
            params={'self': _lat(bc, D), 'i': Int(), 'q': Int(), 'r': Int()}, setup=_setup(D), hooks=_HOOKS,
            requires=['self.N_sites >= 1 and self.N_rings >= 1', 'i == q * self.N_sites + r and 0 <= r < self.N_sites'] +
                     ([] if inf else ['q == 0']),
            lemmas=(['mod_qr(i, q, r, self.N_sites)', 'mod_qr((i - r) * self.N_rings, q * self.N_rings, 0, self.N_sites)'] if inf else []),
            ensures=['len(result) == %d' % (D + 1), 'result[0] == ord(r, 0) + q * self.N_rings'] +
                    [f'result[{k}] == ord(r, {k})' for k in range(1, D + 1)],
        )
        Contract(
            target=f'{LAT}::Lattice.lat2mps_idx', props=['C19'], name=f'Lattice.lat2mps_idx[{bc}, dim={D}]', hunt=_hunt,
            params={'self': _lat(bc, D), 'lat_idx': NpArr('int', n=D + 1), 'q': Int(), 'r': Int()}, setup=_setup(D), hooks=_HOOKS,
            requires=['self.N_sites >= 1 and self.N_rings >= 1', '0 <= r < self.N_sites'] + _IS_SPEC + _REP + ([] if inf else ['q == 0']),
            lemmas=_SMALL + (['mod_qr(lat_idx[0], q, ord(r, 0), self.N_rings)',
                              'mod_qr((lat_idx[0] - ord(r, 0)) * self.N_sites, q * self.N_sites, 0, self.N_rings)'] if inf else []),
            ensures=['result == q * self.N_sites + r',
                     # the argument is not written to
                     'forall(0, %d, lambda k: lat_idx[k] == old(lat_idx)[k])' % (D + 1)],
        )
