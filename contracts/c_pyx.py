"""C04: the compiled kernels against the *same* specification as their pure-Python counterparts.

The functions below are cut out of tenpy/linalg/_npc_helper.pyx on every run by `pyvc/pyx.py` (mechanical, line-based;
what it drops is listed per function in the evidence) and executed symbolically with C semantics for `%` under
cdivision(True) and no index wrap-around under wraparound(False).  Each carries the clause text of the contract that the
pure-Python fallback (tenpy/linalg/charges.py, np_conserved.py) is proved against in c_linalg_small.py, so that
"compiled and pure-Python kernels are observationally equivalent" holds for these kernels because both refine one
specification - for every input, not for sampled ones.

Assumed (not proved): Cython compiles the remaining Python-like body with Python semantics; C integers do not overflow;
typed memoryview / buffer element access is plain element access; `_np_empty_1D(n, t)` returns an uninitialised array
of length n; std::vector::push_back appends a copy.
"""
from pyvc.contract import Contract, Int, Bool, List, NpArr, Obj, Const
from pyvc import builtins_model

PYX = 'tenpy/linalg/_npc_helper.pyx'


def _hunt(kind):
    """witness hunt on the compiled kernel: child process over an overlay whose extension is built from the current .pyx"""
    def run():
        import json, os, shutil, subprocess
        from vcheck import overlay
        ov = overlay.make_overlay()
        try:
            env = dict(os.environ, PYTHONPATH=ov)
            env.pop('TENPY_NO_CYTHON', None)
            p = subprocess.run([overlay.PY, os.path.join(os.path.dirname(__file__), 'pyx_hunt_child.py'), kind],
                               env=env, capture_output=True, text=True, timeout=600)
            if p.returncode != 0:
                raise RuntimeError(p.stderr[-400:])
            return json.loads(p.stdout.strip().splitlines()[-1])
        finally:
            shutil.rmtree(ov, ignore_errors=True)
    return run


def _np_empty_1D(I, n, type_=None):
    return builtins_model.np_empty(I, [n])


_ALLOC = {'global:_np_empty_1D': _np_empty_1D, 'global:intp_num': 0, 'global:QTYPE_num': 0}

Contract(
    target=f'{PYX}::_make_stride', props=['C04', 'C06'], name='pyx:_make_stride[C]', hunt=_hunt('_make_stride'),
    params={'shape': List('int'), 'cstyle': Const(1)},
    requires=['len(shape) >= 1'],
    hooks=_ALLOC,
    ensures=['len(result) == len(shape)', 'result[len(shape) - 1] == 1',
             'forall(0, len(shape) - 1, lambda a: result[a] == result[a + 1] * shape[a + 1])'],
    loops={0: {'inv': ['L == len(shape) and len(res) == L',
                       'res[L - 1] == 1', 'stride == res[L - 1 - _i]',
                       'forall(L - 1 - _i, L - 1, lambda a: res[a] == res[a + 1] * shape[a + 1])']}},
)

Contract(
    target=f'{PYX}::_make_stride', props=['C04', 'C06'], name='pyx:_make_stride[F]', hunt=_hunt('_make_stride'),
    params={'shape': List('int'), 'cstyle': Const(0)},
    requires=['len(shape) >= 1'],
    hooks=_ALLOC,
    ensures=['len(result) == len(shape)', 'result[0] == 1',
             'forall(1, len(shape), lambda a: result[a] == result[a - 1] * shape[a - 1])'],
    loops={1: {'inv': ['L == len(shape) and len(res) == L', 'res[0] == 1', 'stride == res[_i]',
                       'forall(1, _i + 1, lambda a: res[a] == res[a - 1] * shape[a - 1])']}},
)

# the compiled replacement of np_conserved._iter_common_sorted: same three clauses (sound, ordered, complete)
# over the windows [i_start, i_stop) x [j_start, j_stop), plus the returned count and the frame of `out`
Contract(
    target=f'{PYX}::_iter_common_sorted_push', props=['C04', 'C01'], name='pyx:_iter_common_sorted_push', hunt=_hunt('_iter_common_sorted_push'),
    params={'a': NpArr('int'), 'i_start': Int(), 'i_stop': Int(), 'b': NpArr('int'), 'j_start': Int(), 'j_stop': Int(),
            'out': List(('tuple', ['int', 'int'], None))},
    requires=['0 <= i_start <= i_stop <= len(a) and 0 <= j_start <= j_stop <= len(b)',
              'forall2(i_start, i_stop, lambda p, q: implies(p < q, a[p] < a[q]))',
              'forall2(j_start, j_stop, lambda p, q: implies(p < q, b[p] < b[q]))'],
    ensures=[
        'result >= 0 and len(out) == old(len(out)) + result',
        'forall(0, old(len(out)), lambda k: out[k][0] == old(out)[k][0] and out[k][1] == old(out)[k][1])',
        'forall(old(len(out)), len(out), lambda k: i_start <= out[k][0] < i_stop and j_start <= out[k][1] < j_stop '
        'and a[out[k][0]] == b[out[k][1]])',
        'forall(old(len(out)), len(out) - 1, lambda k: out[k][0] < out[k + 1][0] and out[k][1] < out[k + 1][1])',
        'forall(i_start, i_stop, lambda p: forall(j_start, j_stop, lambda q: implies(a[p] == b[q], '
        'exists(old(len(out)), len(out), lambda k: out[k][0] == p and out[k][1] == q))))',
    ],
    loops={0: {
        'inv': [
            'i_start <= i <= i_stop and j_start <= j <= j_stop and count >= 0 and len(out) == old(len(out)) + count',
            'forall(0, old(len(out)), lambda k: out[k][0] == old(out)[k][0] and out[k][1] == old(out)[k][1])',
            'forall(old(len(out)), len(out), lambda k: i_start <= out[k][0] < i and j_start <= out[k][1] < j '
            'and a[out[k][0]] == b[out[k][1]])',
            'forall(old(len(out)), len(out) - 1, lambda k: out[k][0] < out[k + 1][0] and out[k][1] < out[k + 1][1])',
            'forall(i_start, i_stop, lambda p: forall(j_start, j_stop, lambda q: implies(a[p] == b[q] and (p < i or q < j), '
            'exists(old(len(out)), len(out), lambda k: out[k][0] == p and out[k][1] == q))))',
            'forall(i_start, i, lambda p: implies(j < j_stop, a[p] < b[j]))',
            'forall(j_start, j, lambda q: implies(i < i_stop, b[q] < a[i]))',
        ],
        'decreases': '(i_stop - i) + (j_stop - j)',
    }},
)

# `ChargeInfo.make_valid` semantics (numpy: np.mod with the sign of the divisor) from C's remainder + correction
Contract(
    target=f'{PYX}::_make_valid_charges_1D', props=['C04', 'C02'], name='pyx:_make_valid_charges_1D', hunt=_hunt('_make_valid_charges_1D'),
    params={'chinfo_mod': NpArr('int'), 'charges': NpArr('int')},
    requires=['len(charges) == len(chinfo_mod)', 'forall(0, len(chinfo_mod), lambda j: chinfo_mod[j] >= 1)'],
    hooks={},
    ensures=['len(charges) == old(len(charges))',
             'forall(0, len(charges), lambda j: charges[j] == ite(chinfo_mod[j] == 1, old(charges)[j], old(charges)[j] % chinfo_mod[j]))',
             'forall(0, len(charges), lambda j: implies(chinfo_mod[j] != 1, 0 <= charges[j] < chinfo_mod[j]))'],
    loops={0: {'inv': ['qnumber == len(chinfo_mod) and len(charges) == old(len(charges))',
                       'forall(0, _i, lambda j: charges[j] == ite(chinfo_mod[j] == 1, old(charges)[j], old(charges)[j] % chinfo_mod[j]))',
                       'forall(_i, qnumber, lambda j: charges[j] == old(charges)[j])'],
               'lemmas_pres': ['cmod_python(old(charges)[_i - 1], chinfo_mod[_i - 1])']}},
)

# "Equivalent to np.concatenate([np.ones(s, np.intp)*i for i, s in enumerate(blocksizes)])": stated through block offsets
# (block i occupies exactly the entries [sum(blocksizes[:i]), sum(blocksizes[:i+1])) and they hold i; the blocks tile the result)
Contract(
    target=f'{PYX}::_map_blocks', props=['C04', 'C06'], name='pyx:_map_blocks', hunt=_hunt('_map_blocks'),
    params={'blocksizes': NpArr('int')},
    requires=['forall(0, len(blocksizes), lambda i: blocksizes[i] >= 0)'],
    hooks=_ALLOC,
    ensures=['len(result) == ssum(blocksizes, 0, len(blocksizes))',
             'forall(0, len(blocksizes), lambda i: forall(ssum(blocksizes, 0, i), ssum(blocksizes, 0, i + 1), lambda k: result[k] == i))'],
    loops={0: {'inv': ['len_blocksizes == len(blocksizes)', 'total_size == ssum(blocksizes, 0, _i)'],
               'lemmas': ['sum_unfold(blocksizes, 0, 0)'],
               'lemmas_pres': ['sum_unfold(blocksizes, 0, _i)']},
           1: {'inv': ['len_blocksizes == len(blocksizes) and len(result) == total_size and total_size == ssum(blocksizes, 0, len_blocksizes)',
                       's == ssum(blocksizes, 0, _i)',
                       # end offsets of the finished blocks lie below the write cursor
                       'forall(0, _i, lambda i2: ssum(blocksizes, 0, i2 + 1) <= s)',
                       'forall(0, _i + 1, lambda i2: ssum(blocksizes, 0, i2) >= 0)',
                       'forall(0, _i, lambda i2: forall(ssum(blocksizes, 0, i2), ssum(blocksizes, 0, i2 + 1), lambda k: result[k] == i2))'],
               'lemmas': ['sum_unfold(blocksizes, 0, 0)'],
               'lemmas_pres': ['sum_unfold(blocksizes, 0, _i)']},
           2: {'inv': ['len(result) == total_size and N == blocksizes[i] and s == ssum(blocksizes, 0, i) and 0 <= i < len_blocksizes',
                       'len_blocksizes == len(blocksizes) and s + N <= len(result) and s >= 0',
                       'forall(s, s + _i, lambda k: result[k] == i)',
                       'forall(0, i, lambda i2: ssum(blocksizes, 0, i2 + 1) <= s)',
                       'forall(0, i + 1, lambda i2: ssum(blocksizes, 0, i2) >= 0)',
                       'forall(0, i, lambda i2: forall(ssum(blocksizes, 0, i2), ssum(blocksizes, 0, i2 + 1), lambda k: result[k] == i2))'],
               'lemmas': ['sum_unfold(blocksizes, 0, i + 1)', 'sum_mono(blocksizes, 0, i + 1, len_blocksizes)',
                          'sum_mono(blocksizes, 0, 0, i)', 'sum_unfold(blocksizes, 0, 0)']}},
)


# ---------------------------------------------------------------------------------------------------------------
# _find_row_differences (compiled): "[0] + [i for i in range(1, L) if rows i-1 and i differ] + [L]" for every L >= 1
# and every number of columns; [0, L] without columns; [0] without rows.  The 2-D buffer is a ghost container
# (uninterpreted Q(i, j)); every access is obliged to lie inside the buffer (boundscheck(False)).
import z3 as _z3
from pyvc.interp import Builtin as _Builtin
from pyvc.values import SObj as _SObj, to_z3 as _t

_Q = _z3.Function('qflat!elem', _z3.IntSort(), _z3.IntSort(), _z3.IntSort())


def _frd_setup(I, env):
    L, M = _z3.Int('rows'), _z3.Int('cols')
    I.assume(_z3.And(L >= 0, M >= 0))

    def getitem(I_, idx):
        i, j = idx
        zi, zj = _t(i), _t(j)
        if not I_.spec_mode:
            I_.oblige('buffer-access-in-range', _z3.And(0 <= zi, zi < L, 0 <= zj, zj < M), {'clause': 'qflat_c[i, j] lies inside the (rows x cols) buffer'})
        return _Q(zi, zj)
    env['qflat'] = _SObj('Ghost2D', None, {'shape': (L, M), '__getitem__': _Builtin(getitem, 'qflat[i, j]')})
    jj = _z3.Int('jj!rd')

    def rowdiff(I_, t):
        zt = _t(t)
        return _z3.Exists([jj], _z3.And(0 <= jj, jj < M, _Q(zt - 1, jj) != _Q(zt, jj)))
    I.ghost['__env__'] = {'rows': L, 'cols': M, 'rowdiff': _Builtin(rowdiff, 'rowdiff'),
                          'q': _Builtin(lambda I_, i, j: _Q(_t(i), _t(j)), 'q')}


Contract(
    target=f'{PYX}::_find_row_differences', props=['C04', 'C02', 'C06'], name='pyx:_find_row_differences',
    params={'qflat': Const(None)}, setup=_frd_setup,
    hooks=dict(_ALLOC, **{'global:np': builtins_model.module_model('numpy')}),     # the module-level `import numpy as np`
    ensures=[
        'implies(cols == 0, len(result) == 2 and result[0] == 0 and result[1] == rows)',
        'implies(cols > 0 and rows == 0, len(result) == 1 and result[0] == 0)',
        'implies(cols > 0 and rows > 0, len(result) >= 2 and result[0] == 0 and result[len(result) - 1] == rows)',
        'implies(cols > 0 and rows > 0, forall(0, len(result) - 1, lambda k: result[k] < result[k + 1]))',
        # every inner entry is a place where the rows change ...
        'implies(cols > 0 and rows > 0, forall(1, len(result) - 1, lambda k: 1 <= result[k] < rows and rowdiff(result[k])))',
        # ... and every such place is listed
        'implies(cols > 0 and rows > 0, forall(1, rows, lambda t: implies(rowdiff(t), exists(1, len(result) - 1, lambda k: result[k] == t))))',
    ],
    loops={0: {'inv': ['L == rows and M == cols and M > 0 and L > 0 and len(res) >= L + 1 and len(res) >= 2',
                       '1 <= n <= _i + 1 and res[0] == 0',
                       'forall(0, n - 1, lambda k: res[k] < res[k + 1])',
                       'forall(1, n, lambda k: 1 <= res[k] <= _i and rowdiff(res[k]))',
                       'forall(1, _i + 1, lambda t: implies(rowdiff(t), exists(1, n, lambda k: res[k] == t)))']},
           1: {'inv': ['M == cols and L == rows and 1 <= i < L', 'rows_equal', 'forall(0, _i, lambda c: q(i - 1, c) == q(i, c))']}},
)
