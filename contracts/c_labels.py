"""C01 / C03: leg-label bookkeeping of Array - the in-place label methods.

Labels are an ordered list, one entry (a string or None) per leg, without repeated strings.  The methods below rebind
`self._labels` to a *new* list (shallow copies of an Array share the list object: writing into it would relabel the other
tensor as well - C03), change exactly the addressed entries, and refuse - with ValueError, before anything is changed - what would
create a duplicate.  Labels are opaque values (U); the literal 'x' stands for an arbitrary new label (nothing in the code depends
on its spelling), integer leg indices follow numpy (negative from the end; get_leg_index is under contract in c_linalg_small).
"""
from pyvc.contract import Contract, Int, List, Obj, Const, OneOf

NPC = 'tenpy/linalg/np_conserved.py'
_ARR = Obj('Array', NPC, {'rank': Int(), '_labels': List('U')})


def _setup(I, env):
    I.ghost['__env__'] = {'labels0': env['self'].attrs['_labels']}      # the list object on entry (old() snapshots values)



def _hunt():
    """witness on real tensors: a shallow copy shares the label list - relabelling one must not relabel the other; the list passed to
    iset_leg_labels stays the caller's; duplicates are refused before anything changes"""
    import numpy as np
    import tenpy.linalg.np_conserved as npc
    a = npc.Array.from_ndarray_trivial(np.zeros((2, 3, 4)), labels=['a', None, 'c'])
    for name, act, expect in (
            ('ireplace_label(1, "x")', lambda t: t.ireplace_label(1, 'x'), ['a', 'x', 'c']),
            ('ireplace_label(-1, "x")', lambda t: t.ireplace_label(-1, 'x'), ['a', None, 'x']),
            ('ireplace_labels(["a", "c"], ["c", "a"])', lambda t: t.ireplace_labels(['a', 'c'], ['c', 'a']), ['c', None, 'a']),
            ('idrop_labels()', lambda t: t.idrop_labels(), [None, None, None]),
            ('idrop_labels(["c"])', lambda t: t.idrop_labels(['c']), ['a', None, None]),
            ('iset_leg_labels(["p", "q", None])', lambda t: t.iset_leg_labels(['p', 'q', None]), ['p', 'q', None])):
        t = a.copy(deep=False)
        act(t)
        if t.get_leg_labels() != expect or a.get_leg_labels() != ['a', None, 'c']:
            return {'input': {'labels': ['a', None, 'c'], 'call on a shallow copy': name},
                    'observed': f'copy has labels {t.get_leg_labels()} (documented {expect}), the original now {a.get_leg_labels()}'}
    mine = ['p', 'q', None]
    t = a.copy(deep=False).iset_leg_labels(mine)
    mine[0] = 'changed'
    if t.get_leg_labels() != ['p', 'q', None]:
        return {'input': {'call': 'iset_leg_labels(lst); lst[0] = "changed"'}, 'observed': f'labels of the tensor follow the list: {t.get_leg_labels()}'}
    for name, act in (('ireplace_label(1, "a")', lambda t: t.ireplace_label(1, 'a')), ('iset_leg_labels(["p", "p", None])', lambda t: t.iset_leg_labels(['p', 'p', None])),
                      ('iset_leg_labels(["p", ""  , None])', lambda t: t.iset_leg_labels(['p', '', None])), ('iset_leg_labels(["p"])', lambda t: t.iset_leg_labels(['p']))):
        t = a.copy(deep=False)
        try:
            act(t)
            return {'input': {'labels': ['a', None, 'c'], 'call': name}, 'observed': f'accepted: labels {t.get_leg_labels()}'}
        except ValueError:
            if t.get_leg_labels() != ['a', None, 'c']:
                return {'input': {'labels': ['a', None, 'c'], 'call': name}, 'observed': f'ValueError, but the labels are now {t.get_leg_labels()}'}
    return None


_IDX = 'ite(old_label < 0, old_label + self.rank, old_label)'
_UNTOUCHED_LIST = 'len(labels0) == self.rank and forall(0, self.rank, lambda k: labels0[k] == old(self._labels)[k])'

Contract(
    target=f'{NPC}::Array.ireplace_label', props=['C01', 'C03'], name='Array.ireplace_label[leg index]', setup=_setup, hunt=_hunt,
    params={'self': _ARR, 'old_label': Int(), 'new_label': Const('x')},
    requires=['self.rank >= 1 and len(self._labels) == self.rank'],
    raises={'ValueError': 'not (-self.rank <= old_label < self.rank) or '
                          'exists(0, self.rank, lambda k: k != ' + _IDX + ' and self._labels[k] == "x")'},
    ensures=['result is self', 'len(self._labels) == self.rank', 'self._labels[' + _IDX + '] == "x"',
             'forall(0, self.rank, lambda k: implies(k != ' + _IDX + ', self._labels[k] == old(self._labels)[k]))',
             'not (self._labels is labels0)', _UNTOUCHED_LIST],
    ensures_raise={'ValueError': [_UNTOUCHED_LIST, 'self._labels is labels0']},
)

Contract(
    target=f'{NPC}::Array.idrop_labels', props=['C01', 'C03'], name='Array.idrop_labels[all]', setup=_setup, hunt=_hunt,
    params={'self': _ARR, 'old_labels': Const(None)},
    requires=['self.rank >= 1 and len(self._labels) == self.rank'],
    ensures=['result is self', 'len(self._labels) == self.rank', 'forall(0, self.rank, lambda k: is_none(self._labels[k]))',
             'not (self._labels is labels0)', _UNTOUCHED_LIST],
)

_DUP = ('exists(0, len(labels), lambda p: labels[p] == "" or '
        '(not is_none(labels[p]) and exists(p + 1, len(labels), lambda q: labels[q] == labels[p])))')

Contract(
    target=f'{NPC}::Array.iset_leg_labels', props=['C01', 'C03'], name='Array.iset_leg_labels', setup=_setup, hunt=_hunt,
    params={'self': _ARR, 'labels': List('U')},
    requires=['self.rank >= 1 and len(self._labels) == self.rank'],
    # one label per leg; '' is not a label; no string twice (None = anonymous leg, any number of times)
    raises={'ValueError': 'len(labels) != self.rank or ' + _DUP},
    ensures=['result is self', 'len(self._labels) == self.rank',
             'forall(0, self.rank, lambda k: self._labels[k] == labels[k])',
             'not (self._labels is labels) and not (self._labels is labels0)',        # a private copy of the argument
             'forall(0, len(labels), lambda k: labels[k] == old(labels)[k])', _UNTOUCHED_LIST],
    ensures_raise={'ValueError': [_UNTOUCHED_LIST, 'self._labels is labels0']},
    loops={0: {'inv': ['len(labels) == self.rank and self._labels is labels0',
                       'forall(0, _i, lambda p: labels[p] != "" and '
                       '(is_none(labels[p]) or forall(p + 1, len(labels), lambda q: labels[q] != labels[p])))',
                       'forall(0, len(labels), lambda k: labels[k] == old(labels)[k])', _UNTOUCHED_LIST]}},
)
