"""C05: the factorisations that are *derived* from svd / qr - polar, pinv, lq - in a free matrix algebra.

`svd` and `qr` themselves are LAPACK per block plus charge bookkeeping on 2-D numpy data and stay bounded (see unverified).  What is
decided here is the derivation: with `svd(a)` = (W, s, VH) and `qr` as abstract leaves,

    polar(a, left=False) = (W VH,  VH^dagger diag(s) VH)        polar(a, left=True) = (W VH,  W diag(s) W^dagger)
    pinv(a)              = VH^dagger diag(1/s) W^dagger           lq(a) = (r^T, q^T) with (q, r) = qr(a^T, options passed through)

as terms over uninterpreted operations (transpose T, conjugate C, scale_axis SC, matrix product MM), built from the *values the
leaves returned*.  Matrices are ghost objects whose in-place methods really mutate them, so an in-place operation on a factor that
is used again afterwards (F-56: `W.iscale_axis(s)` evaluated before `W.conj()`) yields a different term and fails.  That these
terms multiply back to `a` (u p = a, p u = a, Moore-Penrose) follows on paper from the assumed contract of svd (a = W diag(s) VH,
W^dagger W = 1 = VH VH^dagger); the bounded C05 check tests exactly those identities numerically on the real functions.
"""
import z3

from pyvc.contract import Contract, Real, Bool, Opaque, OneOf, Const
from pyvc.interp import Builtin, Unsupported
from pyvc.values import SObj, Opq, U, to_z3

NPC = 'tenpy/linalg/np_conserved.py'
_T = z3.Function('T', U, U)
_C = z3.Function('Cj', U, U)
_SC = z3.Function('SC', U, U, z3.IntSort(), U)          # scale_axis(matrix, vector, axis)
_MM = z3.Function('MM', U, U, U)                         # contraction of the second leg of x with the first leg of y
_INV = z3.Function('INV', U, U)                          # 1 / vector


def _axis(ax):
    if ax in (-1, 1):
        return 1
    if ax in (0, -2):
        return 0
    raise Unsupported(f'scale_axis along {ax!r} of a matrix')


def _u(x):
    return to_z3(x.attrs['val'] if isinstance(x, SObj) else x, U)


def _mat(val, labels=('?0', '?1')):
    m = SObj('GhostMatrix', None, {'val': val, 'rank': 2, 'labels': list(labels)})

    def set_(new_val, swap=False):
        m.attrs['val'] = new_val
        if swap:
            m.attrs['labels'] = m.attrs['labels'][::-1]
        return m
    B = Builtin
    m.attrs.update({
        'transpose': B(lambda I, *a: _mat(_T(m.attrs['val']), m.attrs['labels'][::-1]), 'transpose'),
        'itranspose': B(lambda I, *a: set_(_T(m.attrs['val']), True), 'itranspose'),
        'conj': B(lambda I, *a: _mat(_C(m.attrs['val']), [str(l) + '*' for l in m.attrs['labels']]), 'conj'),
        'iconj': B(lambda I, *a: (m.attrs.__setitem__('labels', [str(l) + '*' for l in m.attrs['labels']]), set_(_C(m.attrs['val'])))[1], 'iconj'),
        'scale_axis': B(lambda I, s, axis=-1: _mat(_SC(m.attrs['val'], _u(s), _axis(axis)), m.attrs['labels']), 'scale_axis'),
        'iscale_axis': B(lambda I, s, axis=-1: set_(_SC(m.attrs['val'], _u(s), _axis(axis))), 'iscale_axis'),
        'get_leg_labels': B(lambda I: list(m.attrs['labels']), 'get_leg_labels'),
        'iset_leg_labels': B(lambda I, labs: (m.attrs.__setitem__('labels', list(labs)), m)[1], 'iset_leg_labels'),
        'copy': B(lambda I, *a, **k: _mat(m.attrs['val'], m.attrs['labels']), 'copy'),
    })
    return m


def _tensordot(I, f, args, kwargs):
    a, b = args[0], args[1]
    axes = kwargs.get('axes', args[2] if len(args) > 2 else 2)
    if axes == 1 or axes == ([1, 0]) or axes == [1, 0] or axes == (1, 0) or axes == ([1], [0]):
        return _mat(_MM(a.attrs['val'], b.attrs['val']), [a.attrs['labels'][0], b.attrs['labels'][1]])
    raise Unsupported(f'tensordot of two matrices with axes {axes!r}')


def _setup(I, env):
    g = {'W': z3.Const('svd_W', U), 's': z3.Const('svd_s', U), 'VH': z3.Const('svd_VH', U), 'q': z3.Const('qr_q', U), 'r': z3.Const('qr_r', U),
         'calls': []}
    env['a'] = _mat(z3.Const('a', U), ['r', 'c'])
    B = Builtin
    I.ghost['__env__'] = {
        'W': Opq(g['W']), 's': Opq(g['s']), 'VH': Opq(g['VH']), 'Q': Opq(g['q']), 'R': Opq(g['r']), 'A': Opq(z3.Const('a', U)),
        'T': B(lambda I_, x: Opq(_T(to_z3(x, U))), 'T'), 'Cj': B(lambda I_, x: Opq(_C(to_z3(x, U))), 'Cj'),
        'SC': B(lambda I_, x, s, ax: Opq(_SC(to_z3(x, U), to_z3(s, U), ax)), 'SC'), 'MM': B(lambda I_, x, y: Opq(_MM(to_z3(x, U), to_z3(y, U))), 'MM'),
        'INV': B(lambda I_, s: Opq(_INV(to_z3(s, U))), 'INV'), 'val': B(lambda I_, m: Opq(m.attrs['val']), 'val')}
    I.ghost['leaf'] = g


def _svd(I, f, args, kwargs):
    g = I.ghost['leaf']
    g['calls'].append(('svd', args, kwargs))
    I.oblige('svd-called-on-the-input', to_z3(args[0].attrs['val'], U) == z3.Const('a', U), {'clause': 'svd is applied to the input matrix itself'})
    lab = kwargs.get('inner_labels', [None, None])
    # the singular values are used as `s` (scale_axis) and as `1.0 / S`
    sv = SObj('GhostVector', None, {'val': g['s'], '__rtruediv__': Builtin(lambda I_, one: Opq(_INV(g['s'])), '1 / s')})
    return (_mat(g['W'], ['r', 'i']), sv, _mat(g['VH'], ['i*', 'c']))


def _qr(I, f, args, kwargs):
    g = I.ghost['leaf']
    g['calls'].append(('qr', args, dict(kwargs)))
    return (_mat(g['q'], ['c', 'i']), _mat(g['r'], ['i*', 'r']))


_HOOKS = {f'{NPC}::svd': _svd, f'{NPC}::qr': _qr, f'{NPC}::tensordot': _tensordot}


def _hunt():
    """witness on the real functions: reconstruction / Moore-Penrose / lq = transposed qr on small random matrices with charges"""
    import warnings
    import numpy as np
    warnings.simplefilter('ignore')
    import tenpy.linalg.np_conserved as npc
    rng = np.random.default_rng(11)
    ci = npc.ChargeInfo([1])
    for rep in range(6):
        l0 = npc.LegCharge.from_qflat(ci, [0, 0, 1, 1, 2][: 3 + rep % 3], 1)
        l1 = npc.LegCharge.from_qflat(ci, [0, 1, 1, 2], -1)
        a = npc.Array.from_func(rng.standard_normal, [l0, l1], labels=['r', 'c'])
        if not np.any(a.to_ndarray()):
            continue
        A = a.to_ndarray()
        for left in (False, True):
            u, p, s = npc.polar(a, left=left)
            prod = npc.tensordot(p, u, axes=1) if left else npc.tensordot(u, p, axes=1)
            if not np.allclose(prod.to_ndarray(), A, atol=1e-9):
                return {'input': {'function': f'polar(left={left})', 'legs': [l0.to_qflat().ravel().tolist(), l1.to_qflat().ravel().tolist()]},
                        'observed': f'max |{"p u" if left else "u p"} - a| = {np.abs(prod.to_ndarray() - A).max()}'}
        P = npc.pinv(a, 1e-12).to_ndarray()
        if not (np.allclose(A @ P @ A, A, atol=1e-8) and np.allclose(P @ A @ P, P, atol=1e-8)):
            return {'input': {'function': 'pinv'}, 'observed': 'Moore-Penrose identities violated'}
        for pos in (False, True):
            l, q = npc.lq(a, pos_diag_L=pos, inner_labels=['x', 'y'])
            ok = np.allclose(npc.tensordot(l, q, axes=1).to_ndarray(), A, atol=1e-9) and l.get_leg_labels() == ['r', 'x'] and q.get_leg_labels() == ['y', 'c']
            ok = ok and np.allclose(np.triu(l.to_ndarray(), 1), 0, atol=1e-12) and (not pos or np.all(np.diag(l.to_ndarray()).real >= -1e-12))
            if not ok:
                return {'input': {'function': f'lq(pos_diag_L={pos}, inner_labels=[x, y])'},
                        'observed': f'labels {l.get_leg_labels()} {q.get_leg_labels()}, |l q - a| = {np.abs(npc.tensordot(l, q, axes=1).to_ndarray() - A).max()}'}
    return None


for _left in (False, True):
    Contract(
        target=f'{NPC}::polar', props=['C05'], name=f'polar[left={_left}]', setup=_setup, hooks=_HOOKS, hunt=_hunt,
        params={'a': Const(None), 'cutoff': Real(), 'left': Const(_left), 'inner_labels': Const([None, None])},
        requires=['cutoff >= 0'],
        ensures=['val(result[0]) == MM(W, VH)',
                 ('val(result[1]) == MM(SC(W, s, 1), T(Cj(W)))' if _left else 'val(result[1]) == MM(SC(T(Cj(VH)), s, 1), VH)'),
                 'val(a) == A'],            # the input is not modified
    )

Contract(
    target=f'{NPC}::pinv', props=['C05'], name='pinv', setup=_setup, hooks=_HOOKS, hunt=_hunt,
    params={'a': Const(None), 'cutoff': Real()},
    raises={'ValueError': 'cutoff <= 0'},
    ensures=['val(result) == MM(SC(Cj(T(VH)), INV(s), 1), Cj(T(W)))', 'val(a) == A'],
)


def _lq_setup(I, env):
    _setup(I, env)
    g = I.ghost['leaf']

    def qr_kw(I_, name):
        calls = [c for c in g['calls'] if c[0] == 'qr']
        if len(calls) != 1:
            raise Unsupported('qr was not called exactly once')
        return calls[0][2].get(name)

    def qr_matrix(I_):
        calls = [c for c in g['calls'] if c[0] == 'qr']
        if len(calls) != 1:
            raise Unsupported('qr was not called exactly once')
        return Opq(calls[0][1][0].attrs['val'])
    I.ghost['__env__'].update({'qr_kw': Builtin(qr_kw, 'qr_kw'), 'qr_matrix': Builtin(qr_matrix, 'qr_matrix')})


from pyvc.contract import FixedList as _FixedList
Contract(
    target=f'{NPC}::lq', props=['C05'], name='lq', setup=_lq_setup, hooks=_HOOKS, hunt=_hunt,
    params={'a': Const(None), 'mode': OneOf('reduced', 'complete'), 'inner_labels': _FixedList([Opaque(), Opaque()]), 'cutoff': Opaque(),
            'pos_diag_L': Bool(), 'qtotal_Q': Opaque(), 'inner_qconj': OneOf(1, -1)},
    ensures=['val(result[0]) == T(R) and val(result[1]) == T(Q)',                       # (L, Q') = (r^T, q^T)
             'qr_matrix() == T(A)',                                                     # of the qr of the transposed input
             'qr_kw("mode") == mode and qr_kw("pos_diag_R") == pos_diag_L and qr_kw("inner_qconj") == inner_qconj',
             'qr_kw("cutoff") == cutoff and qr_kw("qtotal_Q") == qtotal_Q',
             # the inner labels belong to the transposed factors: first entry labels L's second leg = r's first leg
             'qr_kw("inner_labels")[0] == inner_labels[1] and qr_kw("inner_labels")[1] == inner_labels[0]',
             'val(a) == A'],
)
