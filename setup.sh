#!/bin/sh
# Build the overlay venv /verif/.venv312 offline: python 3.12 (same interpreter as /venv, where
# tenpy is installed editable from /repo) + z3-solver, cvc5, deal, icontract, crosshair, hypothesis,
# jsonschema from the offline wheelhouse; a .pth adds /venv's site-packages (numpy, scipy, h5py, tenpy).
set -e
cd "$(dirname "$0")"
V=.venv312
if [ -x "$V/bin/python" ] && "$V/bin/python" -c "import z3, tenpy, numpy, jsonschema" 2>/dev/null; then
    echo "setup: $V ok"; "$V/bin/python" -m vcheck.overlay; exit 0
fi
rm -rf "$V"
/venv/bin/python -m venv --without-pip "$V" 2>/dev/null || /venv/bin/python -m venv "$V"
SP=$("$V/bin/python" -c "import sysconfig;print(sysconfig.get_paths()['purelib'])")
echo "import site; site.addsitedir('/venv/lib/python3.12/site-packages')" > "$SP/_venv_overlay.pth"
PIP_NO_INDEX=1 "$V/bin/python" -m pip install --no-index --find-links /opt/veriftools/wheels \
    --no-deps z3-solver cvc5 deal icontract asttokens six jsonschema jsonschema_specifications referencing rpds_py attrs \
    typing_extensions hypothesis sortedcontainers crosshair-tool typeshed_client typing_inspect mypy_extensions \
    importlib_metadata zipp packaging pygls lsprotocol cattrs >/dev/null
"$V/bin/python" -c "import z3, tenpy, numpy, jsonschema; print('setup: built', z3.get_version_string())"
# compiled extension rebuilt from the current _npc_helper.pyx (cached by content hash under .cache/)
"$V/bin/python" -m vcheck.overlay
