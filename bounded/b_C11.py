"""Bounded stand-in for C11: MPO algebra against dense operators on small chains."""
import warnings

import numpy as np

from . import mpsgen
from .b_C10 import mpo_dense


def random_terms(rng, site, L, n_terms, hermitian=False, max_range=None):
    """charge-neutral terms: one-site operators without charge, or a_i hc(a)_j"""
    cand = sorted(n for n in site.opnames if n not in ('Id', 'JW') and not site.op_needs_JW(n))
    neutral = [n for n in cand if not np.any(site.get_op(n).qtotal)]
    terms, strengths = [], []
    for _ in range(n_terms):
        k = int(rng.integers(1, 3))
        if max_range is None:
            sites = sorted(rng.choice(L, size=min(k, L), replace=False).tolist())
        else:
            i = int(rng.integers(0, L))
            sites = sorted(set([i, min(L - 1, i + int(rng.integers(0, max_range + 1)))]))
        if len(sites) == 1:
            t = [(str(rng.choice(neutral)), int(sites[0]))]
        else:
            a = str(rng.choice(cand))
            t = [(a, int(sites[0])), (site.get_hc_op_name(a), int(sites[1]))]
        s = complex(rng.standard_normal(), rng.standard_normal())
        terms.append(t)
        strengths.append(s)
        if hermitian:
            terms.append([(site.get_hc_op_name(n), i) for n, i in t])
            strengths.append(np.conj(s))
    return terms, strengths


def dense_terms(sites, terms, strengths):
    D = int(np.prod([s.dim for s in sites]))
    H = np.zeros((D, D), dtype=complex)
    for t, s in zip(terms, strengths):
        H += s * mpsgen.op_dense(sites, t)
    return H


def run(rec):
    warnings.simplefilter('ignore')
    from tenpy.networks.mpo import MPO, MPOGraph
    from tenpy.networks.terms import TermList
    from tenpy.networks.mps import MPS
    rng = np.random.default_rng(rec.seed + 11)
    quick = rec.tier == 'quick'
    n_rep = 2 if quick else 12
    rec.rule = ('finite MPOs from random term lists (complex strengths, 1-2 site terms of any range; Hermitian and non-Hermitian) for every '
                'site family x L in 3..5 x random states: expectation value, variance, sum, dagger, is_hermitian, is_equal (no false '
                'positive for a perturbed long-range term, no false negative for a re-built copy), overlap/distance (Frobenius), '
                'to_TermList -> from_term_list, plus_identity, apply / apply_naively / apply_zipup / variational within the reported '
                'truncation error, make_U_I/II error order in t; non-trivial = MPO bond dimension >= 3')
    rec.bounds = {'L': [3, 4, 5], 'reps': n_rep}
    tol = 1e-8
    for fname, fam in [x for x in mpsgen.site_families() if not getattr(x[1], 'takes_L', False)]:
        for rep in range(n_rep):
            L = int(rng.integers(3, 5 if quick else 6))
            sites = [fam() for _ in range(L)]
            s0 = sites[0]
            herm = bool(rep % 2)
            terms, strengths = random_terms(rng, s0, L, int(rng.integers(2, 5)), hermitian=herm)
            inp = {'sites': fname, 'L': L, 'terms': terms, 'strengths': [complex(x) for x in strengths], 'hermitian': herm}
            rec.begin(f'C11 {fname} L={L} rep={rep}')
            ok, H = rec.guarded('from_term_list:exception', lambda: MPOGraph.from_term_list(TermList(terms, strengths), sites, 'finite').build_MPO(), inp)
            if not ok:
                continue
            Hd = dense_terms(sites, terms, strengths)
            rec.case((fname, rep), max(H.chi) >= 3, sample={'sites': fname, 'L': L, 'terms': terms[:2]} if rep == 0 else None)
            scale = 1 + np.abs(Hd).max()
            rec.check(np.allclose(mpo_dense(H, sites), Hd, atol=tol * scale), 'from_term_list:dense', '', inp)
            psi, v = mpsgen.random_mps(rng, fam, L)
            vv = v.reshape(-1)
            ok, ev = rec.guarded('expectation_value:exception', lambda: H.expectation_value(psi), inp)
            if ok:
                rec.check(abs(ev - np.vdot(vv, Hd @ vv)) < tol * scale, 'expectation_value:value', f'{ev} vs {np.vdot(vv, Hd @ vv)}', inp)
            if herm:
                ok, var = rec.guarded('variance:exception', lambda: H.variance(psi), inp)
                if ok:
                    exp = np.real(np.vdot(vv, Hd @ Hd @ vv) - np.vdot(vv, Hd @ vv) ** 2)
                    rec.check(abs(var - exp) < 1e-7 * scale ** 2, 'variance:value', f'{var} vs {exp}', inp)
            ok, hh = rec.guarded('is_hermitian:exception', lambda: H.is_hermitian(), inp)
            if ok:
                rec.check(bool(hh) == bool(np.allclose(Hd, Hd.conj().T, atol=1e-9)), 'is_hermitian:verdict', f'{hh} but dense hermitian={np.allclose(Hd, Hd.conj().T)}', inp)
            ok, Hdag = rec.guarded('dagger:exception', lambda: H.dagger(), inp)
            if ok:
                rec.check(np.allclose(mpo_dense(Hdag, sites), Hd.conj().T, atol=tol * scale), 'dagger:dense', '', inp)
            terms2, strengths2 = random_terms(rng, s0, L, 2, hermitian=False)
            H2 = MPOGraph.from_term_list(TermList(terms2, strengths2), sites, 'finite').build_MPO()
            H2d = dense_terms(sites, terms2, strengths2)
            ok, Hs = rec.guarded('__add__:exception', lambda: H + H2, inp)
            if ok:
                rec.check(np.allclose(mpo_dense(Hs, sites), Hd + H2d, atol=tol * scale), '__add__:dense', '', inp)
                ok2, _ = rec.guarded('__add__:sanity', Hs.test_sanity, inp)
            # equality tests
            Hcopy = MPOGraph.from_term_list(TermList(list(reversed(terms)), list(reversed(strengths))), sites, 'finite').build_MPO()
            ok, eq = rec.guarded('is_equal:exception', lambda: H.is_equal(Hcopy), inp)
            if ok:
                rec.check(bool(eq), 'is_equal:false-negative', 'same operator built from the reversed term list', inp)
            a_ = terms[0][0][0]
            pert_terms = terms + [[(a_, 0), (s0.get_hc_op_name(a_), L - 1)]]     # charge-neutral long-range perturbation
            Hp = MPOGraph.from_term_list(TermList(pert_terms, list(strengths) + [1e-3]), sites, 'finite').build_MPO()
            if np.linalg.norm(dense_terms(sites, pert_terms, list(strengths) + [1e-3]) - Hd) > 1e-6:
                ok, eq = rec.guarded('is_equal:exception', lambda: H.is_equal(Hp), inp)
                if ok:
                    rec.check(not bool(eq), 'is_equal:false-positive', 'differs by a long-range term of strength 1e-3', inp)
            # overlap / distance (Frobenius inner product)
            ok, ov = rec.guarded('overlap:exception', lambda: H.overlap(H2), inp)
            if ok:
                exp = np.trace(Hd.conj().T @ H2d)
                rec.check(abs(ov - exp) < 1e-7 * scale ** 2, 'overlap:value', f'{ov} vs Tr(A^dag B) = {exp}', inp)
            ok, dist = rec.guarded('distance:exception', lambda: H.distance(H2), inp)
            if ok:
                exp = np.linalg.norm(Hd - H2d)
                rec.check(abs(dist - exp) < 1e-6 * scale, 'distance:value', f'{dist} vs Frobenius {exp}', inp)
            # term list round trip
            def tl_roundtrip():
                tl = H.to_TermList(op_basis=sorted(n for n in s0.opnames if n not in ('Id', 'JW') and not s0.op_needs_JW(n)))
                return MPOGraph.from_term_list(tl, sites, 'finite').build_MPO()
            if fname.startswith('SpinHalf['):
                def tlr():
                    tl = H.to_TermList(op_basis=['Id', 'Sz', 'Sp', 'Sm'])      # a complete orthogonal operator basis incl. the identity
                    return mpo_dense(MPOGraph.from_term_list(tl, sites, 'finite').build_MPO(), sites)
                ok, Hr = rec.guarded('to_TermList:exception', tlr, inp)
                if ok:
                    rec.check(np.allclose(Hr, Hd, atol=1e-7 * scale), 'to_TermList->from_term_list:dense', f'max dev {np.abs(Hr - Hd).max()}', inp)
                # `start` selects the sites at which the returned terms begin - in any order of listing
                Lc = len(sites)
                order_ = [int(x) for x in rng.permutation(Lc)]

                def tl_start():
                    tl = H.to_TermList(op_basis=['Id', 'Sz', 'Sp', 'Sm'], start=order_)
                    return mpo_dense(MPOGraph.from_term_list(tl, sites, 'finite').build_MPO(), sites)
                ok, Hr = rec.guarded('to_TermList(start=permuted):exception', tl_start, dict(inp, start=order_))
                if ok:
                    rec.check(np.allclose(Hr, Hd, atol=1e-7 * scale), 'to_TermList(start=permuted)->from_term_list:dense',
                              f'max dev {np.abs(Hr - Hd).max()} for start={order_}', dict(inp, start=order_))
                # the same for derived MPOs: a sum (whose IdR bookkeeping differs from a built MPO) and a scaled-and-shifted one
                for tag, Hx, Hxd in (('sum', H + H2, Hd + H2d), ('sum-reversed', H2 + H, Hd + H2d)):
                    def tlr2(Hx=Hx):
                        tl = Hx.to_TermList(op_basis=['Id', 'Sz', 'Sp', 'Sm'])
                        if len(tl.terms) == 0:
                            return np.zeros_like(Hd)
                        return mpo_dense(MPOGraph.from_term_list(tl, sites, 'finite').build_MPO(), sites)
                    ok, Hr = rec.guarded(f'to_TermList({tag}):exception', tlr2, inp)
                    if ok:
                        rec.check(np.allclose(Hr, Hxd, atol=1e-7 * scale), f'to_TermList({tag})->from_term_list:dense',
                                  f'max dev {np.abs(Hr - Hxd).max()}', inp)
            # plus identity
            al, be = float(rng.standard_normal()), float(rng.standard_normal())
            lo = int(rng.integers(0, L))
            hi = int(rng.integers(lo, L))
            for pi_sites in ([0], list(range(L)), list(range(lo, hi + 1))):
                be_ = abs(be) + 0.3      # (a root of beta is taken per modified site)
                ok, Hpi = rec.guarded('plus_identity:exception', lambda: H.plus_identity(al, be_, sites=pi_sites), dict(inp, pi_sites=pi_sites))
                if ok:
                    rec.check(np.allclose(mpo_dense(Hpi, sites), al * np.eye(len(Hd)) + be_ * Hd, atol=1e-7 * scale), 'plus_identity:dense',
                              f'alpha*Id + beta*H with sites={pi_sites}', dict(inp, pi_sites=pi_sites, alpha=al, beta=be_))
            # applying the MPO
            exp = Hd @ vv
            if np.linalg.norm(exp) > 1e-8:
                for method in ('naively', 'SVD', 'zip_up', 'variational'):
                    p = psi.copy()
                    def app():
                        if method == 'naively':
                            H.apply_naively(p)
                            p.canonical_form(renormalize=False)
                            return None
                        opts = {'compression_method': method, 'trunc_params': {'chi_max': 200, 'svd_min': 1e-13}}
                        if method == 'zip_up':
                            opts.update({'m_temp': 5, 'trunc_weight': 0.5})
                        return H.apply(p, opts)
                    ok, err = rec.guarded(f'apply[{method}]:exception', app, inp)
                    if ok:
                        d = mpsgen.dense_state(p).reshape(-1)
                        dev = np.linalg.norm(d - exp) / np.linalg.norm(exp)
                        eps = getattr(err, 'eps', 0.) if err is not None else 0.
                        rec.check(dev < 1e-6 + 10 * np.sqrt(abs(eps)), f'apply[{method}]:state', f'relative deviation {dev}, reported eps {eps}', inp)
                    # the norm that the state already carries is kept (an unnormalised input; the operator applied twice)
                    for variant in ('input of norm 0.6', 'applied twice'):
                        p = psi.copy()
                        if variant == 'input of norm 0.6':
                            p.norm = 0.6
                            exp_v, times = 0.6 * exp, 1
                        else:
                            exp_v, times = Hd @ exp, 2
                        if np.linalg.norm(exp_v) < 1e-8:
                            continue

                        def app_v():
                            e = None
                            for _ in range(times):
                                e = app()
                            return e
                        ok, err = rec.guarded(f'apply[{method}]:exception', app_v, dict(inp, variant=variant))
                        if ok:
                            d = mpsgen.dense_state(p).reshape(-1)
                            dev = np.linalg.norm(d - exp_v) / np.linalg.norm(exp_v)
                            eps = getattr(err, 'eps', 0.) if err is not None else 0.
                            rec.check(dev < 1e-6 + 10 * np.sqrt(abs(eps)), f'apply[{method}]({variant}):state',
                                      f'relative deviation {dev}, reported eps {eps}', dict(inp, variant=variant))
        # propagators: error order in t (Hermitian nearest-neighbour H)
        L = 4
        sites = [fam() for _ in range(L)]
        terms, strengths = random_terms(rng, sites[0], L, 3, hermitian=True, max_range=1)
        H = MPOGraph.from_term_list(TermList(terms, strengths), sites, 'finite').build_MPO()
        Hd = dense_terms(sites, terms, strengths)
        import scipy.linalg
        for approx, power in (('I', 2), ('II', 2)):
            for kind, unit in (('real-time', -1.j), ('imaginary-time', -1.0)):      # U ~ exp(-i t H) and U ~ exp(-tau H)
                errs = []
                for t in (0.02, 0.01):
                    ok, U = rec.guarded(f'make_U_{approx}:exception', lambda: H.make_U(unit * t, approx), {'sites': fname, 'dt': str(unit * t)})
                    if not ok:
                        break
                    errs.append(np.linalg.norm(mpo_dense(U, sites) - scipy.linalg.expm(unit * t * Hd)))
                    # building the propagator leaves the Hamiltonian alone
                    rec.check(np.allclose(mpo_dense(H, sites), Hd, atol=1e-10), f'make_U_{approx}:changes-the-Hamiltonian',
                              f'|dH| = {np.linalg.norm(mpo_dense(H, sites) - Hd)} after make_U({unit * t})', {'sites': fname, 'dt': str(unit * t)})
                rec.case((fname, 'make_U', approx, kind), True)
                if len(errs) == 2 and errs[1] > 1e-13:
                    order = np.log2(errs[0] / errs[1])
                    rec.check(order > power - 0.4, f'make_U_{approx}[{kind}]:error-order',
                              f'errors {errs}: observed order {order:.2f} < documented {power}', {'sites': fname})
    infinite_mpos(rec, rng, quick)


def infinite_mpos(rec, rng, quick):
    """infinite MPOs (compared on a window): equality and Hermiticity tests with the default window and with an explicit
    `max_range`, sum, dagger; the long-range term that distinguishes two operators has a range within the window asked for"""
    from tenpy.networks.mpo import MPOGraph
    from tenpy.networks.terms import TermList
    from tenpy.networks.site import SpinHalfSite
    s = SpinHalfSite('Sz', sort_charge=True)
    for L in ((2,) if quick else (1, 2, 3)):
        sites = [s] * L
        base_terms = [[('Sz', i), ('Sz', i + 1)] for i in range(L)] + [[('Sp', i), ('Sm', i + 1)] for i in range(L)] + [[('Sm', i), ('Sp', i + 1)] for i in range(L)]
        base_str = [1.] * L + [0.5] * (2 * L)
        def build(terms, strengths):
            return MPOGraph.from_term_list(TermList(terms, strengths), sites, 'infinite').build_MPO()
        H = build(base_terms, base_str)
        Hrev = build(base_terms[::-1], base_str[::-1])
        # (ranges inside and beyond the default window L + 2 * max_range of the short-ranged operator)
        for r in ((L + 3,) if quick else (2, 3, L + 3, L + 5)):
            # Hermitian long-range perturbation and a non-Hermitian one, both of range r
            Hl = build(base_terms + [[('Sz', 0), ('Sz', r)]], base_str + [0.3])
            Hn = build(base_terms + [[('Sp', 0), ('Sm', r)]], base_str + [0.3])
            inp = {'L': L, 'range_of_extra_term': r}
            rec.begin(f'C11 infinite MPO {inp}')
            rec.case(('infinite', L, r), True, sample=inp if r == L + 3 else None)
            for mr in (None, r, r + 2):
                tag = f'max_range={"default" if mr is None else "explicit"}'
                kw = {} if mr is None else {'max_range': mr}
                checks = [('is_equal(H, H rebuilt)', lambda: H.is_equal(Hrev, **kw), True),
                          ('is_equal(H_short, H_long)', lambda: H.is_equal(Hl, **kw), False if mr is not None else None),
                          ('is_equal(H_long, H_short)', lambda: Hl.is_equal(H, **kw), False),
                          ('is_hermitian(H)', lambda: H.is_hermitian(**kw), True),
                          ('is_hermitian(H + long Hermitian term)', lambda: Hl.is_hermitian(**kw), True),
                          ('is_hermitian(H + long non-Hermitian term)', lambda: Hn.is_hermitian(**kw), False)]
                for name, fn, want in checks:
                    if want is None:
                        continue     # (the default window of the shorter-ranged operator need not reach the extra term: documented)
                    ok, got = rec.guarded(f'infinite:{name}:exception', fn, dict(inp, max_range=mr))
                    if ok:
                        rec.check(bool(got) == want, f'infinite:{name}[{tag}]', f'got {bool(got)}, the operators {"are" if want else "are not"} '
                                  f'equal/Hermitian within the window', dict(inp, max_range=mr))
            # sum and dagger
            ok, S2 = rec.guarded('infinite:__add__:exception', lambda: H + Hl, inp)
            if ok:
                ref = build(base_terms + base_terms + [[('Sz', 0), ('Sz', r)]], base_str + base_str + [0.3])
                rec.check(bool(S2.is_equal(ref, max_range=r + 1)) and bool(ref.is_equal(S2, max_range=r + 1)), 'infinite:__add__:is_equal(sum, rebuilt)', '', inp)
                rec.check(S2.max_range is None or S2.max_range >= r, 'infinite:__add__:max_range', f'{S2.max_range} < {r}', inp)
            ok, Hd_ = rec.guarded('infinite:dagger:exception', lambda: Hn.dagger(), inp)
            if ok:
                ref = build(base_terms + [[('Sm', 0), ('Sp', r)]], base_str + [0.3])
                rec.check(bool(Hd_.is_equal(ref, max_range=r + 1)), 'infinite:dagger:is_equal(dagger, rebuilt)', '', inp)
