"""Bounded stand-in for C18.
(A) fault enumeration on the real file system: every entry state of (output, backup) x a crash right after every
    file-system step of the real Simulation.save_results and at byte prefixes of the file being written, pickle and HDF5;
(B) resume from every algorithm checkpoint of small ground-state searches and time evolutions equals the uninterrupted run."""
import copy
import logging
import os
import pathlib
import pickle
import tempfile
import types
import warnings

import numpy as np


class Crash(BaseException):
    pass


def _is_complete(p, fmt):
    if not p.exists():
        return False
    try:
        if fmt == 'pkl':
            with open(p, 'rb') as f:
                pickle.load(f)
        else:
            from tenpy.tools import hdf5_io
            hdf5_io.load(str(p))
        return True
    except Exception:
        return False


def crash_enumeration(rec):
    from tenpy.simulations.simulation import Simulation
    from tenpy.tools import hdf5_io
    names = {0: 'absent', 1: 'partial', 2: 'complete'}
    for fmt in ('pkl', 'h5'):
        with tempfile.TemporaryDirectory() as d0:
            ref = pathlib.Path(d0) / f'ref.{fmt}'
            hdf5_io.save({'checkpoint': 'old', 'data': np.arange(50.)}, str(ref))
            good = ref.read_bytes()
        new_results = {'checkpoint': 'new', 'data': np.arange(60.)}
        with tempfile.TemporaryDirectory() as d1:
            tmp = pathlib.Path(d1) / f'new.{fmt}'
            hdf5_io.save(new_results, str(tmp))
            new_bytes = tmp.read_bytes()
        prefixes = sorted(set([0, 1, len(new_bytes) // 3, len(new_bytes) // 2, len(new_bytes) - 1]))
        for O in (0, 1, 2):
            for B in (0, 1, 2):
                # crash points: after k-th file-system effect (k = 1, 2, 3...) and inside the write at byte prefixes
                crash_specs = [('after-fs-op', k) for k in range(1, 5)] + [('write-prefix', n) for n in prefixes] + [('none', 0)]
                for kind, arg in crash_specs:
                    with tempfile.TemporaryDirectory() as d:
                        out = pathlib.Path(d) / f'results.{fmt}'
                        bak = pathlib.Path(d) / f'results.backup.{fmt}'
                        for p, st in ((out, O), (bak, B)):
                            if st == 1:
                                p.write_bytes(good[:len(good) // 2])
                            elif st == 2:
                                p.write_bytes(good)
                        had = _is_complete(out, fmt) or _is_complete(bak, fmt)
                        count = {'n': 0}

                        class P(type(out)):
                            def unlink(self, *a, **k):
                                r = super().unlink(*a, **k)
                                count['n'] += 1
                                if kind == 'after-fs-op' and count['n'] == arg:
                                    raise Crash()
                                return r

                            def rename(self, target):
                                r = super().rename(target)
                                count['n'] += 1
                                if kind == 'after-fs-op' and count['n'] == arg:
                                    raise Crash()
                                return r

                        def save_to_file(results, filename):
                            if kind == 'write-prefix':
                                pathlib.Path(filename).write_bytes(new_bytes[:arg])
                                raise Crash()
                            hdf5_io.save(results, str(filename))
                            count['n'] += 1
                            if kind == 'after-fs-op' and count['n'] == arg:
                                raise Crash()
                        stub = types.SimpleNamespace(output_filename=P(out), _backup_filename=P(bak), _save_to_file=save_to_file,
                                                     logger=logging.getLogger('c18'), _last_save=0.)
                        rec.begin(f'C18 crash {fmt} O={names[O]} B={names[B]} {kind} {arg}')
                        crashed = False
                        try:
                            Simulation.save_results(stub, new_results)
                        except Crash:
                            crashed = True
                        except Exception as e:
                            rec.violation(f'save_results:exception:{type(e).__name__}', str(e)[:200],
                                          {'format': fmt, 'output': names[O], 'backup': names[B], 'crash': (kind, arg)})
                            continue
                        have = _is_complete(out, fmt) or _is_complete(bak, fmt)
                        rec.case((fmt, O, B, kind, arg), had and crashed)
                        inp = {'format': fmt, 'output_file': names[O], 'backup_file': names[B], 'crash': f'{kind}:{arg}'}
                        if had and not have:
                            rec.violation(f'save_results:no-complete-file-left[output={names[O]},backup={names[B]}]',
                                          f'crash {kind}:{arg} leaves output complete={_is_complete(out, fmt)} backup complete={_is_complete(bak, fmt)}', inp)
                        if not crashed:
                            rec.check(_is_complete(out, fmt) and not bak.exists(), 'save_results:exit-state',
                                      f'after a normal save: output complete={_is_complete(out, fmt)}, backup exists={bak.exists()}', inp)


def resume_keeps_files(rec):
    """preparing the output files of a *resumed* run (fix_output_filenames with loaded_from_checkpoint) must not destroy
    a complete results file: all entry states x overwrite_output, real file system"""
    from tenpy.simulations.simulation import Simulation
    names = {0: 'absent', 1: 'partial', 2: 'complete'}
    good = pickle.dumps({'checkpoint': 'old', 'data': list(range(40))})
    for O in (0, 1, 2):
        for B in (0, 1, 2):
            for ow in (False, True):
                with tempfile.TemporaryDirectory() as d:
                    out = pathlib.Path(d) / 'results.pkl'
                    bak = pathlib.Path(d) / 'results.backup.pkl'
                    for p, st in ((out, O), (bak, B)):
                        if st == 1:
                            p.write_bytes(good[:len(good) // 2])
                        elif st == 2:
                            p.write_bytes(good)
                    stub = types.SimpleNamespace(options={'overwrite_output': ow, 'skip_if_output_exists': False, 'safe_write': True},
                                                 loaded_from_checkpoint=True, get_output_filename=lambda: str(out))
                    stub.get_backup_filename = lambda fn: Simulation.get_backup_filename(stub, fn)
                    before = (_is_complete(out, 'pkl'), _is_complete(bak, 'pkl'))
                    rec.begin(f'C18 fix_output_filenames resume O={names[O]} B={names[B]} overwrite={ow}')
                    ok, _ = rec.guarded('fix_output_filenames:exception', lambda: Simulation.fix_output_filenames(stub),
                                        {'output': names[O], 'backup': names[B]})
                    after = (_is_complete(out, 'pkl'), _is_complete(bak, 'pkl'))
                    rec.case(('fix', O, B, ow), before[0] or before[1])
                    rec.check((not before[0] or after[0]) and (not before[1] or after[1]),
                              f'fix_output_filenames[resume]:destroys-complete-file[output={names[O]},backup={names[B]}]',
                              f'complete (output, backup) before {before}, after {after}',
                              {'output_file': names[O], 'backup_file': names[B], 'overwrite_output': ow})


def stop_after_checkpoint(algorithm, stop_at, counter):
    counter['n'] += 1
    if counter['n'] == stop_at:
        raise Crash()


COUNTER = {'n': 0}


def _stop(algorithm, stop_at):
    stop_after_checkpoint(algorithm, stop_at, COUNTER)


def _sim_params(kind, d, mixer=False):
    model = {'L': 6, 'Jxx': 1., 'Jz': 1.2, 'hz': 0.1, 'bc_MPS': 'finite'}
    base = {'model_class': 'XXZChain', 'model_params': model, 'directory': str(d), 'output_filename': 'res.pkl',
            'initial_state_params': {'method': 'lat_product_state', 'product_state': [['up'], ['down']]},
            'save_every_x_seconds': 0., 'log_params': {'to_stdout': None, 'to_file': None}, 'overwrite_output': True}
    if kind == 'dmrg':
        base.update({'simulation_class': 'GroundStateSearch', 'algorithm_class': 'TwoSiteDMRGEngine',
                     'algorithm_params': {'trunc_params': {'chi_max': 8, 'svd_min': 1e-10}, 'mixer': mixer, 'max_sweeps': 6, 'min_sweeps': 6,
                                          'N_sweeps_check': 1, 'max_E_err': 1e-16, 'max_S_err': 1e-16}})
    elif kind == 'dmrg-measure-at-checkpoints':
        base.update({'simulation_class': 'GroundStateSearch', 'algorithm_class': 'TwoSiteDMRGEngine', 'measure_at_algorithm_checkpoints': True,
                     'algorithm_params': {'trunc_params': {'chi_max': 8, 'svd_min': 1e-10}, 'mixer': mixer, 'max_sweeps': 6, 'min_sweeps': 6,
                                          'N_sweeps_check': 1, 'max_E_err': 1e-16, 'max_S_err': 1e-16},
                     'connect_measurements': [['tenpy.simulations.measurement', 'm_onsite_expectation_value', {'opname': 'Sz'}]]})
    elif kind == 'dmrg-chi-list':
        # the bond dimension grows by a schedule given in any key order ("an entry at_sweep: chi states that starting from sweep
        # at_sweep the value chi is used"): a resumed engine has to pick the entry of the largest key below its sweep counter
        base.update({'simulation_class': 'GroundStateSearch', 'algorithm_class': 'TwoSiteDMRGEngine', 'measure_at_algorithm_checkpoints': True,
                     'algorithm_params': {'trunc_params': {'svd_min': 1e-10}, 'chi_list': {4: 8, 1: 4, 0: 2}, 'mixer': mixer, 'max_sweeps': 6, 'min_sweeps': 6,
                                          'N_sweeps_check': 1, 'max_E_err': 1e-16, 'max_S_err': 1e-16},
                     'connect_measurements': [['tenpy.simulations.measurement', 'm_bond_dimension', {}],
                                              ['tenpy.simulations.measurement', 'm_onsite_expectation_value', {'opname': 'Sz'}]]})
    elif kind == 'dmrg-default-min-sweeps':
        base.update({'simulation_class': 'GroundStateSearch', 'algorithm_class': 'TwoSiteDMRGEngine',
                     'algorithm_params': {'trunc_params': {'chi_max': 8, 'svd_min': 1e-10}, 'mixer': mixer, 'max_sweeps': 6,
                                          'N_sweeps_check': 1, 'max_E_err': 1e-16, 'max_S_err': 1e-16}})
    elif kind in ('correlation', 'correlation-braket', 'spectral'):
        cls = {'correlation': 'TimeDependentCorrelation', 'correlation-braket': 'TimeDependentCorrelationEvolveBraKet',
               'spectral': 'SpectralSimulation'}[kind]
        base.update({'simulation_class': cls, 'algorithm_class': 'TEBDEngine', 'final_time': 0.4,
                     'algorithm_params': {'trunc_params': {'chi_max': 6, 'svd_min': 1e-10}, 'dt': 0.05, 'N_steps': 2, 'order': 2},
                     'operator_t0': {'opname': 'Sz', 'mps_idx': 2}, 'operator_t': 'Sz'})
        base['model_params'] = dict(model, sort_charge=True)
    else:
        base.update({'simulation_class': 'RealTimeEvolution', 'algorithm_class': 'TEBDEngine', 'final_time': 0.6,
                     'algorithm_params': {'trunc_params': {'chi_max': 2, 'svd_min': 1e-10}, 'dt': 0.05, 'N_steps': 2, 'order': 2},
                     'connect_measurements': [['tenpy.simulations.measurement', 'm_onsite_expectation_value', {'opname': 'Sz'}],
                                              ['bounded.b_C18', 'm_trunc_err']]})
        if kind == 'tebd-results-key':
            # a wrapped measurement stored under a user-chosen key (values are wall-clock times: only key and count are compared)
            base['connect_measurements'].append(['simulation_method', 'wrap walltime', {'results_key': 'wt_user_key'}])
    return base


def m_trunc_err(results, psi, model, simulation, **kwargs):
    te = getattr(simulation.engine, 'trunc_err', None)
    if te is not None:
        results['trunc_err_eps'] = te.eps


def resume_equals_uninterrupted(rec, quick):
    from tenpy.simulations.simulation import run_simulation, resume_from_checkpoint
    import tenpy
    for kind, mixer in (('tebd', False), ('dmrg', False), ('dmrg', True), ('dmrg-default-min-sweeps', False), ('dmrg-measure-at-checkpoints', False), ('dmrg-chi-list', False), ('tebd-results-key', False),
                        ('correlation', False), ('correlation-braket', False)) + ((('spectral', False),) if not quick else ()):
        with tempfile.TemporaryDirectory() as d:
            params = _sim_params(kind, d, mixer)
            ref = run_simulation(**copy.deepcopy(params))
        n_check = 3 if quick else 6
        for stop_at in range(1, n_check + 1):
            with tempfile.TemporaryDirectory() as d:
                params = _sim_params(kind, d, mixer)
                params['connect_algorithm_checkpoint'] = [('bounded.b_C18', '_stop', {'stop_at': stop_at}, -200)]
                COUNTER['n'] = 0
                rec.begin(f'C18 resume {kind} mixer={mixer} stop_at={stop_at}')
                inp = {'simulation': kind, 'mixer': mixer, 'abort_after_checkpoint': stop_at}
                try:
                    run_simulation(**copy.deepcopy(params))
                    continue       # finished before the abort point
                except Crash:
                    pass
                except Exception as e:
                    rec.violation(f'resume[{kind},mixer={mixer}]:first-run-exception:{type(e).__name__}', str(e)[:200], inp)
                    continue
                rec.case((kind, mixer, stop_at), True, sample=inp if stop_at == 1 else None)
                try:
                    res = resume_from_checkpoint(filename=os.path.join(d, 'res.pkl'),
                                                 update_sim_params={'connect_algorithm_checkpoint': []})
                except Exception as e:
                    rec.violation(f'resume[{kind},mixer={mixer}]:resume-exception:{type(e).__name__}', f'{e}'[:300], inp)
                    continue
                if not isinstance(res, dict):
                    # "finishes with the same ... as an uninterrupted run": run() returns the results, so must the resumed run
                    rec.violation(f'resume[{kind},mixer={mixer}]:returns-no-results', f'resume_from_checkpoint returned {res!r}', inp)
                    from tenpy.tools import hdf5_io
                    res = hdf5_io.load(os.path.join(d, 'res.pkl'))
                # compare
                mref, mres = ref['measurements'], res['measurements']
                if set(mref) != set(mres):
                    rec.violation(f'resume[{kind},mixer={mixer}]:measurement-keys', f'{sorted(set(mref) ^ set(mres))}', inp)
                for key in sorted(set(mref) & set(mres)):
                    a, b = np.asarray(mref[key]), np.asarray(mres[key])
                    if a.shape != b.shape:
                        rec.violation(f'resume[{kind},mixer={mixer}]:measurement-count[{key}]',
                                      f'{key}: {a.shape[0] if a.ndim else 1} measurements uninterrupted, {b.shape[0] if b.ndim else 1} after resume (lost or duplicated)', inp)
                    elif key in ('walltime', 'wt_user_key'):
                        pass      # wall-clock times
                    elif a.dtype != object and not np.allclose(a, b, atol=1e-9, rtol=1e-7, equal_nan=True):
                        rec.violation(f'resume[{kind},mixer={mixer}]:measurement-values[{key}]',
                                      f'{key}: uninterrupted {np.asarray(a).ravel()[-3:]} vs resumed {np.asarray(b).ravel()[-3:]}', inp)
                if 'psi_ground_state' in ref:
                    ovg = abs(ref['psi_ground_state'].overlap(res['psi_ground_state']))
                    rec.check(abs(ovg - 1) < 1e-7, f'resume[{kind},mixer={mixer}]:final-state(psi_ground_state)', f'overlap {ovg}', inp)
                ov = abs(ref['psi'].overlap(res['psi']))
                nrm = abs(ref['psi'].overlap(ref['psi']))           # (the evolved state B|psi> need not be normalised)
                nrm2 = abs(res['psi'].overlap(res['psi']))
                rec.check(abs(ov - nrm) < 1e-7 and abs(nrm2 - nrm) < 1e-7, f'resume[{kind},mixer={mixer}]:final-state',
                          f'|<psi_ref|psi_resumed>| = {ov}, <ref|ref> = {nrm}, <resumed|resumed> = {nrm2}', inp)
                if 'energy' in ref:
                    rec.check(abs(ref['energy'] - res['energy']) < 1e-9, f'resume[{kind},mixer={mixer}]:energy', f"{ref['energy']} vs {res['energy']}", inp)


def run(rec):
    warnings.simplefilter('ignore')
    quick = rec.tier == 'quick'
    rec.rule = ('(A) all 9 entry states (output, backup in {absent, partial, complete}) x a crash right after every file-system step of the '
                'real Simulation.save_results and at 5 byte prefixes of the file being written x {pickle, HDF5}: if a complete loadable file '
                'existed at entry one exists afterwards; normal exit leaves a complete output and no backup. (B) XXZ chain L=6: TEBD real-time '
                'evolution and two-site DMRG (mixer off/on) aborted right after checkpoint k (k = 1..3 quick / 1..6 thorough) and resumed from '
                'the saved file: measurements (keys, counts, values incl. accumulated truncation error), final state, energy equal the '
                'uninterrupted run; non-trivial = crash happened with a complete file present / abort happened before the run finished')
    rec.bounds = {'file_states': 9, 'crash_points': '4 fs steps + 5 byte prefixes', 'formats': ['pkl', 'h5'], 'checkpoints': 3 if quick else 6}
    rec.exhaustive = True
    crash_enumeration(rec)
    resume_keeps_files(rec)
    resume_equals_uninterrupted(rec, quick)
