"""Bounded stand-in for C03: operands observably unchanged (values, legs incl. identity and flags,
labels, qtotal) after every non-in-place operation; in-place methods change only self; shared
LegCharge objects never mutated; deep copies independent."""
import warnings
import numpy as np
from . import gen, tensorops


def run(rec):
    warnings.simplefilter('ignore')
    rng = np.random.default_rng(rec.seed + 3)
    quick = rec.tier == 'quick'
    n_per = 10 if quick else 200
    import tenpy.linalg.np_conserved as npc
    rec.rule = ('every operation of tensorops.OPS: a second live reference (shallow copy taken before) and a fingerprint '
                '(dense values, leg identities, leg contents and flags, labels, qtotal) of each operand must be unchanged '
                'afterwards; deep copy independence; ChargeInfo.make_valid leaves its argument alone; '
                'non-trivial = operand with >= 2 blocks')
    rec.bounds = {'cases_per_op_and_chinfo': n_per}
    for op in tensorops.OPS:
        for ci, chinfo in enumerate(gen.chinfos()):
            for k in range(n_per if ci < 4 else max(2, n_per // 3)):
                dtype = [np.float64, np.complex128][k % 2]
                rec.begin(f'C03 {op.__name__} chinfo={chinfo.mod} k={k}')
                # the op functions build operands and run the op; fingerprints are taken inside via wrapper
                state = {}
                orig_ra = gen.random_array

                def ra(*a, **kw):
                    arr = orig_ra(*a, **kw)
                    state.setdefault('ops', []).append((arr, arr.copy(deep=False), arr.copy(deep=True)))
                    state.setdefault('fp0', {})[id(arr)] = gen.fingerprint(arr)      # value snapshot: a deep copy shares the LegCharge objects
                    return arr
                def note(arr):
                    state.setdefault('ops', []).append((arr, arr.copy(deep=False), arr.copy(deep=True)))
                    state.setdefault('fp0', {})[id(arr)] = gen.fingerprint(arr)
                    return arr
                orig_note = gen.note_operand
                gen.random_array, gen.note_operand = ra, note
                try:
                    ok, c = rec.guarded(f'{op.__name__}:exception', lambda: op(rng, chinfo, dtype), {'op': op.__name__})
                finally:
                    gen.random_array, gen.note_operand = orig_ra, orig_note
                if not ok or c is None:
                    continue
                for arr, shallow, deep in state.get('ops', []):
                    if c.name in ('iadd_prefactor_other',) and False:
                        continue
                    f_now, f_deep = gen.fingerprint(arr), gen.fingerprint(deep)
                    f_0 = state['fp0'][id(arr)]
                    same_vals = np.array_equal(f_now[0], f_deep[0]) and np.array_equal(f_now[0], f_0[0])
                    same_legs = f_now[1:5] == f_0[1:5]            # leg identity, leg content (slices, charges, qconj, flags), labels, qtotal
                    if not (same_vals and same_legs):
                        rec.violation(f'{c.name}:operand-changed',
                                      f'values equal: {same_vals}, legs/labels/qtotal equal: {same_legs}',
                                      {'op': c.name, 'mod': chinfo.mod.tolist()})
                    # the shallow copy shares data: it must still denote the same tensor
                    if not np.array_equal(shallow.to_ndarray(), f_deep[0]):
                        rec.violation(f'{c.name}:shallow-copy-changed', 'second reference sees different values',
                                      {'op': c.name})
                    for l1, l2 in zip(arr.legs, deep.legs):
                        pass
                # the result of a non-in-place operation is an independent object: writing into it must not reach any operand
                import tenpy.linalg.np_conserved as npc_
                res = c.result
                # (gauge_total_charge, add_trivial_leg, unary_blockwise/complex_conj, sort_legcharge are documented to return *shallow* copies)
                documented_shallow = any(t in c.name for t in ('gauge_total_charge', 'add_trivial_leg', 'squeeze', 'unary_blockwise', 'complex_conj', 'sort_legcharge'))
                if isinstance(res, npc_.Array) and c.inplace_on is None and res.dtype.kind in 'fc' and not documented_shallow \
                        and not any(res is a for a, _, _ in state.get('ops', [])):
                    try:
                        res.iscale_prefactor(3.)
                        res += res
                        if res.rank and all(s_ > 0 for s_ in res.shape):
                            res[tuple([0] * res.rank)] = 12345.
                        wrote = True
                    except Exception:
                        wrote = False     # (e.g. element not compatible with the charges: no write happened through this route)
                    for arr, shallow, deep in state.get('ops', []):
                        if not np.array_equal(arr.to_ndarray(), deep.to_ndarray()):
                            rec.violation(f'{c.name}:result-aliases-operand', 'in-place operations on the result changed an operand',
                                          {'op': c.name, 'mod': chinfo.mod.tolist()})
                            break
                rec.case((op.__name__, chinfo.mod.tobytes(), k), any(len(a._data) >= 2 for a, _, _ in state.get('ops', [])),
                         sample={'op': c.name} if k == 0 and ci == 1 else None)
    make_valid_frame(rec, rng)
    inplace_frames(rec, rng)
    shallow_copy_structure(rec, rng)
    mps_frames(rec, rng)
    shift_symmetry_frames(rec, rng)


def make_valid_frame(rec, rng):
    from tenpy.linalg.charges import ChargeInfo
    for mod in ([2], [1, 3], [3, 1], [5, 2, 1]):
        ch = ChargeInfo(mod)
        for shape in ((len(mod),), (4, len(mod))):
            x = rng.integers(-7, 8, size=shape)
            x0 = x.copy()
            rec.begin(f'make_valid mod={mod} shape={shape}')
            r = ch.make_valid(x)
            rec.case(('make_valid', tuple(mod), shape))
            rec.check(np.array_equal(x, x0), 'ChargeInfo.make_valid:argument-mutated',
                      f'argument changed from {x0.tolist()} to {x.tolist()}', {'mod': mod})
            rec.check(r is not x or np.array_equal(r, x0), 'ChargeInfo.make_valid:aliases-argument', 'result aliases a changed argument')
            m = np.array(mod)
            exp = np.where(m == 1, x0, np.mod(x0, np.where(m == 1, 1, m)))
            rec.check(np.array_equal(r, exp), 'ChargeInfo.make_valid:value', f'{r.tolist()} != {exp.tolist()}', {'mod': mod})


def inplace_frames(rec, rng):
    """in-place methods change only self: a shallow copy taken before keeps its values"""
    import tenpy.linalg.np_conserved as npc
    for chinfo in gen.chinfos()[:5]:
        for k in range(6 if rec.tier == 'quick' else 80):
            a = gen.random_array(rng, [gen.random_leg(rng, chinfo) for _ in range(2)], float, labels=['x', 'y'])
            ref = a.to_ndarray().copy()
            for name, fn in [('iscale_prefactor', lambda t: t.iscale_prefactor(3.)),
                             ('iscale_axis', lambda t: t.iscale_axis(np.arange(1., t.shape[0] + 1), 0)),
                             ('iconj', lambda t: t.iconj()),
                             ('itranspose', lambda t: t.itranspose([1, 0])),
                             ('iunary_blockwise', lambda t: t.iunary_blockwise(np.negative)),
                             ('iadd_prefactor_other', lambda t: t.iadd_prefactor_other(2., t.copy(deep=True))),
                             ('isort_qdata', lambda t: t.isort_qdata())]:
                rec.begin(f'inplace {name} chinfo={chinfo.mod} k={k}')
                # a deep copy is fully independent of its source (shallow copies share entries by documentation)
                sh = a.copy(deep=True)
                ok, _ = rec.guarded(f'{name}:exception', lambda: fn(sh), {'op': name})
                rec.case(('inplace', name, chinfo.mod.tobytes(), k), len(a._data) >= 2)
                rec.check(np.array_equal(a.to_ndarray(), ref), f'{name}:other-reference-changed',
                          f'in-place {name} on a deep copy changed the original', {'op': name, 'mod': chinfo.mod.tolist()})
                rec.check(list(a.get_leg_labels()) == ['x', 'y'], f'{name}:other-reference-labels', 'labels of the original changed')


def shallow_copy_structure(rec, rng):
    """a shallow copy shares the entries, not the bookkeeping: in-place operations that only restructure one Array (projection,
    transposition, sorting of the blocks, relabelling, leg replacement) leave every shallow copy denoting the same tensor"""
    import tenpy.linalg.np_conserved as npc
    for ci, chinfo in enumerate(gen.chinfos()[:5]):
        for k in range(5 if rec.tier == 'quick' else 60):
            legs = [gen.random_leg(rng, chinfo) for _ in range(int(rng.integers(2, 4)))]
            labels = [f'l{i}' for i in range(len(legs))]
            def drop_block(t, ax=0):
                # a mask that removes (at least) one complete charge block of leg `ax`: the block numbers behind it change
                leg = t.legs[ax]
                m = rng.random(leg.ind_len) < 0.8
                if leg.block_number > 1:
                    q = int(rng.integers(0, leg.block_number - 1))        # not the last one: later blocks get renumbered
                    m[leg.slices[q]:leg.slices[q + 1]] = False
                if not m.any():
                    m[-1] = True
                return t.iproject(m, ax)
            ops = [('iproject(mask)', lambda t: t.iproject(rng.random(t.shape[0]) < 0.6, 0)),
                   ('iproject(mask without one charge block)', lambda t: drop_block(t, 0)),
                   ('iproject(mask without one charge block, last leg)', lambda t: drop_block(t, t.rank - 1)),
                   ('iproject(indices)', lambda t: t.iproject([int(x) for x in sorted(set(rng.integers(0, t.shape[1], size=2).tolist()))], 1)),
                   ('itranspose', lambda t: t.itranspose([int(x) for x in rng.permutation(t.rank)])),
                   ('isort_qdata', lambda t: t.isort_qdata()),
                   ('ireplace_labels', lambda t: t.ireplace_labels(['l0'], ['new'])),
                   ('iset_leg_labels', lambda t: t.iset_leg_labels([f'm{i}' for i in range(t.rank)])),
                   ('ipurge_zeros', lambda t: t.ipurge_zeros(0.5)),
                   ('legs[0] = bunched leg', lambda t: t.legs.__setitem__(0, t.legs[0].copy()))]
            for name, fn in ops:
                a = gen.random_array(rng, legs, float, labels=labels)
                src = ['drawn', 'deep copy', 'sum'][int(rng.integers(0, 3))]
                if src == 'deep copy':
                    a = a.copy(deep=True)
                elif src == 'sum':
                    a = a + a
                how = ['copy(deep=False)', 'replace_label'][int(rng.integers(0, 2))]
                b = a.copy(deep=False) if how == 'copy(deep=False)' else a.replace_label(labels[-1], 'tmp').ireplace_label('tmp', labels[-1])
                ref = a.to_ndarray().copy()
                inp = {'op': name, 'mod': chinfo.mod.tolist(), 'tensor': src, 'shallow copy by': how}
                rec.begin(f'C03 shallow copy {inp} k={k}')
                ok, _ = rec.guarded(f'{name}:exception', lambda: fn(a), inp)
                rec.case(('shallow', name, ci, k), len(b._data) >= 2)
                bad = gen.sanity(b)
                good = not bad and list(b.get_leg_labels()) == labels
                if good:
                    d = b.to_ndarray()
                    good = d.shape == ref.shape and (np.array_equal(d, ref) if name != 'ipurge_zeros' else True)
                rec.check(good, f'{name}:changes-a-shallow-copy', (bad[0] if bad else 'values / labels / shape of the shallow copy changed'), inp)


def mps_frames(rec, rng):
    """MPS level: in-place methods of one MPS leave every other object alone - the MPS it was copied from, the list of
    sites it was built from, a second MPS built from the same list"""
    from . import mpsgen
    from tenpy.networks.mps import MPS
    fams = dict(mpsgen.site_families())
    names = ['mixed[Fermion(N),SpinHalf(Sz)]', 'mixed[Spin1,Fermion,Boson | parity]', 'SpinHalf[Sz]', 'Fermion[N]']
    for fname in names:
        fam = fams[fname]
        for L in ((3, 4) if rec.tier == 'quick' else (2, 3, 4, 5)):
            for k in range(2 if rec.tier == 'quick' else 8):
                psi0, v = mpsgen.random_mps(rng, fam, L)
                site_list = list(psi0.sites)                      # what the sites were on entry (identities)
                given = mpsgen.make_sites(fam, L)                  # a caller's list, handed to two constructors
                given_ids = [id(x) for x in given]
                st = [0] * L
                pa = MPS.from_product_state(given, st, 'finite')
                pb = MPS.from_product_state(given, st, 'finite')
                ref = mpsgen.dense_state(psi0)
                perm = [int(x) for x in rng.permutation(L)]
                i = int(rng.integers(0, L - 1))
                methods = [('swap_sites', lambda p: p.swap_sites(i)), ('permute_sites', lambda p: p.permute_sites(perm)),
                           ('canonical_form', lambda p: p.canonical_form()), ('convert_form(A)', lambda p: p.convert_form('A')),
                           ('group_sites', lambda p: p.group_sites(2)),
                           ('spatial_inversion', lambda p: p.spatial_inversion())]
                for name, fn in methods:
                    inp = {'family': fname, 'L': L, 'method': name, 'perm': perm, 'i': i}
                    rec.begin(f'C03 MPS frame {inp}')
                    p1 = psi0.copy()
                    ok, _ = rec.guarded(f'MPS.{name}:exception', lambda: fn(p1), inp)
                    rec.case(('mps-frame', fname, L, k, name), True, sample=inp if k == 0 and name == 'swap_sites' else None)
                    same_sites = len(psi0.sites) == L and all(a is b for a, b in zip(psi0.sites, site_list))
                    rec.check(same_sites, f'MPS.{name}:changes-sites-of-the-MPS-it-was-copied-from', 'psi.copy() shares the list of sites', inp)
                    d = mpsgen.dense_state(psi0) if same_sites else None
                    rec.check(d is not None and d.shape == ref.shape and np.allclose(d, ref, atol=1e-12),
                              f'MPS.{name}:changes-the-MPS-it-was-copied-from', '', inp)
                    # two MPS built from one list of sites, and the list itself
                    if name in ('swap_sites', 'permute_sites', 'group_sites', 'spatial_inversion'):
                        pa2 = pa.copy()
                        ok, _ = rec.guarded(f'MPS.{name}[built from a shared list]:exception', lambda: fn(pa), inp)
                        rec.check([id(x) for x in given] == given_ids, f'MPS.{name}:changes-the-callers-list-of-sites', '', inp)
                        rec.check(all(a is b for a, b in zip(pb.sites, given)) and len(pb.sites) == L,
                                  f'MPS.{name}:changes-sites-of-another-MPS-built-from-the-same-list', '', inp)
                        pa = pa2


def shift_symmetry_frames(rec, rng):
    """charges that transform under translation (DipolarChargeInfo): reading a tensor of an infinite MPS / MPO in another unit cell
    shifts the charges of what is *returned* - the stored tensors (values, legs by identity and content, qtotal, labels) stay as they are,
    for every read accessor and both values of `copy`"""
    from tenpy.models.spins import DipolarSpinChain
    from tenpy.networks.mps import MPS
    for L in (2, 3):
        M = DipolarSpinChain({'L': L, 'S': 1, 'bc_MPS': 'infinite', 'conserve': 'dipole', 'J3': 1., 'J4': 0.3})
        psi = MPS.from_product_state(M.lat.mps_sites(), (['0.0', 'up', 'down', '0.0'])[:L], 'infinite', unit_cell_width=M.lat.mps_unit_cell_width)
        H = M.H_MPO

        def snap():
            out = []
            for T in list(psi._B) + list(H._W):
                out.append((T, list(T.legs), [(l.charges.copy(), l.slices.copy(), l.qconj) for l in T.legs], T.qtotal.copy(), T.get_leg_labels(),
                            T.to_ndarray().copy()))
            return out

        def same(s0):
            for (T, legs, content, qt, labs, dense), T_now in zip(s0, list(psi._B) + list(H._W)):
                if T_now is not T or list(T.legs) != legs or not all(a is b for a, b in zip(T.legs, legs)):
                    return 'a stored tensor or one of its legs was replaced'
                for l, (ch, sl, qc) in zip(T.legs, content):
                    if not (np.array_equal(l.charges, ch) and np.array_equal(l.slices, sl) and l.qconj == qc):
                        return 'charges of a leg of a stored tensor changed'
                if not np.array_equal(T.qtotal, qt) or T.get_leg_labels() != labs or not np.array_equal(T.to_ndarray(), dense):
                    return 'qtotal / labels / entries of a stored tensor changed'
            return None
        reads = [('get_B(copy=True)', lambda i: psi.get_B(i, copy=True)), ('get_B(copy=False)', lambda i: psi.get_B(i, copy=False)),
                 ('get_B(form=A)', lambda i: psi.get_B(i, form='A')), ('get_theta(n=1)', lambda i: psi.get_theta(i, n=1)),
                 ('get_theta(n=2)', lambda i: psi.get_theta(i, n=2)), ('expectation_value', lambda i: psi.expectation_value('Sz', sites=[i])),
                 ('get_SL', lambda i: psi.get_SL(i)), ('MPO.get_W(copy=True)', lambda i: H.get_W(i, copy=True)), ('MPO.get_W', lambda i: H.get_W(i))]
        for name, fn in reads:
            for i in (0, L - 1, L, 2 * L + 1, -1, -L - 1):
                inp = {'L': L, 'accessor': name, 'site': i}
                rec.begin(f'C03 shift symmetry {inp}')
                s0 = snap()
                ok, _ = rec.guarded(f'shift-symmetry:{name}:exception', lambda: fn(i), inp)
                rec.case(('shift', L, name, i), i < 0 or i >= L)
                if ok:
                    msg = same(s0)
                    rec.check(msg is None, f'shift-symmetry:{name}:changes-a-stored-tensor', str(msg), inp)
