"""Domain enumerators / generators shared by the bounded stand-ins (real tenpy objects)."""
import itertools

import numpy as np


def chinfos():
    from tenpy.linalg.charges import ChargeInfo
    return [ChargeInfo(), ChargeInfo([1]), ChargeInfo([2]), ChargeInfo([3]), ChargeInfo([1, 1]), ChargeInfo([1, 2]),
            ChargeInfo([5]), ChargeInfo([1, 3, 2])]


def random_leg(rng, chinfo, nblocks=None, max_size=3, qconj=None, kind=None, allow_zero_len=False):
    """kind: 'sorted-blocked' | 'unsorted' | 'dups' (several blocks of equal charge) | 'generic'"""
    from tenpy.linalg.charges import LegCharge
    if nblocks is None:
        nblocks = rng.integers(1, 5)
    if qconj is None:
        qconj = int(rng.choice([1, -1]))
    if kind is None:
        kind = rng.choice(['sorted-blocked', 'unsorted', 'dups', 'generic'])
    if allow_zero_len and rng.random() < 0.5:
        nblocks = 0
    qn = chinfo.qnumber
    ch = rng.integers(-2, 3, size=(nblocks, qn))
    if kind == 'dups' and nblocks >= 2:
        ch[rng.integers(1, nblocks)] = ch[0]
    ch = chinfo.make_valid(ch)
    sizes = rng.integers(1, max_size + 1, size=nblocks)
    slices = np.concatenate([[0], np.cumsum(sizes)]).astype(np.intp)
    leg = LegCharge(chinfo, slices, ch, qconj)
    if kind == 'sorted-blocked':
        _, leg = leg.sort(bunch=True)
    return leg


def random_array(rng, legs, dtype=float, qtotal=None, drop_blocks=0.3, zero_blocks=0.2, labels=None, storage=None):
    import tenpy.linalg.np_conserved as npc
    chinfo = legs[0].chinfo

    def func(shape):
        x = rng.standard_normal(shape)
        if np.issubdtype(np.dtype(dtype), np.complexfloating):
            x = x + 1.j * rng.standard_normal(shape)
        elif np.issubdtype(np.dtype(dtype), np.integer):
            x = rng.integers(-3, 4, size=shape)
        return x.astype(dtype)
    if qtotal is None:
        # choose a qtotal that admits at least one block when possible
        qtotal = npc.detect_qtotal(np.ones([l.ind_len for l in legs]), legs) if all(l.ind_len > 0 for l in legs) and rng.random() < 0.7 \
            else chinfo.make_valid(rng.integers(-1, 2, size=chinfo.qnumber))
    a = npc.Array.from_func(func, legs, dtype=dtype, qtotal=qtotal, labels=labels)
    # remove some blocks (missing blocks) / zero some blocks (stored zeros)
    if len(a._data) > 0:
        keep = rng.random(len(a._data)) >= drop_blocks
        if not keep.all():
            a._data = [d for d, k in zip(a._data, keep) if k]
            a._qdata = a._qdata[keep]
        for d in a._data:
            if rng.random() < zero_blocks:
                d[...] = 0
    # storage order of the blocks: either sorted with a truthful claim, or shuffled with the claim cleared
    if len(a._data) > 1:
        if storage == 'sorted' or (storage is None and rng.random() < 0.5):
            a.isort_qdata()
        else:
            perm = rng.permutation(len(a._data))
            if storage == 'shuffled':
                # explicitly requested: make sure the order really is non-lexicographic
                srt = np.lexsort(a._qdata.T)
                for _ in range(6):
                    if not np.array_equal(srt[perm] if False else np.lexsort(a._qdata[perm].T), np.arange(len(perm))):
                        break
                    perm = rng.permutation(len(a._data))
            a._data = [a._data[i] for i in perm]
            a._qdata = np.ascontiguousarray(a._qdata[perm])
            a._qdata_sorted = False
    a.test_sanity()
    return a


def dense(a):
    return a.to_ndarray()


def fingerprint(a):
    """observable state of an Array: dense values, legs (identity and content), labels, qtotal."""
    return (a.to_ndarray().copy(), tuple(id(l) for l in a.legs),
            tuple((l.slices.copy().tobytes(), l.charges.copy().tobytes(), l.qconj, l.sorted, l.bunched) for l in a.legs),
            tuple(a.get_leg_labels()), a.qtotal.copy().tobytes(), a.dtype)


def same_fingerprint(f1, f2):
    return (np.array_equal(f1[0], f2[0]) and f1[1:] == f2[1:])


def spec_sorted(charges):
    """rows non-decreasing in tenpy's lexsort order (last column is the primary key)"""
    ch = np.asarray(charges)
    if ch.shape[1] == 0 or len(ch) < 2:
        return True
    for r0, r1 in zip(ch[:-1], ch[1:]):
        a, b = tuple(r0[::-1]), tuple(r1[::-1])
        if a > b:
            return False
    return True


def spec_bunched(charges):
    """no two neighbouring blocks carry the same charge"""
    ch = np.asarray(charges)
    return all(np.any(r0 != r1) for r0, r1 in zip(ch[:-1], ch[1:])) if ch.shape[1] > 0 else len(ch) <= 1


def claims_ok(a):
    """recompute every cached claim of an Array and its legs; returns list of false claims."""
    import tenpy.linalg.np_conserved as npc
    bad = []
    for i, l in enumerate(a.legs):
        if l.sorted and not spec_sorted(l.charges):
            bad.append(f'leg {i} claims sorted')
        if l.bunched and not spec_bunched(l.charges):
            bad.append(f'leg {i} claims bunched')
        if l.slices[0] != 0 or l.slices[-1] != l.ind_len or np.any(np.diff(l.slices) < 0) or len(l.slices) != l.block_number + 1:
            bad.append(f'leg {i} slices inconsistent')
        if np.any(l.charges != l.chinfo.make_valid(l.charges)):
            bad.append(f'leg {i} charges not canonical')
    if a._qdata.shape != (len(a._data), a.rank):
        bad.append('qdata shape')
        return bad
    if len(a._data):
        if a._qdata_sorted and len(a._data) > 1:
            perm = np.lexsort(a._qdata.T)
            if np.any(perm != np.arange(len(perm))):
                bad.append('_qdata_sorted claimed but _qdata not lexsorted')
        if len(np.unique(a._qdata, axis=0)) != len(a._qdata):
            bad.append('duplicate block entries')
        for blk, q in zip(a._data, a._qdata):
            shp = tuple(l.slices[qi + 1] - l.slices[qi] for l, qi in zip(a.legs, q))
            if blk.shape != shp:
                bad.append(f'block shape {blk.shape} != {shp}')
            if blk.dtype != a.dtype:
                bad.append(f'block dtype {blk.dtype} != {a.dtype}')
            tot = a.chinfo.make_valid(sum(l.get_charge(qi) for l, qi in zip(a.legs, q)))
            if np.any(tot != a.qtotal):
                bad.append('block violates charge rule')
    if np.any(a.qtotal != a.chinfo.make_valid(a.qtotal)):
        bad.append('qtotal not canonical')
    return bad


def sanity(a):
    """test_sanity at optimisation level 0 + recomputed claims."""
    from tenpy.tools import optimization
    try:
        with optimization.temporary_level('skip_arg_checks') if False else _nullctx():
            a.test_sanity()
    except Exception as e:
        return [f'test_sanity: {type(e).__name__}: {e}']
    return claims_ok(a)


class _nullctx:
    def __enter__(self):
        return self

    def __exit__(self, *a):
        return False


def note_operand(arr):
    """hook: an operand that was derived (not drawn by random_array); the C03 harness replaces this to watch it"""
    return arr
