"""Bounded stand-in for C12 (complete enumeration of the stated finite domain): every predefined
site class over its parameters and conservation options: same physical operators up to `perm`,
defining algebra, h.c. pairs, charges consistent; grouped sites with every charge policy; canonical
anticommutation relations of fermionic operators on chains <= 5 through terms/MPO and correlation functions."""
import itertools
import warnings

import numpy as np

from . import mpsgen


def site_configs():
    from tenpy.networks import site as S
    out = []
    for cons in ['Sz', 'parity', 'None']:
        for sc in [True, False]:
            out.append((f'SpinHalfSite({cons},sort={sc})', lambda c=cons, s=sc: S.SpinHalfSite(conserve=c, sort_charge=s), 'spinhalf'))
    for Sv in [0.5, 1.0, 1.5, 2.0, 2.5, 3.0]:
        for cons in ['Sz', 'parity', 'None']:
            out.append((f'SpinSite(S={Sv},{cons})', lambda s=Sv, c=cons: S.SpinSite(S=s, conserve=c, sort_charge=True), 'spin'))
    for cons in ['N', 'parity', 'None']:
        for filling in [0.5, 0.25]:
            out.append((f'FermionSite({cons},filling={filling})', lambda c=cons, f=filling: S.FermionSite(conserve=c, filling=f), 'fermion'))
    for cN, cS in itertools.product(['N', 'parity', 'None'], ['Sz', 'parity', 'None']):
        out.append((f'SpinHalfFermionSite({cN},{cS})', lambda a=cN, b=cS: S.SpinHalfFermionSite(cons_N=a, cons_Sz=b), 'shf'))
    for cN, cS in itertools.product(['N', 'parity', 'None'], ['Sz', 'parity', 'None']):
        out.append((f'SpinHalfHoleSite({cN},{cS})', lambda a=cN, b=cS: S.SpinHalfHoleSite(cons_N=a, cons_Sz=b), 'shh'))
    for Nmax in [1, 2, 3, 4]:
        for cons in ['N', 'parity', 'None']:
            out.append((f'BosonSite(Nmax={Nmax},{cons})', lambda n=Nmax, c=cons: S.BosonSite(Nmax=n, conserve=c), 'boson'))
    for q in [2, 3, 4, 5]:
        for cons in ['Z', 'None']:
            out.append((f'ClockSite(q={q},{cons})', lambda qq=q, c=cons: S.ClockSite(q=qq, conserve=c), 'clock'))
    return out


def unperm(site, name):
    """operator in the *standard* (unpermuted) basis"""
    m = site.get_op(name).to_ndarray()
    inv = np.argsort(site.perm)
    return m[np.ix_(inv, inv)]


def comm(a, b):
    return a @ b - b @ a


def acomm(a, b):
    return a @ b + b @ a


def check_site(rec, name, fam, kind, reference):
    s = fam()
    inp = {'site': name}
    ok, _ = rec.guarded('Site.test_sanity:exception', s.test_sanity, inp)
    ops = {n: unperm(s, n) for n in s.opnames}
    # same physical operators as the reference (first config of the same class and parameters)
    key = (kind, s.dim, name.split(',')[0].split('(')[1] if kind in ('spin', 'boson', 'clock') else '', getattr(s, 'filling', None))
    ref = reference.setdefault(key, ops)
    for n in ops:
        if n in ref and n not in ('JW',) and ref[n].shape == ops[n].shape:
            rec.check(np.allclose(ops[n], ref[n], atol=1e-12), 'site:operator-differs-between-conserve-options',
                      f'{n} differs from the reference definition', inp)
    d = s.dim
    Id = np.eye(d)
    # declared hermitian conjugates
    for n in s.opnames:
        try:
            h = s.get_hc_op_name(n)
        except Exception as e:
            rec.violation('site:hc-op-missing', f'{n}: {e}', inp)
            continue
        rec.check(np.allclose(ops[n].conj().T, unperm(s, h), atol=1e-12), 'site:hc-pair', f'{n}^dagger != {h}', inp)
    # charges of operators consistent with the states they connect
    leg = s.leg
    qflat = leg.to_qflat()
    for n in s.opnames:
        op = s.get_op(n)
        m = op.to_ndarray()
        nz = np.argwhere(np.abs(m) > 1e-14)
        for i, j in nz:
            dq = leg.chinfo.make_valid(qflat[i] - qflat[j])
            if np.any(dq != op.qtotal):
                rec.violation('site:operator-charge', f'{n}[{i},{j}] connects charges {qflat[j]}->{qflat[i]} but qtotal={op.qtotal}', inp)
                break
    # defining algebra
    if kind in ('spinhalf', 'spin'):
        if 'Sp' in ops:
            Sz, Sp, Sm = ops['Sz'], ops['Sp'], ops['Sm']
            rec.check(np.allclose(comm(Sz, Sp), Sp) and np.allclose(comm(Sz, Sm), -Sm) and np.allclose(comm(Sp, Sm), 2 * Sz),
                      'site:spin-algebra', '[Sz,S+-], [S+,S-]', inp)
            S2 = Sz @ Sz + 0.5 * (Sp @ Sm + Sm @ Sp)
            Sval = (d - 1) / 2
            rec.check(np.allclose(S2, Sval * (Sval + 1) * Id), 'site:spin-casimir', '', inp)
        if 'Sx' in ops:
            rec.check(np.allclose(comm(ops['Sx'], ops['Sy']), 1.j * ops['Sz']), 'site:spin-algebra-xyz', '', inp)
            rec.check(np.allclose(ops['Sx'], 0.5 * (ops['Sp'] + ops['Sm'])) and np.allclose(ops['Sy'], -0.5j * (ops['Sp'] - ops['Sm'])),
                      'site:Sx-Sy-definition', '', inp)
        if 'Sigmaz' in ops:
            rec.check(np.allclose(ops['Sigmaz'], 2 * ops['Sz']), 'site:sigma', '', inp)
    if kind == 'fermion':
        C, Cd, N, JW = ops['C'], ops['Cd'], ops['N'], ops['JW']
        rec.check(np.allclose(acomm(C, Cd), Id) and np.allclose(C @ C, 0) and np.allclose(Cd @ C, N), 'site:fermion-algebra', '', inp)
        rec.check(np.allclose(JW, Id - 2 * N) and np.allclose(acomm(JW, C), 0), 'site:JW-definition', '', inp)
        rec.check(s.op_needs_JW('C') and s.op_needs_JW('Cd') and not s.op_needs_JW('N') and not s.op_needs_JW('Cd C'), 'site:need_JW', '', inp)
    if kind == 'shf':
        Cu, Cdu, Cd_, Cdd = ops['Cu'], ops['Cdu'], ops['Cd'], ops['Cdd']
        JW = ops['JW']
        JWu = ops['JWu']
        # on one site the two species are ordered (u before d) with the intra-site sign JWu in Cd
        rec.check(np.allclose(acomm(Cu, Cdu), Id) and np.allclose(acomm(Cd_, Cdd), Id), 'site:shf-anticommutators', '', inp)
        rec.check(np.allclose(acomm(Cu, Cd_), 0) and np.allclose(acomm(Cu, Cdd), 0) and np.allclose(acomm(Cdu, Cdd), 0), 'site:shf-mixed-anticommutators', '', inp)
        rec.check(np.allclose(ops['Nu'], Cdu @ Cu) and np.allclose(ops['Nd'], Cdd @ Cd_) and np.allclose(ops['Ntot'], ops['Nu'] + ops['Nd'])
                  and np.allclose(ops['NuNd'], ops['Nu'] @ ops['Nd']), 'site:shf-number-operators', '', inp)
        rec.check(np.allclose(JW, (Id - 2 * ops['Nu']) @ (Id - 2 * ops['Nd'])), 'site:shf-JW', '', inp)
        rec.check(np.allclose(ops['Sz'], 0.5 * (ops['Nu'] - ops['Nd'])) and np.allclose(ops['Sp'], Cdu @ Cd_) and np.allclose(ops['Sm'], Cdd @ Cu),
                  'site:shf-spin-operators', '', inp)
    if kind == 'shh':
        Cu, Cdu, Cd_, Cdd = ops['Cu'], ops['Cdu'], ops['Cd'], ops['Cdd']
        P = Id - ops['Nu'] @ ops['Nd'] if 'Nu' in ops else Id
        rec.check(np.allclose(Cdu, Cu.conj().T) and np.allclose(Cdd, Cd_.conj().T), 'site:shh-hc', '', inp)
        rec.check(np.allclose(ops['Ntot'], ops['Nu'] + ops['Nd']) and np.allclose(ops['Nu'], Cdu @ Cu) and np.allclose(ops['Nd'], Cdd @ Cd_),
                  'site:shh-number-operators', '', inp)
        rec.check(np.allclose(acomm(Cu, Cd_), 0), 'site:shh-mixed-anticommutator', '', inp)
    if kind == 'boson':
        B, Bd, N = ops['B'], ops['Bd'], ops['N']
        c = comm(B, Bd)
        # truncated: [B, Bd] = 1 except in the highest level
        rec.check(np.allclose(c[:-1, :-1], np.eye(d - 1)) and np.allclose(N, Bd @ B) and np.allclose(np.diag(N), np.arange(d)),
                  'site:boson-algebra', '', inp)
        rec.check(np.allclose(ops['NN'], N @ N) and np.allclose(ops['dN'], N - s.filling * Id) and np.allclose(ops['P'], np.diag((-1.) ** np.arange(d))),
                  'site:boson-derived', '', inp)
    if kind == 'clock':
        q = d
        w = np.exp(2.j * np.pi / q)
        X, Z = ops['X'], ops['Z']
        rec.check(np.allclose(np.linalg.matrix_power(X, q), Id) and np.allclose(np.linalg.matrix_power(Z, q), Id)
                  and (np.allclose(Z @ X, w * X @ Z) or np.allclose(X @ Z, w * Z @ X)), 'site:clock-relations', '', inp)
        rec.check(np.allclose(ops['Xhc'], X.conj().T) and np.allclose(ops['Zhc'], Z.conj().T), 'site:clock-derived', '', inp)
        if 'Xphc' in ops:
            rec.check(np.allclose(ops['Xphc'], X + X.conj().T) and np.allclose(ops['Zphc'], Z + Z.conj().T), 'site:clock-derived-phc', '', inp)
    # product names and hc of product names
    names = [n for n in sorted(s.opnames) if n not in ('Id',)][:4]
    for a, b in itertools.product(names, repeat=2):
        pn = f'{a} {b}'
        m = s.get_op(pn).to_ndarray() if s.valid_opname(pn) else None
        if m is not None:
            rec.check(np.allclose(m, s.get_op(a).to_ndarray() @ s.get_op(b).to_ndarray()), 'site:product-name', pn, inp)
            rec.check(s.op_needs_JW(pn) == (s.op_needs_JW(a) != s.op_needs_JW(b)), 'site:op_needs_JW-product', pn, inp)
            h = s.get_hc_op_name(pn)
            rec.check(np.allclose(s.get_op(h).to_ndarray(), m.conj().T), 'site:hc-of-product', f'hc({pn}) = {h}', inp)
    return s


def check_grouped(rec, rng):
    from tenpy.networks import site as S
    fams = [lambda: S.SpinHalfSite('Sz'), lambda: S.FermionSite('N'), lambda: S.BosonSite(2, 'N'), lambda: S.SpinHalfFermionSite('N', 'Sz'),
            lambda: S.FermionSite('parity'), lambda: S.SpinSite(1., 'Sz')]
    for n in (2, 3):
        for combo in itertools.product(range(len(fams)), repeat=n):
            if rng.random() > (0.15 if n == 3 else 0.5):
                continue
            sites = [fams[i]() for i in combo]
            for policy in ('same', 'drop', 'independent'):
                inp = {'sites': [type(s).__name__ for s in sites], 'charges': policy}
                if policy == 'same' and len(set(tuple(s.leg.chinfo.names) for s in sites)) > 1:
                    continue
                rec.begin(f'C12 grouped {inp}')
                ok, g = rec.guarded('GroupedSite:exception', lambda: S.GroupedSite(sites, charges=policy), inp)
                rec.case(('grouped', combo, policy))
                if not ok:
                    continue
                ok, _ = rec.guarded('GroupedSite.test_sanity:exception', g.test_sanity, inp)
                # operator on sub-site k in the grouped site = kron with JW on the sites to the left when needed
                dims = [s.dim for s in sites]
                for k, s in enumerate(g.sites):
                    for name in sorted(s.opnames)[:4]:
                        gname = f'{name}{k}'
                        if gname not in g.opnames:
                            continue
                        m = g.get_op(gname).to_ndarray()
                        mats = []
                        for l, sl in enumerate(g.sites):
                            if l < k and s.op_needs_JW(name):
                                mats.append(sl.get_op('JW').to_ndarray())
                            elif l == k:
                                mats.append(s.get_op(name).to_ndarray())
                            else:
                                mats.append(np.eye(dims[l]))
                        kr = mats[0]
                        for x in mats[1:]:
                            kr = np.kron(kr, x)
                        idx = np.array([g.leg.map_incoming_flat(list(mi)) if hasattr(g.leg, 'map_incoming_flat') else np.ravel_multi_index(mi, dims)
                                        for mi in np.ndindex(*dims)])
                        rec.check(np.allclose(m[np.ix_(idx, idx)], kr), 'GroupedSite:operator', f'{gname} != kron (with JW on the left)', inp)


def check_op_management(rec, rng):
    """renaming / adding / removing operators of a site keeps everything that is attached to an operator: its matrix, whether it needs a
    Jordan-Wigner string, its hermitian-conjugate partner - and a chain built from the edited site still satisfies the CAR"""
    import copy
    from tenpy.networks import site as S
    from tenpy.networks.mps import MPS
    for mk, nm in ((lambda: S.FermionSite('N'), 'FermionSite(N)'), (lambda: S.SpinHalfFermionSite('N', 'Sz'), 'SpinHalfFermionSite(N,Sz)'),
                   (lambda: S.SpinHalfSite('Sz'), 'SpinHalfSite(Sz)'), (lambda: S.BosonSite(2, 'N'), 'BosonSite(2,N)')):
        s0 = mk()
        for name in sorted(s0.opnames):
            if name in ('Id', 'JW'):
                continue
            s = mk()
            inp = {'site': nm, 'op': name}
            rec.begin(f'C12 rename_op {inp}')
            rec.case(('rename', nm, name), bool(s.op_needs_JW(name)))
            mat, jw, hc = s.get_op(name).to_ndarray().copy(), s.op_needs_JW(name), s.hc_ops.get(name)
            ok, _ = rec.guarded('Site.rename_op:exception', lambda: s.rename_op(name, name + '_renamed'), inp)
            if not ok:
                continue
            new = name + '_renamed'
            good = new in s.opnames and name not in s.opnames and np.array_equal(s.get_op(new).to_ndarray(), mat)
            rec.check(good, 'Site.rename_op:operator', 'matrix / name set after renaming', inp)
            rec.check(bool(s.op_needs_JW(new)) == bool(jw), 'Site.rename_op:needs-JW-lost', f'needs JW before: {jw}, after: {s.op_needs_JW(new)}', inp)
            if hc is not None:
                exp_hc = new if hc == name else hc
                rec.check(s.hc_ops.get(new) == exp_hc and (hc == name or s.hc_ops.get(hc) == new), 'Site.rename_op:hc-partner',
                          f'hc_ops[{new}] = {s.hc_ops.get(new)}, expected {exp_hc}', inp)
            ok, _ = rec.guarded('Site.rename_op:test_sanity', s.test_sanity, inp)
        # add_op / remove_op
        s = mk()
        some = sorted(n for n in s.opnames if n not in ('Id', 'JW'))[0]
        for need_JW in (False, True):
            inp = {'site': nm, 'need_JW': need_JW}
            rec.begin(f'C12 add_op {inp}')
            ok, _ = rec.guarded('Site.add_op:exception', lambda: s.add_op(f'X{int(need_JW)}', s.get_op(some).to_ndarray(), need_JW=need_JW, hc=False), inp)
            if ok:
                rec.check(bool(s.op_needs_JW(f'X{int(need_JW)}')) == need_JW, 'Site.add_op:needs-JW', '', inp)
                s.remove_op(f'X{int(need_JW)}')
                rec.check(f'X{int(need_JW)}' not in s.opnames and f'X{int(need_JW)}' not in s.need_JW_string and f'X{int(need_JW)}' not in s.hc_ops,
                          'Site.remove_op:leftovers', '', inp)
    # a fermion chain whose operators were renamed still anticommutes across sites
    s = S.FermionSite('N')
    s.rename_op('C', 'c')
    s.rename_op('Cd', 'cd')
    L = 4
    from .b_C10 import mpo_dense
    from tenpy.networks.terms import TermList
    from tenpy.networks.mpo import MPOGraph
    sites = [s] * L
    plain = [S.FermionSite('N')] * L
    for i, j in ((0, 2), (1, 3), (2, 0)):
        inp = {'sites': 'FermionSite with C -> c, Cd -> cd', 'term': [('cd', i), ('c', j)]}
        rec.begin(f'C12 renamed fermions {inp}')
        ok, M = rec.guarded('renamed-fermions:term->MPO:exception',
                            lambda: mpo_dense(MPOGraph.from_term_list(TermList([[('cd', i), ('c', j)]], [1.0]), sites, 'finite').build_MPO(), sites), inp)
        if ok:
            exp = mpsgen.op_dense(plain, [('Cd', i), ('C', j)])
            rec.check(np.allclose(M, exp), 'renamed-fermions:term->MPO', 'differs from the fermionic operator (hard-core bosons?)', inp)


def check_common_charges(rec):
    """set_common_charges on sites with different conserved quantities, with and without sorting by charge: every site passes its own
    sanity check afterwards, carries the requested charge values per basis state, and the operators are the same matrices (up to the
    returned permutation)"""
    from tenpy.networks import site as S
    for sort_charge in (True, False):
        f, s = S.FermionSite('N'), S.SpinHalfSite('Sz')
        ops_before = [{n: x.get_op(n).to_ndarray().copy() for n in x.opnames} for x in (f, s)]
        q_before = [x.leg.to_qflat()[:, 0].copy() for x in (f, s)]
        inp = {'sites': 'FermionSite(N), SpinHalfSite(Sz)', 'new_charges': '[N, 2*Sz]', 'sort_charge': sort_charge}
        rec.begin(f'C12 set_common_charges {inp}')
        rec.case(('common-charges', sort_charge), True)
        ok, perms = rec.guarded('set_common_charges:exception', lambda: S.set_common_charges([f, s], new_charges=[[(1, 0, 0)], [(1, 1, 0)]],
                                                                                              new_names=['N', '2*Sz'], new_mod=[1, 1], sort_charge=sort_charge), inp)
        if not ok:
            continue
        for k, x in enumerate((f, s)):
            okk, _ = rec.guarded('set_common_charges:test_sanity', x.test_sanity, dict(inp, site=k))
            perm = np.asarray(perms[k]) if (sort_charge and perms is not None) else np.arange(x.dim)
            qf = x.leg.to_qflat()
            exp = np.zeros((x.dim, 2), dtype=qf.dtype)
            exp[:, k] = q_before[k][perm]
            rec.check(np.array_equal(qf, exp), 'set_common_charges:charges', f'site {k}: {qf.tolist()} vs {exp.tolist()}', dict(inp, site=k))
            for n, m in ops_before[k].items():
                rec.check(np.allclose(x.get_op(n).to_ndarray(), m[np.ix_(perm, perm)]), 'set_common_charges:operator', f'site {k} op {n}', dict(inp, site=k))


def check_car(rec, rng, quick):
    """canonical anticommutation relations of fermionic operators placed through the JW machinery"""
    from tenpy.networks import site as S
    from tenpy.networks.mps import MPS
    from tenpy.networks.terms import TermList
    from tenpy.networks.mpo import MPOGraph
    from .b_C10 import mpo_dense
    for fam, ann, cre in [(lambda: S.FermionSite('N'), ['C'], ['Cd']), (lambda: S.SpinHalfFermionSite('N', 'Sz'), ['Cu', 'Cd'], ['Cdu', 'Cdd'])]:
        for L in ([3, 4] if quick else [2, 3, 4, 5]):
            sites = [fam() for _ in range(L)]
            dims = [s.dim for s in sites]
            D = int(np.prod(dims))
            # dense single operators with JW strings
            def dense1(name, i):
                return mpsgen.op_dense(sites, [(name, i)])
            modes = [(a, c, i) for i in range(L) for a, c in zip(ann, cre)]
            for (a1, c1, i), (a2, c2, j) in itertools.product(modes, repeat=2):
                rec.begin(f'C12 CAR L={L} {(a1, i)} {(c2, j)}')
                A, B = dense1(a1, i), dense1(c2, j)
                same = (a1 == a2 and i == j)
                rec.check(np.allclose(acomm(A, B), np.eye(D) if same else 0), 'CAR:dense-JW-oracle', f'{{{a1}_{i}, {c2}_{j}}}', {'L': L})
                rec.case(('car', L, a1, i, c2, j))
                # through the term -> MPO machinery:  c_i^dagger c_j as a term must equal the dense product
                for t in ([(c2, j), (a1, i)], [(a1, i), (c2, j)]):
                    exp = mpsgen.op_dense(sites, t)
                    def via_mpo():
                        g = MPOGraph.from_term_list(TermList([t], [1.0]), sites, 'finite')
                        return mpo_dense(g.build_MPO(), sites)
                    ok, M = rec.guarded('CAR:term->MPO:exception', via_mpo, {'L': L, 'term': t})
                    if ok:
                        rec.check(np.allclose(M, exp), 'CAR:term->MPO', f'term {t}', {'L': L, 'term': t})
            # through correlation functions on a random state: <c_i^dag c_j> + <c_j c_i^dag> = delta_ij
            fam_name = type(sites[0]).__name__
            psi, v = mpsgen.random_mps(rng, fam, L)
            for a, c in zip(ann, cre):
                ok, C1 = rec.guarded('CAR:correlation_function:exception', lambda: psi.correlation_function(c, a), {'L': L})
                ok2, C2 = rec.guarded('CAR:correlation_function:exception', lambda: psi.correlation_function(a, c), {'L': L})
                if ok and ok2:
                    rec.check(np.allclose(C1 + C2.T, np.eye(L), atol=1e-9), 'CAR:correlation-functions', f'<{c}_i {a}_j> + <{a}_j {c}_i> != delta', {'L': L, 'site': fam_name})
            # the same through the term correlation functions (the moving term is the left / the right one); odd-parity terms
            if L >= 3:
                for a, c in list(zip(ann, cre))[:2]:
                    for x, y in ((a, c), (c, a), (a, a)):
                        js = list(range(1, L))
                        ok, r = rec.guarded('CAR:term_correlation_function_right:exception',
                                            lambda: psi.term_correlation_function_right([(x, 0)], [(y, 0)], i_L=0, j_R=js), {'L': L, 'ops': (x, y)})
                        if ok:
                            exp = [mpsgen.expect_dense(v, sites, [(x, 0), (y, j)]) for j in js]
                            rec.check(np.allclose(r, exp, atol=1e-9), 'CAR:term_correlation_function_right', f'<{x}_0 {y}_j>', {'L': L, 'ops': (x, y), 'site': fam_name})
                        il = list(range(0, L - 1))
                        ok, r = rec.guarded('CAR:term_correlation_function_left:exception',
                                            lambda: psi.term_correlation_function_left([(x, 0)], [(y, 0)], i_L=il, j_R=L - 1), {'L': L, 'ops': (x, y)})
                        if ok:
                            exp = [mpsgen.expect_dense(v, sites, [(x, i), (y, L - 1)]) for i in sorted(il, reverse=True)]
                            rec.check(np.allclose(r, exp, atol=1e-9), 'CAR:term_correlation_function_left', f'<{x}_i {y}_(L-1)>', {'L': L, 'ops': (x, y), 'site': fam_name})
            # ... and between *sums* of odd-parity terms that start on different sites (term_list_correlation_function_right pads the
            # shorter ones on the left - with a Jordan-Wigner string):  <x_0 (y_j + alpha y_{j+1})>,  <(x_0 + beta x_1) (y_j + alpha y_{j+1})>
            if L >= 4:
                for a, c in list(zip(ann, cre))[:2]:
                    for x, y in ((a, c), (c, a)):
                        al, be = 0.7 - 0.2j, -0.4 + 0.5j
                        for tagL, tlL, left in (('single', TermList([[(x, 0)]], [1.0]), [(1.0, 0)]),
                                                ('sum', TermList([[(x, 0)], [(x, 1)]], [1.0, be]), [(1.0, 0), (be, 1)])):
                            tlR = TermList([[(y, 0)], [(y, 1)]], [1.0, al])
                            js = list(range(2, L - 1))
                            inp = {'L': L, 'ops': (x, y), 'site': fam_name, 'left': tagL}
                            ok, r = rec.guarded('CAR:term_list_correlation_function_right:exception',
                                                lambda: psi.term_list_correlation_function_right(tlL, tlR, i_L=0, j_R=js), inp)
                            if ok:
                                exp = [sum(cl * cr * mpsgen.expect_dense(v, sites, [(x, kl), (y, j + kr)]) for cl, kl in left for cr, kr in ((1.0, 0), (al, 1)))
                                       for j in js]
                                rec.check(np.allclose(r, exp, atol=1e-9), 'CAR:term_list_correlation_function_right',
                                          f'{np.asarray(r)} vs dense {np.asarray(exp)}', inp)
            # quadruples through expectation_value_term
            for _ in range(10 if quick else 100):
                idx = rng.integers(0, L, size=4)
                names = [str(rng.choice(cre)), str(rng.choice(cre)), str(rng.choice(ann)), str(rng.choice(ann))]
                order = rng.permutation(4)
                term = [(names[k], int(idx[k])) for k in order]
                exp = mpsgen.expect_dense(v, sites, term)
                ok, ev = rec.guarded('CAR:expectation_value_term:exception', lambda: psi.expectation_value_term(term), {'L': L, 'term': term})
                rec.case(('quad', L, tuple(term)))
                if ok:
                    rec.check(abs(ev - exp) < 1e-9, 'CAR:quadruple-term', f'{term}: {ev} vs dense {exp}', {'L': L, 'term': term})


def run(rec):
    warnings.simplefilter('ignore')
    rng = np.random.default_rng(rec.seed + 12)
    quick = rec.tier == 'quick'
    rec.rule = ('complete enumeration: every predefined site class x parameter (S <= 3, Nmax <= 4, q <= 5, fillings) x conservation option '
                '(operators equal up to perm across options, defining algebra, h.c. pairs, operator charges, product names); grouped sites '
                'of 2-3 heterogeneous sites x charge policy; canonical anticommutation relations for all pairs of fermionic operators on '
                'chains (terms -> MPO, correlation functions) and sampled quadruples; non-trivial = every case (finite algebraic identities)')
    rec.bounds = {'S_max': 3, 'Nmax': 4, 'q_max': 5, 'chain_L': [2, 3, 4, 5]}
    rec.exhaustive = True
    reference = {}
    for name, fam, kind in site_configs():
        rec.begin(f'C12 site {name}')
        ok, s = rec.guarded('site:exception', lambda: check_site(rec, name, fam, kind, reference), {'site': name})
        rec.case(('site', name), True, sample={'site': name} if name.startswith('FermionSite(N') else None)
    check_grouped(rec, rng)
    check_op_management(rec, rng)
    check_common_charges(rec)
    check_car(rec, rng, quick)
    hetero_term_correlations(rec, rng, quick)


def hetero_term_correlations(rec, rng, quick):
    """term correlation functions on a chain of different site types, the terms given relative to an offset: whether a factor needs
    a Jordan-Wigner string is a question to the site it finally acts on"""
    from tenpy.networks.terms import TermList
    fams = dict(mpsgen.site_families())
    fam = fams['mixed[Spin1,Fermion,Boson | parity]']
    for L in ((5,) if quick else (5, 6)):
        for rep in range(2 if quick else 6):
            psi, v = mpsgen.random_mps(rng, fam, L)
            sites = psi.sites
            ferm = [i for i, st in enumerate(sites) if 'C' in st.opnames]
            if len(ferm) < 2:
                continue
            i0, j0 = ferm[0], ferm[1]
            inp = {'L': L, 'sites': [type(x).__name__ for x in sites], 'left_site': i0, 'right_site': j0}
            rec.begin(f'C12 heterogeneous term correlations {inp}')
            rec.case(('hetero', L, rep), True, sample=inp if rep == 0 else None)
            for x, y in (('C', 'Cd'), ('Cd', 'C')):
                exp = mpsgen.expect_dense(v, sites, [(x, i0), (y, j0)])
                # the terms are written at index 0 and moved by the offsets
                ok, r = rec.guarded('hetero:term_correlation_function_right:exception',
                                    lambda: psi.term_correlation_function_right([(x, 0)], [(y, 0)], i_L=i0, j_R=[j0]), inp)
                if ok:
                    rec.check(abs(np.asarray(r).ravel()[0] - exp) < 1e-9, 'hetero:term_correlation_function_right(offset)', f'<{x}_{i0} {y}_{j0}> = {r} vs dense {exp}', inp)
                ok, r = rec.guarded('hetero:term_correlation_function_left:exception',
                                    lambda: psi.term_correlation_function_left([(x, 0)], [(y, 0)], i_L=[i0], j_R=j0), inp)
                if ok:
                    rec.check(abs(np.asarray(r).ravel()[0] - exp) < 1e-9, 'hetero:term_correlation_function_left(offset)', f'<{x}_{i0} {y}_{j0}> = {r} vs dense {exp}', inp)
                ok, r = rec.guarded('hetero:term_list_correlation_function_right:exception',
                                    lambda: psi.term_list_correlation_function_right(TermList([[(x, 0)]], [1.]), TermList([[(y, 0)]], [1.]), i_L=i0, j_R=[j0]), inp)
                if ok:
                    rec.check(abs(np.asarray(r).ravel()[0] - exp) < 1e-9, 'hetero:term_list_correlation_function_right(offset)', f'{r} vs dense {exp}', inp)
                # the same written with absolute indices
                ok, ev = rec.guarded('hetero:expectation_value_term:exception', lambda: psi.expectation_value_term([(x, i0), (y, j0)]), inp)
                if ok:
                    rec.check(abs(ev - exp) < 1e-9, 'hetero:expectation_value_term', f'{ev} vs dense {exp}', inp)
