"""Bounded stand-in for C14: every time-evolution engine on small chains against exp(-iHt) from
exact diagonalisation: observed order of convergence, exact charge conservation, norm/energy
constancy, evolved_time == N*dt for any split into run() calls, trunc_err == sum of the performed
truncations.  Bound: XXZ / long-range chains of 6 sites, <= 3 step sizes, chi unrestricted or 4.
"""
import warnings

import numpy as np


def _model(kind, L=6):
    from tenpy.models.xxz_chain import XXZChain
    from tenpy.models.spins import SpinChain
    if kind == 'xxz':
        return XXZChain({'L': L, 'Jxx': 1.0, 'Jz': 0.7, 'hz': 0.3, 'bc_MPS': 'finite'})
    return SpinChain({'L': L, 'S': 0.5, 'Jx': 1.0, 'Jy': 1.0, 'Jz': 0.5, 'hz': 0.2, 'bc_MPS': 'finite', 'conserve': 'Sz'})


def _exact(M, psi0, t):
    from tenpy.algorithms.exact_diag import ExactDiag
    ED = ExactDiag(M)
    ED.build_full_H_from_mpo()
    ED.full_diagonalization()
    v0 = ED.mps_to_full(psi0)
    return ED, ED.exp_H(-1.j * t) if hasattr(ED, 'exp_H_dummy') else ED, v0


def _exact_state(ED, v0, t):
    import tenpy.linalg.np_conserved as npc
    # exp(-iHt) v0 = V exp(-iEt) V^dagger v0
    V, E = ED.V, ED.E
    c = npc.tensordot(V.conj(), v0, axes=[0, 0])   # labels: 'ps*' contracted -> coefficient vector
    c = c.scale_axis(np.exp(-1.j * t * E), 0)
    return npc.tensordot(V, c, axes=[1, 0])


ENGINES = {
    'TEBD-1': ('tebd', {'order': 1}, 1), 'TEBD-2': ('tebd', {'order': 2}, 2), 'TEBD-4': ('tebd', {'order': 4}, 4),
    'TEBD-4_opt': ('tebd', {'order': '4_opt'}, 4), 'QR-TEBD-2': ('qrtebd', {'order': 2}, 2),
    'TDVP-2site': ('tdvp2', {}, 2), 'TDVP-1site': ('tdvp1', {}, 2),
    # single-site TDVP with the documented Krylov basis expansion before every step (MPO applied by SVD compression)
    'TDVP-1site-krylov': ('tdvp1', {'Krylov_params': {'expansion_dim': 1, 'apply_mpo_options': {'compression_method': 'SVD', 'trunc_params': {'chi_max': 64}}}}, 2),
    'ExpMPO-I': ('mpo', {'approximation': 'I', 'order': 1}, 1), 'ExpMPO-II': ('mpo', {'approximation': 'II', 'order': 1}, 1),
    'ExpMPO-II-o2': ('mpo', {'approximation': 'II', 'order': 2}, 2),
}


def _engine(kind, psi, M, opts):
    from tenpy.algorithms import tebd, tdvp, mpo_evolution
    if kind == 'tebd':
        return tebd.TEBDEngine(psi, M, opts)
    if kind == 'qrtebd':
        return tebd.QRBasedTEBDEngine(psi, M, opts)
    if kind == 'tdvp2':
        return tdvp.TwoSiteTDVPEngine(psi, M, opts)
    if kind == 'tdvp1':
        return tdvp.SingleSiteTDVPEngine(psi, M, opts)
    if kind == 'mpo':
        return mpo_evolution.ExpMPOEvolution(psi, M, opts)
    raise ValueError(kind)


def _init_state(M, entangled):
    from tenpy.networks.mps import MPS
    L = M.lat.N_sites
    psi = MPS.from_product_state(M.lat.mps_sites(), ['up', 'down'] * (L // 2), 'finite')
    if entangled:
        # a few TEBD steps to get a state with bond dimension > 1 (needed for single-site TDVP)
        from tenpy.algorithms import tebd
        eng = tebd.TEBDEngine(psi, M, {'dt': 0.05, 'N_steps': 10, 'order': 2, 'trunc_params': {'chi_max': 64, 'svd_min': 1e-14}})
        eng.run()
    return psi


def order_case(rec, name, split, imag=False):
    kind, extra, order = ENGINES[name]
    M = _model('xxz')
    psi0 = _init_state(M, entangled=(kind == 'tdvp1'))
    from tenpy.algorithms.exact_diag import ExactDiag
    ED = ExactDiag(M)
    ED.build_full_H_from_mpo()
    ED.full_diagonalization()
    v0 = ED.mps_to_full(psi0)
    T = 0.4 if not imag else -0.4j          # imaginary steps: exp(-i H dt) with dt = -i tau is exp(-tau H)
    errs = []
    import tenpy.linalg.np_conserved as npc
    vT = _exact_state(ED, v0, T)
    E0 = None
    for nsteps in (4, 8):
        dt = T / nsteps
        psi = psi0.copy()
        opts = {'dt': dt, 'N_steps': 1, 'trunc_params': {'chi_max': 100, 'svd_min': 1e-14, 'trunc_cut': None},
                'preserve_norm': None}
        opts.update(extra)
        if kind == 'mpo':
            opts['compression_method'] = 'SVD'
        eng = _engine(kind, psi, M, opts)
        q0 = psi.get_total_charge(True).copy()
        E_before = M.H_MPO.expectation_value(psi)
        done = 0
        for chunk in split(nsteps):
            eng.options['N_steps'] = chunk
            eng.run()
            done += chunk
            if abs(eng.evolved_time - done * dt) > 1e-12:
                rec.violation(f'{name}{"[imaginary]" if imag else ""}:evolved_time', f'after {done} steps of {dt}: evolved_time={eng.evolved_time}',
                              {'engine': name, 'dt': dt, 'steps': done})
        q1 = psi.get_total_charge(True)
        if not np.array_equal(q0, q1):
            rec.violation(f'{name}:charge', f'total charge changed {q0} -> {q1}', {'engine': name})
        v = ED.mps_to_full(psi)
        ov = npc.inner(vT, v, axes='range', do_conj=True)
        phase = ov / abs(ov)
        err = npc.norm(v / npc.norm(v) - (phase / npc.norm(vT)) * vT)
        errs.append(err)
        nrm = psi.norm
        if imag:
            continue          # norm and energy are not constant in imaginary time
        if abs(nrm - 1.0) > max(1e-8, 10 * err):
            rec.violation(f'{name}:norm', f'norm {nrm} after real-time evolution (state error {err})', {'engine': name, 'dt': dt})
        E_after = M.H_MPO.expectation_value(psi)
        if abs(E_after - E_before) > max(1e-8, 20 * err):
            rec.violation(f'{name}:energy', f'energy drift {E_after - E_before} (state error {err})', {'engine': name, 'dt': dt})
    if errs[1] > 1e-11:
        obs = np.log2(errs[0] / errs[1])
        if obs < order - 0.45:
            rec.violation(f'{name}{"[imaginary]" if imag else ""}:order', f'errors {errs} for dt, dt/2 give observed order {obs:.2f}, documented {order}',
                          {'engine': name, 'T': str(T)})
    return {'engine': name, 'errors': errs}


TD_ENGINES = {'TimeDependentTEBD': ('tebd', 'TimeDependentTEBD', {'order': 2}), 'TimeDependentExpMPOEvolution': ('mpo_evolution', 'TimeDependentExpMPOEvolution', {'approximation': 'II', 'order': 1, 'compression_method': 'SVD'}),
              'TimeDependentTwoSiteTDVP': ('tdvp', 'TimeDependentTwoSiteTDVP', {}), 'TimeDependentSingleSiteTDVP': ('tdvp', 'TimeDependentSingleSiteTDVP', {})}


def time_dependent_case(rec, name):
    """H(t) = H_XXZ + 1.5 t sum_i Sz_i Sz_{i+1}: the drivers that rebuild the model after every step reproduce the time-ordered
    exponential with an error that shrinks (documented: first order) with the step; evolved_time advances by N*dt"""
    import importlib
    import scipy.linalg
    from tenpy.models.spins import SpinChain
    from tenpy.algorithms.exact_diag import ExactDiag

    class DrivenChain(SpinChain):
        def init_terms(self, model_params):
            t = model_params.get('time', 0., 'real')
            super().init_terms(model_params)
            self.add_coupling(1.5 * t, 0, 'Sz', 0, 'Sz', 1)
    pars = {'L': 6, 'S': 0.5, 'Jx': 1.0, 'Jy': 1.0, 'Jz': 0.5, 'hz': 0.2, 'bc_MPS': 'finite', 'conserve': 'Sz'}

    def dense_H(t):
        ED = ExactDiag(DrivenChain(dict(pars, time=t)))
        ED.build_full_H_from_mpo()
        return ED, ED.full_H.to_ndarray()
    ED, H0 = dense_H(0.)
    H1 = dense_H(1.)[1] - H0
    modname, clsname, extra = TD_ENGINES[name]
    cls = getattr(importlib.import_module('tenpy.algorithms.' + modname), clsname)
    M0 = DrivenChain(dict(pars, time=0.))
    psi0 = _init_state(M0, entangled=True)
    v0 = ED.mps_to_full(psi0).to_ndarray()
    T, fine = 0.4, 800
    vT = v0.copy()
    for k in range(fine):      # time-ordered exponential, midpoint rule with a very small step
        vT = scipy.linalg.expm(-1.j * (T / fine) * (H0 + (k + 0.5) * (T / fine) * H1)) @ vT
    errs = []
    for nsteps in (8, 16):
        dt = T / nsteps
        psi = psi0.copy()
        opts = {'dt': dt, 'N_steps': nsteps, 'trunc_params': {'chi_max': 100, 'svd_min': 1e-14, 'trunc_cut': None}}
        opts.update(extra)
        eng = cls(psi, DrivenChain(dict(pars, time=0.)), opts)
        eng.run()
        if abs(eng.evolved_time - T) > 1e-12:
            rec.violation(f'{name}:evolved_time', f'{eng.evolved_time} after {nsteps} steps of {dt}', {'engine': name})
        if abs(eng.model.options.get('time', None) - T) > 1e-12:
            rec.violation(f'{name}:model-not-at-evolved-time', f"model time {eng.model.options.get('time', None)}, evolved_time {eng.evolved_time}", {'engine': name})
        v = ED.mps_to_full(psi).to_ndarray()
        ov = np.vdot(vT, v)
        errs.append(float(np.linalg.norm(v / np.linalg.norm(v) - (ov / abs(ov)) * vT / np.linalg.norm(vT))))
    obs = np.log2(errs[0] / errs[1]) if errs[1] > 1e-12 else 9.
    if obs < 0.55:
        rec.violation(f'{name}:order', f'errors {errs} for dt, dt/2 give observed order {obs:.2f} (documented: first order in dt for H(t))',
                      {'engine': name, 'T': T})
    return {'engine': name, 'errors': errs}


def accounting_case(rec, name, chi, nsplit):
    """trunc_err.eps after run() calls == sum of the errors of the truncations performed."""
    kind, extra, order = ENGINES[name]
    M = _model('xxz', 8)
    from tenpy.networks.mps import MPS
    psi = MPS.from_product_state(M.lat.mps_sites(), ['up', 'down'] * 4, 'finite')
    opts = {'dt': 0.1, 'N_steps': 2, 'trunc_params': {'chi_max': chi, 'svd_min': 1e-12}}
    opts.update(extra)
    eng = _engine(kind, psi, M, opts)
    performed = [0.0]
    if kind in ('tebd',):
        orig = eng.update_bond

        def wrapped(*a, **k):
            te = orig(*a, **k)
            performed[0] += te.eps
            return te
        eng.update_bond = wrapped
    elif kind == 'tdvp2':
        orig = eng.sweep

        def wrapped(*a, **k):
            r = orig(*a, **k)
            performed[0] += sum(eng.trunc_err_list)
            return r
        eng.sweep = wrapped
    else:
        return None
    for _ in range(nsplit):
        eng.run()
    tot = eng.trunc_err.eps
    ok = abs(tot - performed[0]) <= 1e-13 + 1e-9 * abs(performed[0])
    rec.check(ok, f'{name}:trunc_err-accounting',
              f'eng.trunc_err.eps={tot!r}, sum of performed truncations={performed[0]!r}',
              {'engine': name, 'chi_max': chi, 'run_calls': nsplit})
    return {'engine': name, 'chi': chi, 'eps': tot, 'performed': performed[0]}


def run(rec):
    warnings.simplefilter('ignore')
    quick = rec.tier == 'quick'
    rec.rule = ('engine x (order-of-convergence at dt, dt/2 against exact diagonalisation on a 6-site XXZ chain; charge, norm, '
                'energy; evolved_time for a split of the steps into run() calls; trunc_err accounting with chi_max=3 on 8 sites); '
                'non-trivial = the state error at the larger step is > 1e-9 (the engine really approximates) or a truncation happened')
    rec.bounds = {'L': '6 (order), 8 (accounting)', 'T': 0.4, 'steps': [4, 8]}
    names = list(ENGINES)
    if quick:
        names = ['TEBD-2', 'TEBD-4_opt', 'TDVP-2site', 'TDVP-1site-krylov', 'ExpMPO-II']
    splits = [lambda n: [n], lambda n: [1, n - 1]]
    for name in names:
        for si, split in enumerate(splits if not quick else splits[1:]):
            rec.begin(f'order {name} split {si}')
            ok, d = rec.guarded(f'{name}:exception', lambda: order_case(rec, name, split), {'engine': name})
            if ok:
                rec.case((name, si), d['errors'][0] > 1e-9, sample=d)
    for name in (['ExpMPO-II-o2'] if quick else ['ExpMPO-I', 'ExpMPO-II', 'ExpMPO-II-o2']):
        rec.begin(f'order {name} imaginary steps')
        ok, d = rec.guarded(f'{name}[imaginary]:exception', lambda: order_case(rec, name, splits[1], imag=True), {'engine': name, 'imaginary': True})
        if ok:
            rec.case((name, 'imag'), d['errors'][0] > 1e-9, sample=dict(d, imaginary=True))
    for name in TD_ENGINES:
        rec.begin(f'time-dependent H: {name}')
        ok, d = rec.guarded(f'{name}:exception', lambda: time_dependent_case(rec, name), {'engine': name})
        if ok:
            rec.case((name, 'time-dependent'), d['errors'][0] > 1e-9, sample=d)
    for name in (['TEBD-2', 'TDVP-2site'] if quick else ['TEBD-1', 'TEBD-2', 'TEBD-4', 'TEBD-4_opt', 'TDVP-2site']):
        for chi in ([3] if quick else [2, 3, 5]):
            for nsplit in ([2] if quick else [1, 3]):
                rec.begin(f'accounting {name} chi={chi} runs={nsplit}')
                ok, d = rec.guarded(f'{name}:exception', lambda: accounting_case(rec, name, chi, nsplit), {'engine': name})
                if ok and d:
                    rec.case((name, chi, nsplit), d['performed'] > 0, sample=d)
