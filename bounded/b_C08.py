"""Bounded stand-in for C08: MPS measurements against dense <bra|O|ket> (operators with explicit
Jordan-Wigner strings), for identical and different bra/ket; Born weights of sampled measurements."""
import warnings

import numpy as np

from . import mpsgen


def _op_names(site, rng, k=2):
    names = sorted(n for n in site.opnames if n not in ('Id', 'JW'))
    return [str(x) for x in rng.choice(names, size=min(k, len(names)), replace=False)]


MAX_DIM = 600


def run(rec):
    warnings.simplefilter('ignore')
    from tenpy.networks.mps import MPS, MPSEnvironment
    from tenpy.networks.terms import TermList
    import tenpy.linalg.np_conserved as npc
    rng = np.random.default_rng(rec.seed + 8)
    quick = rec.tier == 'quick'
    Ls = [3, 4] if quick else [2, 3, 4, 5, 6]
    reps = 2 if quick else 6
    rec.rule = ('site family x L x random state(s) of one charge sector: expectation_value (1- and 2-site operators, site subsets), '
                'expectation_value_term / terms_sum with fermionic operators in any order (i<j, i=j, i>j), correlation_function with '
                'and without operator strings, overlap, MPSEnvironment expectation values with bra != ket, get_rho_segment, '
                'entanglement/mutual information, charge statistics, sample_measurements weights; oracle = dense state and kron '
                'operators with explicit JW strings; non-trivial = max chi >= 2')
    rec.bounds = {'L': Ls, 'reps': reps, 'max_hilbert_dimension': MAX_DIM}
    for fname, fam in [x for x in mpsgen.site_families() if not getattr(x[1], 'takes_L', False)]:
        for L in Ls:
            if int(np.prod([x.dim for x in mpsgen.make_sites(fam, L)])) > MAX_DIM:
                continue      # dense operator oracle: Hilbert space dimension bounded (stated in the evidence)
            for rep in range(reps):
                inp = {'sites': fname, 'L': L, 'rep': rep, 'seed': rec.seed}
                rec.begin(f'C08 {fname} L={L} rep={rep}')
                psi, v = mpsgen.random_mps(rng, fam, L)
                sites = psi.sites
                rec.case((fname, L, rep), max(psi.chi) >= 2, sample={'sites': fname, 'L': L} if rep == 0 and L == 3 else None)
                s0 = sites[0]
                tol = 1e-8
                # --- onsite expectation values, all operators
                for name in sorted(s0.opnames):
                    if s0.op_needs_JW(name):
                        continue
                    ok, ev = rec.guarded(f'expectation_value[{name}]:exception', lambda: psi.expectation_value(name), inp)
                    if ok:
                        exp = [mpsgen.expect_dense(v, sites, [(name, i)]) for i in range(L)]
                        rec.check(np.allclose(ev, exp, atol=tol), 'expectation_value:onsite', f'op {name}: {ev} vs dense {exp}', inp)
                # subset of sites
                sub = sorted(rng.choice(L, size=rng.integers(1, L + 1), replace=False).tolist())
                nm = [n for n in sorted(s0.opnames) if not s0.op_needs_JW(n)][int(rng.integers(0, 3))]
                ok, ev = rec.guarded('expectation_value(sites=...):exception', lambda: psi.expectation_value(nm, sites=sub), inp)
                if ok:
                    exp = [mpsgen.expect_dense(v, sites, [(nm, i)]) for i in sub]
                    rec.check(np.allclose(ev, exp, atol=tol), 'expectation_value:site-subset', f'{nm} {sub}', inp)
                # --- terms with arbitrary order incl. fermionic
                for _ in range(6):
                    nops = int(rng.integers(1, 4))
                    cand = sorted(n for n in s0.opnames if n not in ('Id',))
                    term = [(str(rng.choice(cand)), int(rng.integers(0, L))) for _ in range(nops)]
                    njw = sum(s0.op_needs_JW(n) for n, _ in term)
                    if njw % 2 == 1:
                        continue
                    exp = mpsgen.expect_dense(v, sites, term)
                    ok, ev = rec.guarded('expectation_value_term:exception', lambda: psi.expectation_value_term(term), dict(inp, term=term))
                    if ok:
                        rec.check(abs(ev - exp) < tol, 'expectation_value_term:value', f'term {term}: {ev} vs dense {exp}', dict(inp, term=term))
                # terms_sum
                terms, strengths = [], []
                for _ in range(4):
                    cand = sorted(n for n in s0.opnames if not s0.op_needs_JW(n))
                    i, j = sorted(rng.choice(L, size=2, replace=False).tolist()) if L > 1 else (0, 0)
                    a_ = str(rng.choice(cand))
                    terms.append([(a_, int(i)), (s0.get_hc_op_name(a_), int(j))])     # charge-neutral two-site term
                    strengths.append(float(rng.standard_normal()))
                exp = sum(st * mpsgen.expect_dense(v, sites, t) for st, t in zip(strengths, terms))
                ok, res = rec.guarded('expectation_value_terms_sum:exception',
                                      lambda: psi.expectation_value_terms_sum(TermList(terms, strengths)), inp)
                if ok:
                    rec.check(abs(res[0] - exp) < tol, 'expectation_value_terms_sum:value', f'{res[0]} vs {exp}', inp)
                # term lists with (fermionic) factors in any site order; a list, its translate and a second evaluation must all
                # give the dense value, and the list handed in is left as it was
                terms2, strengths2 = [], []
                # (the sign operators JW, JWu, JWd are string operators, not factors of physical terms: separate case below)
                cand_all = sorted(n for n in s0.opnames if n != 'Id' and not n.startswith('JW') and s0.get_hc_op_name(n) in s0.opnames)
                for _ in range(4):
                    if L < 2 or not cand_all:
                        break
                    i, j = rng.choice(L, size=2, replace=False).tolist()          # any order
                    a_ = str(rng.choice(cand_all))
                    terms2.append([(a_, int(i)), (s0.get_hc_op_name(a_), int(j))])
                    strengths2.append(float(rng.standard_normal()))
                if terms2:
                    exp2 = sum(st * mpsgen.expect_dense(v, sites, t) for st, t in zip(strengths2, terms2))
                    tl = TermList(terms2, strengths2)
                    inp2 = dict(inp, terms=terms2, strengths=strengths2)
                    for label, make in (('translate', lambda: tl.shift(0)), ('first', lambda: tl), ('second', lambda: tl)):
                        ok, res = rec.guarded(f'expectation_value_terms_sum({label}):exception',
                                              lambda: psi.expectation_value_terms_sum(make()), inp2)
                        if ok:
                            rec.check(abs(res[0] - exp2) < tol, f'expectation_value_terms_sum({label} evaluation):value',
                                      f'{res[0]} vs dense {exp2}', inp2)
                    # the list may have been reordered in place (order_combine), but it must still denote the same operator
                    now = sum(st * mpsgen.expect_dense(v, sites, [(str(o), int(i)) for o, i in t]) for st, t in zip(tl.strength, tl.terms))
                    rec.check(abs(now - exp2) < tol, 'expectation_value_terms_sum:argument-denotes-another-operator',
                              f'after the evaluations the list evaluates (densely) to {now}, before {exp2}', inp2)
                # sign operators used as factors, out of site order: the two MPS routines must at least agree with each other
                if L >= 3 and 'JW' in s0.opnames and s0.op_needs_JW('JW') and any(s0.op_needs_JW(n) for n in s0.opnames if not n.startswith('JW')):
                    t_jw = [('JW', 2), ('JW', 0)]
                    ok1, e1 = rec.guarded('expectation_value_term(JW factors):exception', lambda: psi.expectation_value_term(t_jw), inp)
                    ok2, e2 = rec.guarded('expectation_value_terms_sum(JW factors):exception',
                                          lambda: psi.expectation_value_terms_sum(TermList([t_jw], [1.]))[0], inp)
                    if ok1 and ok2:
                        rec.check(abs(e1 - e2) < tol, 'expectation_value_terms_sum(JW-type factors out of site order):sign',
                                  f'expectation_value_term {e1} (= dense {mpsgen.expect_dense(v, sites, t_jw)}), terms_sum {e2}', dict(inp, term=t_jw))
                # --- correlation functions (all pairs of sites, incl. i>j and i=j); fermionic pairs with JW
                pairs = []
                cand = sorted(n for n in s0.opnames if n not in ('Id', 'JW'))
                for _ in range(3):
                    a, b = str(rng.choice(cand)), str(rng.choice(cand))
                    if (s0.op_needs_JW(a) + s0.op_needs_JW(b)) % 2 == 0:
                        pairs.append((a, b))
                for a, b in pairs:
                    ok, C = rec.guarded('correlation_function:exception', lambda: psi.correlation_function(a, b), dict(inp, ops=(a, b)))
                    if ok:
                        exp = np.array([[mpsgen.expect_dense(v, sites, [(a, i), (b, j)]) for j in range(L)] for i in range(L)])
                        rec.check(np.allclose(C, exp, atol=tol), 'correlation_function:value',
                                  f'ops {a},{b}: max dev {np.abs(C - exp).max()} at {np.unravel_index(np.argmax(np.abs(C - exp)), C.shape)}',
                                  dict(inp, ops=(a, b)))
                # `hermitian=True` shortcut: lower triangle from the upper one, for pairs (a, a^dagger) on complex states
                for a in cand[:3]:
                    b = s0.get_hc_op_name(a)
                    if b not in s0.opnames:
                        continue
                    ok, C = rec.guarded('correlation_function(hermitian=True):exception', lambda: psi.correlation_function(a, b, hermitian=True), dict(inp, ops=(a, b)))
                    if ok:
                        exp = np.array([[mpsgen.expect_dense(v, sites, [(a, i), (b, j)]) for j in range(L)] for i in range(L)])
                        rec.check(np.allclose(C, exp, atol=tol), 'correlation_function(hermitian=True):value',
                                  f'ops {a},{b}: max dev {np.abs(C - exp).max()} at {np.unravel_index(np.argmax(np.abs(C - exp)), C.shape)}', dict(inp, ops=(a, b)))
                # a pair of one fermionic and one bosonic operator has no consistent Jordan-Wigner string: documented ValueError, in either order
                ferm = [n for n in cand if s0.op_needs_JW(n)]
                bosn = [n for n in sorted(s0.opnames) if not s0.op_needs_JW(n) and n not in ('Id', 'JW')]
                if ferm and bosn and L >= 2:
                    for o1, o2 in ((ferm[0], bosn[0]), (bosn[0], ferm[0])):
                        try:
                            psi.correlation_function(o1, o2)
                            raised = None
                        except ValueError:
                            raised = 'ValueError'
                        except Exception as e:
                            raised = type(e).__name__
                        rec.check(raised == 'ValueError', 'correlation_function(mixed JW pair):no-ValueError',
                                  f'correlation_function({o1!r}, {o2!r}) -> {"a result" if raised is None else raised}', dict(inp, ops=(o1, o2)))
                # correlation functions of terms, moving the right / the left term (fermionic terms with JW included)
                if L >= 4:
                    for a in cand[:4]:
                        b = s0.get_hc_op_name(a)
                        if b not in s0.opnames:
                            continue
                        tL, tR = [(a, 0)], [(b, 0)]
                        jR = list(range(1, L))
                        ok, c = rec.guarded('term_correlation_function_right:exception',
                                            lambda: psi.term_correlation_function_right(tL, tR, i_L=0, j_R=jR), dict(inp, ops=(a, b)))
                        if ok:
                            exp = [mpsgen.expect_dense(v, sites, [(a, 0), (b, j)]) for j in jR]
                            rec.check(np.allclose(c, exp, atol=tol), 'term_correlation_function_right:value', f'ops {a},{b}: {np.asarray(c)} vs {np.asarray(exp)}', dict(inp, ops=(a, b)))
                        iL = list(range(0, L - 1))
                        ok, c = rec.guarded('term_correlation_function_left:exception',
                                            lambda: psi.term_correlation_function_left(tL, tR, i_L=iL, j_R=L - 1), dict(inp, ops=(a, b)))
                        if ok:
                            exp = [mpsgen.expect_dense(v, sites, [(a, i), (b, L - 1)]) for i in sorted(iL, reverse=True)]    # values are returned for descending i
                            rec.check(np.allclose(c, exp, atol=tol), 'term_correlation_function_left:value', f'ops {a},{b}: {np.asarray(c)} vs {np.asarray(exp)}', dict(inp, ops=(a, b)))
                # correlation function between *sums* of terms (each sum mixes operators of different charge: (a + a^dagger)-type)
                if L >= 4:
                    prs = [(a, s0.get_hc_op_name(a)) for a in cand[:6] if s0.get_hc_op_name(a) in s0.opnames and s0.get_hc_op_name(a) != a]
                    if prs:
                        a, b = prs[int(rng.integers(0, len(prs)))]
                        c1, c2, c3, c4 = [complex(rng.standard_normal(), rng.standard_normal()) for _ in range(4)]
                        tlL = TermList([[(a, 0)], [(b, 0)]], [c1, c2])
                        tlR = TermList([[(a, 0)], [(b, 0)]], [c3, c4])
                        jR = list(range(1, L))
                        ok, c = rec.guarded('term_list_correlation_function_right:exception',
                                            lambda: psi.term_list_correlation_function_right(tlL, tlR, i_L=0, j_R=jR), dict(inp, ops=(a, b)))
                        if ok:
                            exp = [sum(x * y * mpsgen.expect_dense(v, sites, [(o1, 0), (o2, j)])
                                       for x, o1 in ((c1, a), (c2, b)) for y, o2 in ((c3, a), (c4, b))) for j in jR]
                            rec.check(np.allclose(c, exp, atol=tol), 'term_list_correlation_function_right:value',
                                      f'ops {a},{b}: {np.asarray(c)} vs dense {np.asarray(exp)}', dict(inp, ops=(a, b)))
                        # sums whose terms start on different sites (the shorter ones are padded on the left: with a JW string
                        # for fermionic terms)
                        tlL2 = TermList([[(a, 0)], [(a, 1)]], [c1, c2])
                        tlR2 = TermList([[(b, 0)], [(b, 1)]], [c3, c4])
                        jR2 = list(range(2, L - 1))
                        ok, c = rec.guarded('term_list_correlation_function_right[shifted terms]:exception',
                                            lambda: psi.term_list_correlation_function_right(tlL2, tlR2, i_L=0, j_R=jR2), dict(inp, ops=(a, b)))
                        if ok:
                            exp = [sum(x * y * mpsgen.expect_dense(v, sites, [(a, k1), (b, j + k2)])
                                       for x, k1 in ((c1, 0), (c2, 1)) for y, k2 in ((c3, 0), (c4, 1))) for j in jR2]
                            rec.check(np.allclose(c, exp, atol=tol), 'term_list_correlation_function_right[shifted terms]:value',
                                      f'ops {a},{b}: {np.asarray(c)} vs dense {np.asarray(exp)}', dict(inp, ops=(a, b)))
                # explicit operator string (bosonic ops only)
                bos = [n for n in cand if not s0.op_needs_JW(n)]
                if L >= 3 and bos:
                    a, b, st = bos[0], bos[-1], bos[len(bos) // 2]
                    ok, C = rec.guarded('correlation_function(opstr):exception',
                                        lambda: psi.correlation_function(a, b, sites1=[0], sites2=[L - 1], opstr=st, str_on_first=False),
                                        dict(inp, ops=(a, b, st)))
                    if ok:
                        exp = mpsgen.expect_dense(v, sites, [(a, 0)] + [(st, k) for k in range(1, L - 1)] + [(b, L - 1)])
                        rec.check(abs(C[0, 0] - exp) < tol, 'correlation_function(opstr):value', f'{C[0, 0]} vs {exp}', dict(inp, ops=(a, b, st)))
                # --- overlap and bra != ket
                phi, w = mpsgen.random_mps(rng, fam, L)
                if np.array_equal(phi.get_total_charge(), psi.get_total_charge()):
                    ok, ov = rec.guarded('overlap:exception', lambda: phi.overlap(psi), inp)
                    if ok:
                        rec.check(abs(ov - np.vdot(w.ravel(), v.ravel())) < tol, 'overlap:value', f'{ov} vs {np.vdot(w.ravel(), v.ravel())}', inp)
                    env = MPSEnvironment(phi, psi)
                    nm2 = bos[0] if bos else 'Id'
                    ok, ev = rec.guarded('MPSEnvironment.expectation_value:exception', lambda: env.expectation_value(nm2), inp)
                    if ok:
                        exp = [mpsgen.expect_dense(v, sites, [(nm2, i)], bra=w) for i in range(L)]
                        rec.check(np.allclose(ev, exp, atol=tol), 'MPSEnvironment.expectation_value:bra-ket', f'{ev} vs {exp}', inp)
                    # correlation function between different (and unnormalised) bra and ket
                    if bos:
                        a_, b_ = bos[0], bos[-1]
                        for scale_norm in (1.0, 1.7):
                            phi2 = phi.copy()
                            phi2.norm = scale_norm
                            env2 = MPSEnvironment(phi2, psi)
                            ok, C = rec.guarded('MPSEnvironment.correlation_function:exception', lambda: env2.correlation_function(a_, b_), inp)
                            if ok:
                                exp = scale_norm * np.array([[mpsgen.expect_dense(v, sites, [(a_, i), (b_, j)], bra=w) for j in range(L)] for i in range(L)])
                                off = ~np.eye(L, dtype=bool)
                                rec.check(np.allclose(C[off], exp[off], atol=tol), 'MPSEnvironment.correlation_function:offdiagonal',
                                          f'bra norm {scale_norm}: max dev {np.abs(C - exp)[off].max()}', dict(inp, ops=(a_, b_), bra_norm=scale_norm))
                                rec.check(np.allclose(np.diag(C), np.diag(exp), atol=tol), 'MPSEnvironment.correlation_function:diagonal',
                                          f'bra norm {scale_norm}: diag {np.diag(C)} vs dense {np.diag(exp)}', dict(inp, ops=(a_, b_), bra_norm=scale_norm))
                # --- reduced density matrix
                if L >= 3:
                    seg = sorted(rng.choice(L, size=2, replace=False).tolist())
                    ok, rho = rec.guarded('get_rho_segment:exception', lambda: psi.get_rho_segment(seg), dict(inp, segment=seg))
                    if ok:
                        labs = [f'p{k}' for k in range(2)] + [f'p{k}*' for k in range(2)]
                        r = rho.transpose(labs).to_ndarray()
                        other = [k for k in range(L) if k not in seg]
                        vv = np.transpose(v, seg + other).reshape(v.shape[seg[0]], v.shape[seg[1]], -1)
                        exp = np.einsum('abx,cdx->abcd', vv, vv.conj())
                        rec.check(np.allclose(r, exp, atol=tol), 'get_rho_segment:value', f'segment {seg}', dict(inp, segment=seg))
                # --- entropies of small regions, mutual information, entanglement spectrum, products of neighbouring operators
                def _S_region(region):
                    other = [k for k in range(L) if k not in region]
                    m = np.transpose(v, list(region) + other).reshape(int(np.prod([v.shape[k] for k in region])), -1)
                    sv = np.linalg.svd(m, compute_uv=False)
                    pr = sv[sv > 1e-14] ** 2
                    return float(-np.sum(pr * np.log(pr)))
                if L >= 3:
                    ok, se = rec.guarded('entanglement_entropy_segment:exception', lambda: psi.entanglement_entropy_segment([0, 1]), inp)
                    if ok:
                        exp = [_S_region([i, i + 1]) for i in range(L - 1)]
                        rec.check(np.allclose(se, exp, atol=1e-7), 'entanglement_entropy_segment([0,1]):value', f'{se} vs dense {exp}', inp)
                    ok, se = rec.guarded('entanglement_entropy_segment2:exception', lambda: psi.entanglement_entropy_segment2([0, 2]), inp)
                    if ok:
                        rec.check(abs(se - _S_region([0, 2])) < 1e-7, 'entanglement_entropy_segment2([0,2]):value', f'{se} vs dense {_S_region([0, 2])}', inp)
                    ok, res = rec.guarded('mutinf_two_site:exception', lambda: psi.mutinf_two_site(), inp)
                    if ok:
                        coords, mi = res
                        exp = [_S_region([int(i)]) + _S_region([int(j)]) - _S_region([int(i), int(j)]) for i, j in coords]
                        rec.check(len(coords) == L * (L - 1) // 2 and np.allclose(mi, exp, atol=1e-7), 'mutinf_two_site:value', f'{np.asarray(mi)} vs dense {exp}', inp)
                ok, spec = rec.guarded('entanglement_spectrum:exception', lambda: psi.entanglement_spectrum(), inp)
                if ok:
                    good = len(spec) == L - 1
                    for cut in range(1, L):
                        sv = np.sort(mpsgen.schmidt_values(v / np.linalg.norm(v), cut))[::-1]
                        xi = np.sort(np.asarray(spec[cut - 1]))
                        xi = xi[xi < 50]
                        good = good and len(xi) == len(sv) and np.allclose(np.exp(-xi / 2.)[::1], np.sort(sv)[::-1], atol=1e-7)
                    rec.check(good, 'entanglement_spectrum:value', 'S_i^2 = exp(-xi_i) does not reproduce the dense Schmidt values', inp)
                if psi.chinfo.qnumber > 0 and L >= 2:
                    b = int(rng.integers(1, L))
                    ok, res = rec.guarded('probability_per_charge:exception', lambda: psi.probability_per_charge(b), inp)
                    if ok:
                        cv, pr = res
                        qs_ = [x.leg.to_qflat() * x.leg.qconj for x in sites[:b]]
                        dist = {}
                        pw = np.abs(v) ** 2 / np.sum(np.abs(v) ** 2)
                        it = np.nditer(pw, flags=['multi_index'])
                        for x in it:
                            if float(x) > 0:
                                q = tuple(psi.chinfo.make_valid(sum(qs_[k][it.multi_index[k]] for k in range(b))).tolist())
                                dist[q] = dist.get(q, 0.) + float(x)
                        got = {}
                        for c_, p_ in zip(cv, pr):
                            if p_ > 1e-12:
                                got[tuple(psi.chinfo.make_valid(np.asarray(c_)).tolist())] = got.get(tuple(psi.chinfo.make_valid(np.asarray(c_)).tolist()), 0.) + float(p_)
                        dist = {k: x for k, x in dist.items() if x > 1e-12}
                        # (the charges on the bond are defined up to the gauge of the left boundary: compare the probabilities as multisets)
                        rec.check(np.allclose(sorted(got.values()), sorted(dist.values()), atol=1e-8) and abs(sum(pr) - 1) < 1e-8, 'probability_per_charge:value',
                                  f'bond {b}: {sorted(got.values())} vs dense {sorted(dist.values())}', inp)
                bos2 = [n for n in sorted(s0.opnames) if n not in ('Id', 'JW') and not s0.op_needs_JW(n)][:3]
                if L >= 3 and bos2:
                    names = [str(rng.choice(bos2)) for _ in range(3)]
                    i0 = int(rng.integers(0, L - 2))
                    ok, ev = rec.guarded('expectation_value_multi_sites:exception', lambda: psi.expectation_value_multi_sites(names, i0), dict(inp, ops=names))
                    if ok:
                        exp = mpsgen.expect_dense(v, sites, [(n, i0 + k) for k, n in enumerate(names)])
                        rec.check(abs(ev - exp) < tol, 'expectation_value_multi_sites:value', f'{names} at {i0}: {ev} vs dense {exp}', dict(inp, ops=names))
                # --- charge statistics at a bond
                if psi.chinfo.qnumber > 0 and L >= 2:
                    b = int(rng.integers(1, L))
                    ok, ac = rec.guarded('average_charge:exception', lambda: psi.average_charge(b), inp)
                    if ok:
                        # dense: charges of the left part
                        qs = [s.leg.to_qflat() * s.leg.qconj for s in sites[:b]]
                        p = np.abs(v) ** 2
                        tot = np.zeros(psi.chinfo.qnumber)
                        tot2 = np.zeros(psi.chinfo.qnumber)
                        it = np.nditer(p, flags=['multi_index'])
                        for x in it:
                            q = sum(qs[k][it.multi_index[k]] for k in range(b))
                            tot = tot + float(x) * q
                            tot2 = tot2 + float(x) * q ** 2
                        if np.all(psi.chinfo.mod == 1):
                            rec.check(np.allclose(ac, tot, atol=1e-7), 'average_charge:value', f'{ac} vs {tot} at bond {b}', inp)
                            ok2, cv = rec.guarded('charge_variance:exception', lambda: psi.charge_variance(b), inp)
                            if ok2:
                                rec.check(np.allclose(cv, tot2 - tot ** 2, atol=1e-7), 'charge_variance:value', f'{cv} vs {tot2 - tot ** 2}', inp)
                # --- sampled measurements: weights are Born amplitudes / probabilities
                for complex_amplitude in (True, False):
                    ok, res = rec.guarded('sample_measurements:exception',
                                          lambda: psi.sample_measurements(0, L - 1, ops=None, rng=np.random.default_rng(int(rng.integers(1 << 30))),
                                                                          norm_tol=1e-10, complex_amplitude=complex_amplitude), inp)
                    if ok:
                        sigmas, weight = res
                        idx = tuple(int(x) for x in sigmas)
                        amp = v[idx]
                        if complex_amplitude:
                            rec.check(abs(abs(weight) - abs(amp)) < 1e-8 and abs(weight - amp) < 1e-7, 'sample_measurements:amplitude',
                                      f'outcome {idx}: weight {weight}, dense amplitude {amp}', inp)
                        else:
                            rec.check(abs(weight - abs(amp) ** 2) < 1e-8, 'sample_measurements:probability',
                                      f'outcome {idx}: weight {weight}, dense probability {abs(amp) ** 2}', inp)
                # sampling a sub-range of sites in the eigenbases of named operators: ops[(i - first_site) % len(ops)] on site i;
                # the returned values are eigenvalues, the weight squared is the Born probability of that outcome
                herm = []
                for n in sorted(s0.opnames):
                    if any(n not in s.opnames or s.op_needs_JW(n) for s in sites):
                        continue
                    good = True
                    for s in sites:
                        M = s.get_op(n).to_ndarray()
                        if np.any(s.get_op(n).qtotal != 0):       # a charged operator has no eigenbasis among the charge-conserving tensors
                            good = False
                            break
                        w_ = np.linalg.eigvalsh(M) if np.allclose(M, M.conj().T) else None
                        if w_ is None or (len(w_) > 1 and np.min(np.diff(w_)) < 1e-6):
                            good = False
                            break
                    if good:
                        herm.append(n)
                for trial in range(3 if herm else 0):
                    first = int(rng.integers(0, L))
                    last = int(rng.integers(first, L))
                    ops = [herm[int(k)] for k in rng.choice(len(herm), size=min(len(herm), int(rng.integers(1, 4))), replace=False)]
                    ca = bool(trial % 2)
                    inp2 = dict(inp, first_site=first, last_site=last, ops=ops, complex_amplitude=ca)
                    ok, res = rec.guarded('sample_measurements(ops, sub-range):exception',
                                          lambda: psi.sample_measurements(first, last, ops=ops, rng=np.random.default_rng(int(rng.integers(1 << 30))),
                                                                          norm_tol=1e-10, complex_amplitude=ca), inp2)
                    if not ok:
                        continue
                    sigmas, weight = res
                    r = np.asarray(v).reshape([s.dim for s in sites])
                    in_spec = True
                    for i in range(last, first - 1, -1):        # from the right, so that the axis numbers left of i stay valid
                        M = sites[i].get_op(ops[(i - first) % len(ops)]).to_ndarray()
                        w_, V_ = np.linalg.eigh(M)
                        k = int(np.argmin(np.abs(w_ - sigmas[i - first])))
                        if abs(w_[k] - sigmas[i - first]) > 1e-8:
                            in_spec = False
                            break
                        r = np.tensordot(V_[:, k].conj(), r, axes=(0, i))
                        r = np.moveaxis(r[np.newaxis], 0, i)          # keep a dummy axis at position i
                    rec.check(in_spec, 'sample_measurements(ops, sub-range):outcome-not-an-eigenvalue',
                              f'outcomes {sigmas} for ops {ops} from site {first}', inp2)
                    if in_spec:
                        p = float(np.linalg.norm(r) ** 2)
                        got = float(abs(weight) ** 2) if ca else float(weight)
                        rec.check(abs(got - p) < 1e-8, 'sample_measurements(ops, sub-range):probability',
                                  f'outcomes {sigmas}: weight gives {got}, dense Born probability {p}', inp2)
