"""Bounded stand-in for C10: all representations of a model Hamiltonian are the same dense operator.

Oracle: H = sum of strength * (op1_i op2_j ...) built with kron and explicit Jordan-Wigner strings from
the *specification* of the couplings (what was passed to add_onsite/add_coupling/...), with the
lattice pairs taken from Lattice.possible_couplings (validated separately under C19).
"""
import warnings

import numpy as np

from . import mpsgen


def mpo_dense(H, sites):
    """dense matrix of a finite MPO (no pipes: kron order = site order, internal site basis)."""
    import tenpy.linalg.np_conserved as npc
    L = H.L
    W = H.get_W(0).take_slice(H.get_IdL(0), 'wL')
    cur = W.replace_labels(['p', 'p*'], ['p0', 'p0*'])
    for i in range(1, L):
        W = H.get_W(i).replace_labels(['p', 'p*'], [f'p{i}', f'p{i}*'])
        cur = npc.tensordot(cur, W, axes=['wR', 'wL'])
    cur = cur.take_slice(H.get_IdR(L - 1), 'wR')
    cur = cur.transpose([f'p{i}' for i in range(L)] + [f'p{i}*' for i in range(L)])
    d = cur.to_ndarray()
    D = int(np.prod(d.shape[:L]))
    m = d.reshape(D, D)
    if H.explicit_plus_hc:
        m = m + m.conj().T
    return m


def bonds_dense(model, sites):
    L = len(sites)
    dims = [s.dim for s in sites]
    D = int(np.prod(dims))
    H = np.zeros((D, D), dtype=complex)
    for i, Hb in enumerate(model.H_bond):
        if Hb is None:
            continue
        j = i   # H_bond[i] acts on sites (i-1, i)
        a, b = (j - 1) % L, j % L
        hb = Hb.transpose(['p0', 'p1', 'p0*', 'p1*']).to_ndarray().reshape(dims[a] * dims[b], -1)
        if a < b:
            left = int(np.prod(dims[:a]))
            right = int(np.prod(dims[b + 1:]))
            H += np.kron(np.kron(np.eye(left), hb), np.eye(right))
        else:
            raise AssertionError(f'H_bond[{i}] couples the last site to the first one: not a bond of a finite open chain (must be None)')
    return H


def spec_dense(sites, spec, lat):
    """dense H from the specification of the couplings"""
    dims = [s.dim for s in sites]
    D = int(np.prod(dims))
    H = np.zeros((D, D), dtype=complex)
    L = len(sites)
    for item in spec:
        if item[0] == 'onsite':
            _, strength, op = item
            for i in range(L):
                H += np.asarray(strength).reshape(-1)[i % np.size(strength)] * mpsgen.op_dense(sites, [(op, i)])
        elif item[0] == 'coupling':
            _, strength, op1, op2, dx, plus_hc = item
            mps_i, mps_j, _, _ = lat.possible_couplings(0, 0, [dx])
            s0 = sites[0]
            for i, j in zip(mps_i, mps_j):
                t = strength * mpsgen.op_dense(sites, [(op1, int(i)), (op2, int(j))])
                H += t
                if plus_hc:
                    H += t.conj().T
        elif item[0] == 'multi':
            _, strength, ops, plus_hc = item   # ops: [(name, dx)]
            dxs = [dx for _, dx in ops]
            ijkl, _, _ = lat.possible_multi_couplings([(name, [dx], 0) for name, dx in ops])
            for row in ijkl:
                t = strength * mpsgen.op_dense(sites, [(name, int(i)) for (name, _), i in zip(ops, row)])
                H += t
                if plus_hc:
                    H += t.conj().T
        elif item[0] == 'local':
            # one term given by lattice sites, repeated in every unit cell of `Luc` sites (only copies inside the chain count)
            _, strength, term, plus_hc, Luc = item
            for k in range(-L, L + 1):
                tk = [(op, x + k * Luc) for op, x in term]
                if all(0 <= x < L for _, x in tk):
                    t = strength * mpsgen.op_dense(sites, tk)
                    H += t
                    if plus_hc:
                        H += t.conj().T
        elif item[0] == 'expdecay':
            _, strength, lam, op1, op2, plus_hc = item
            for i in range(L):
                for j in range(i + 1, L):
                    t = strength * lam ** (j - i) * mpsgen.op_dense(sites, [(op1, i), (op2, j)])
                    H += t
                    if plus_hc:
                        H += t.conj().T
    return H


def build_model(lat, spec, explicit_plus_hc):
    from tenpy.models.model import CouplingModel, MPOModel

    class RandomCouplingModel(CouplingModel, MPOModel):
        def __init__(self):
            CouplingModel.__init__(self, lat, explicit_plus_hc=explicit_plus_hc)
            for item in spec:
                if item[0] == 'onsite':
                    self.add_onsite(item[1], 0, item[2])
                elif item[0] == 'coupling':
                    _, strength, op1, op2, dx, plus_hc = item
                    self.add_coupling(strength, 0, op1, 0, op2, dx, plus_hc=plus_hc)
                elif item[0] == 'multi':
                    _, strength, ops, plus_hc = item
                    self.add_multi_coupling(strength, [(name, [dx], 0) for name, dx in ops], plus_hc=plus_hc)
                elif item[0] == 'local':
                    _, strength, term, plus_hc, Luc = item
                    self.add_local_term(strength, [(op, [x, 0]) for op, x in term], plus_hc=plus_hc)
                elif item[0] == 'expdecay':
                    _, strength, lam, op1, op2, plus_hc = item
                    self.add_exponentially_decaying_coupling(strength, lam, op1, op2, plus_hc=plus_hc)
            MPOModel.__init__(self, lat, self.calc_H_MPO())
    return RandomCouplingModel()


def random_spec(rng, site, L, bc):
    s = site
    herm_ops = [n for n in ('Sz', 'N', 'Sigmaz', 'NuNd', 'Ntot') if n in s.opnames and not s.op_needs_JW(n)]
    pairs = []
    for a in sorted(s.opnames):
        if a in ('Id', 'JW'):
            continue
        b = s.get_hc_op_name(a)
        if b in s.opnames and a != b and (a, b) not in pairs and (b, a) not in pairs:
            pairs.append((a, b))
    spec = []
    n = int(rng.integers(1, 5))
    cplx = rng.random() < 0.5
    for _ in range(n):
        kind = rng.choice(['onsite', 'coupling', 'coupling', 'multi', 'expdecay'])
        st = float(rng.standard_normal()) + (1.j * float(rng.standard_normal()) if cplx else 0)
        if kind == 'onsite' and herm_ops:
            arr = rng.standard_normal(L) if rng.random() < 0.5 else np.array([float(rng.standard_normal())])
            spec.append(('onsite', arr, str(rng.choice(herm_ops))))
        elif kind == 'coupling' and pairs:
            a, b = pairs[int(rng.integers(0, len(pairs)))]
            dx = int(rng.integers(1, max(2, L - 1)))
            if rng.random() < 0.3:
                dx = -dx
            spec.append(('coupling', st, a, b, dx, True))
        elif kind == 'coupling' and herm_ops:
            spec.append(('coupling', float(st.real), str(rng.choice(herm_ops)), str(rng.choice(herm_ops)), int(rng.integers(1, max(2, L - 1))), False))
        elif kind == 'multi' and pairs and L >= 3:
            a, b = pairs[int(rng.integers(0, len(pairs)))]
            h = herm_ops[0] if herm_ops else None
            if h is None:
                continue
            dxs = sorted(rng.choice(np.arange(0, L), size=3, replace=False).tolist()) if bc == 'open' else [0, 1, 2]
            order = rng.permutation(3)
            ops = [(a, dxs[order[0]]), (h, dxs[order[1]]), (b, dxs[order[2]])]
            spec.append(('multi', st, ops, True))
        elif kind == 'expdecay' and (herm_ops or pairs) and bc == 'open':
            # real or complex decay rate; Hermitian operator pair without h.c., or (a, a^dagger) with plus_hc
            lam = float(rng.uniform(0.2, 0.8)) * (np.exp(1.j * float(rng.uniform(0, 2 * np.pi))) if cplx and rng.random() < 0.7 else 1.)
            if pairs and (not herm_ops or rng.random() < 0.6):
                a, b = pairs[int(rng.integers(0, len(pairs)))]
                if s.op_needs_JW(a):
                    continue     # (fermionic exponentially decaying couplings: not offered by the method)
                spec.append(('expdecay', st, lam, a, b, True))
            elif np.isreal(lam):
                h = str(rng.choice(herm_ops))
                spec.append(('expdecay', float(st.real), float(np.real(lam)), h, h, False))
    return spec


def segment_checks(rec, rng, quick):
    """representation-only options on infinite chains: extracting a segment / enlarging the unit cell do not change the operator:
    the segment MPO of n sites equals the dense operator of the finite open chain of n sites with the same (uniform) couplings."""
    from tenpy.models.lattice import Chain
    fams = [x for x in mpsgen.site_families() if not getattr(x[1], 'takes_L', False)]
    for fname, fam in fams:
        for k in range(2 if quick else 10):
            site = fam()
            n = 4
            Luc = int(rng.choice([1, 2]))
            spec = [it for it in random_spec(rng, site, n, 'open') if it[0] in ('onsite', 'coupling')]
            spec = [('onsite', np.array([float(np.asarray(it[1]).ravel()[0])]), it[2]) if it[0] == 'onsite' else
                    (it[0], it[1], it[2], it[3], int(np.sign(it[4])) * min(abs(it[4]), 2), it[5]) for it in spec]
            if not spec:
                continue
            # some couplings as single local terms (add_local_term), possibly reaching over the boundary of the unit cell
            spec = [('local', it[1], [(it[2], a_), (it[3], a_ + max(1, abs(it[4])))], it[5], Luc)
                    if it[0] == 'coupling' and rng.random() < 0.5 else it
                    for it in spec for a_ in [int(rng.integers(0, Luc))]]
            for epc in (False, True):
                inp = {'sites': fname, 'unit_cell': Luc, 'segment_sites': n, 'explicit_plus_hc': epc,
                       'spec': [tuple(x.tolist() if isinstance(x, np.ndarray) else x for x in item) for item in spec]}
                rec.begin(f'C10 segment {inp}')
                lat_inf = Chain(Luc, site, bc='periodic', bc_MPS='infinite')
                lat_fin = Chain(n, site, bc='open', bc_MPS='finite')
                ok, M = rec.guarded('segment:build-model:exception', lambda: build_model(lat_inf, spec, epc), inp)
                if not ok:
                    continue
                sites = lat_fin.mps_sites()
                Hs = spec_dense(sites, spec, lat_fin)
                scale = 1 + np.abs(Hs).max()
                rec.case(('segment', fname, k, epc), True)
                for variant in ('extract_segment', 'enlarge+extract_segment'):
                    def seg():
                        H = M.H_MPO.copy()
                        if variant.startswith('enlarge'):
                            H.enlarge_mps_unit_cell(2)
                        return mpo_dense(H.extract_segment(0, n - 1), sites)
                    ok, Hd = rec.guarded(f'MPO.{variant}:exception', seg, inp)
                    if ok:
                        rec.check(Hd.shape == Hs.shape and np.allclose(Hd, Hs, atol=1e-9 * scale), f'MPO.{variant}:dense',
                                  f'max dev {np.abs(Hd - Hs).max() if Hd.shape == Hs.shape else "shape"}; hermitian: {np.allclose(Hd, Hd.conj().T)}', inp)


def run(rec):
    warnings.simplefilter('ignore')
    from tenpy.models.lattice import Chain
    from tenpy.models.model import NearestNeighborModel
    from tenpy.algorithms import exact_diag
    from tenpy.networks.mpo import MPOGraph
    rng = np.random.default_rng(rec.seed + 10)
    quick = rec.tier == 'quick'
    n_models = 3 if quick else 40
    rec.rule = ('random coupling models (onsite incl. site-dependent arrays, two-site with any range and sign of dx, 3-site multi '
                'couplings in any operator order, exponentially decaying; real and complex strengths; plus_hc) on finite chains with open / '
                'periodic boundaries for every site family x explicit_plus_hc: dense(MPO), dense(term list -> MPO), nearest-neighbour bond '
                'operators (when only NN terms), ExactDiag from MPO and from bonds, get_numpy_Hamiltonian (both sources), '
                'get_scipy_sparse_Hamiltonian, all equal to the dense operator built from the specification; Hermiticity; grouped sites; '
                'sorted MPO legs; non-trivial = at least one two-site or multi-site term')
    rec.bounds = {'L': [3, 4, 5], 'models_per_family_and_bc': n_models}
    tol = 1e-9
    for fname, fam in [x for x in mpsgen.site_families() if not getattr(x[1], 'takes_L', False)]:
        for bc in ('open', 'periodic'):
            for k in range(n_models):
                L = int(rng.integers(3, 5 if quick else 6))
                site = fam()
                lat = Chain(L, site, bc=bc, bc_MPS='finite')
                spec = random_spec(rng, site, L, bc)
                if not spec:
                    continue
                epc = bool(rng.integers(0, 2))
                inp = {'sites': fname, 'L': L, 'bc': bc, 'explicit_plus_hc': epc,
                       'spec': [tuple(x.tolist() if isinstance(x, np.ndarray) else x for x in item) for item in spec]}
                rec.begin(f'C10 {fname} bc={bc} k={k} L={L}')
                ok, M = rec.guarded('build-model:exception', lambda: build_model(lat, spec, epc), inp)
                if not ok:
                    continue
                sites = lat.mps_sites()
                Hs = spec_dense(sites, spec, lat)
                nontriv = any(item[0] != 'onsite' for item in spec)
                rec.case((fname, bc, k), nontriv, sample=inp if k == 0 and bc == 'open' and fname.startswith('Fermion[N') else None)
                scale = 1 + np.abs(Hs).max()
                rec.check(np.allclose(Hs, Hs.conj().T, atol=tol), 'oracle:not-hermitian', 'harness', inp)
                Hm = mpo_dense(M.H_MPO, sites)
                rec.check(np.allclose(Hm, Hs, atol=tol * scale), 'H_MPO:dense', f'max dev {np.abs(Hm - Hs).max()}', inp)
                rec.check(np.allclose(Hm, Hm.conj().T, atol=tol * scale), 'H_MPO:hermitian', '', inp)
                ok, herm = rec.guarded('is_hermitian:exception', lambda: M.H_MPO.is_hermitian(), inp)
                if ok:
                    rec.check(bool(herm), 'H_MPO.is_hermitian', 'False for a Hermitian model', inp)
                # term list -> MPO
                def via_terms():
                    tl = M.all_onsite_terms().to_TermList() if False else None
                    from tenpy.networks.terms import TermList
                    ot, ct = M.all_onsite_terms(), M.all_coupling_terms()
                    g = MPOGraph.from_terms((ot, ct, M.exp_decaying_terms), sites, 'finite')
                    H2 = g.build_MPO()
                    H2.explicit_plus_hc = M.explicit_plus_hc
                    return mpo_dense(H2, sites)
                ok, H2 = rec.guarded('terms->MPO:exception', via_terms, inp)
                if ok:
                    rec.check(np.allclose(H2, Hs, atol=tol * scale), 'terms->MPO:dense', f'max dev {np.abs(H2 - Hs).max()}', inp)
                # exporters (built from the lossy term list: no JW strings between distant fermionic operators -> F-23)
                def _ferm_long(item):
                    if item[0] == 'coupling':
                        mi, mj, _, _ = lat.possible_couplings(0, 0, [item[4]])
                        return site.op_needs_JW(item[2]) and bool(np.any(np.abs(np.asarray(mi) - np.asarray(mj)) > 1))
                    if item[0] == 'multi':
                        return any(site.op_needs_JW(n) for n, _ in item[2])
                    return False
                fl = ':fermionic-range>1' if any(_ferm_long(it) for it in spec) else ''
                for from_mpo in (True, False):
                    ok, Hn = rec.guarded(f'get_numpy_Hamiltonian(from_mpo={from_mpo}):exception',
                                         lambda: exact_diag.get_numpy_Hamiltonian(M, from_mpo=from_mpo, undo_sort_charge=False), inp)
                    if ok:
                        Hn = np.asarray(Hn)
                        rec.check(Hn.shape == Hs.shape and np.allclose(Hn, Hs, atol=tol * scale), f'get_numpy_Hamiltonian(from_mpo={from_mpo}):dense' + fl,
                                  f'max dev {np.abs(Hn - Hs).max() if Hn.shape == Hs.shape else "shape"}', inp)
                # undo_sort_charge=True: the basis of conserve=None; Site.perm is documented by OP_conserved = OP_nonconserved[ix_(perm, perm)]
                P = np.ones((1, 1))
                for st in sites:
                    Ps = np.zeros((st.dim, st.dim))
                    Ps[np.asarray(st.perm), np.arange(st.dim)] = 1.
                    P = np.kron(P, Ps)
                Hu_exp = P @ Hs @ P.T
                for from_mpo in (True, False):
                    ok, Hn = rec.guarded(f'get_numpy_Hamiltonian(from_mpo={from_mpo},undo_sort_charge=True):exception',
                                         lambda: exact_diag.get_numpy_Hamiltonian(M, from_mpo=from_mpo, undo_sort_charge=True), inp)
                    if ok:
                        Hn = np.asarray(Hn)
                        rec.check(Hn.shape == Hu_exp.shape and np.allclose(Hn, Hu_exp, atol=tol * scale),
                                  f'get_numpy_Hamiltonian(from_mpo={from_mpo},undo_sort_charge=True):dense' + fl,
                                  f'max dev {np.abs(Hn - Hu_exp).max() if Hn.shape == Hu_exp.shape else "shape"}', inp)
                ok, Hsp = rec.guarded('get_scipy_sparse_Hamiltonian(undo_sort_charge=True):exception',
                                      lambda: exact_diag.get_scipy_sparse_Hamiltonian(M, undo_sort_charge=True), inp)
                if ok:
                    Hd = np.asarray(Hsp.todense())
                    rec.check(np.allclose(Hd, Hu_exp, atol=tol * scale), 'get_scipy_sparse_Hamiltonian(undo_sort_charge=True):dense' + fl,
                              f'max dev {np.abs(Hd - Hu_exp).max()}', inp)
                ok, Hsp = rec.guarded('get_scipy_sparse_Hamiltonian:exception',
                                      lambda: exact_diag.get_scipy_sparse_Hamiltonian(M, undo_sort_charge=False), inp)
                if ok:
                    Hd = np.asarray(Hsp.todense())
                    rec.check(np.allclose(Hd, Hs, atol=tol * scale), 'get_scipy_sparse_Hamiltonian:dense' + fl, f'max dev {np.abs(Hd - Hs).max()}', inp)
                # nearest-neighbour bond operators
                only_nn = all(item[0] == 'onsite' or (item[0] == 'coupling' and abs(item[4]) == 1) for item in spec) and bc == 'open'
                if only_nn:
                    def nn():
                        Mnn = NearestNeighborModel.from_MPOModel(M) if False else None
                        from tenpy.models.model import NearestNeighborModel as NN
                        hb = M.calc_H_bond()
                        m2 = NN(lat, hb)
                        return bonds_dense(m2, sites), m2
                    ok, res = rec.guarded('calc_H_bond:exception', nn, inp)
                    if ok:
                        Hb, m2 = res
                        rec.check(np.allclose(Hb, Hs, atol=tol * scale), 'H_bond:dense', f'max dev {np.abs(Hb - Hs).max()}', inp)
                        ok, H3 = rec.guarded('calc_H_MPO_from_bond:exception', lambda: mpo_dense(m2.calc_H_MPO_from_bond(), sites), inp)
                        if ok:
                            rec.check(np.allclose(H3, Hs, atol=tol * scale), 'H_MPO_from_bond:dense', '', inp)
                        # grouping sites of the nearest-neighbour model - also when L is not a multiple of the group size
                        import itertools as _it
                        for n_group in (2, 3):
                            if n_group >= L:
                                continue

                            def grouped_nn():
                                from tenpy.models.model import NearestNeighborModel as NN
                                mg = NN(lat.copy(), [None if h is None else h.copy(deep=True) for h in M.calc_H_bond()])
                                mg.group_sites(n_group)
                                gs_ = mg.lat.mps_sites()
                                return bonds_dense(mg, gs_), gs_
                            inp_g = dict(inp, group=n_group)
                            ok, res = rec.guarded('NearestNeighborModel.group_sites:exception', grouped_nn, inp_g)
                            if ok:
                                Hg, gs_ = res
                                idx = np.zeros(1, dtype=np.intp)
                                for g in gs_:
                                    dd = [x.dim for x in g.sites]
                                    pg = np.array([g.leg.map_incoming_flat(list(c)) for c in _it.product(*[range(d_) for d_ in dd])])
                                    idx = (idx[:, None] * int(np.prod(dd)) + pg[None, :]).reshape(-1)
                                rec.check(Hg.shape == Hs.shape and np.allclose(Hg[np.ix_(idx, idx)], Hs, atol=tol * scale),
                                          'NearestNeighborModel.group_sites:dense', f'group size {n_group}, L = {L}', inp_g)
                # ExactDiag
                def ed():
                    e = exact_diag.ExactDiag(M)
                    e.build_full_H_from_mpo()
                    return np.sort(np.linalg.eigvalsh(e.full_H.to_ndarray()))
                ok, ev = rec.guarded('ExactDiag.build_full_H_from_mpo:exception', ed, inp) if len(Hs) <= 300 else (False, None)
                if ok:
                    rec.check(np.allclose(ev, np.sort(np.linalg.eigvalsh(Hs)), atol=1e-8 * scale), 'ExactDiag(from_mpo):spectrum', '', inp)
                # representation-only options: sorted legs, grouped sites
                def sorted_legs():
                    H4 = M.H_MPO.copy()
                    H4.sort_legcharges()
                    return mpo_dense(H4, sites)
                ok, H4 = rec.guarded('sort_legcharges:exception', sorted_legs, inp)
                if ok:
                    rec.check(np.allclose(H4, Hs, atol=tol * scale), 'sort_legcharges:dense', '', inp)
                if L % 2 == 0:
                    def grouped():
                        H5 = M.H_MPO.copy()
                        H5.group_sites(2)
                        return mpo_dense(H5, H5.sites)
                    ok, H5 = rec.guarded('MPO.group_sites:exception', grouped, inp)
                    if ok:
                        # the grouped site's basis is the pipe of its two sites (sorted by charge): map kron index -> pipe index
                        from tenpy.networks.site import group_sites as _gs
                        gsites = _gs(sites, 2, charges='same')
                        idx = np.zeros(1, dtype=np.intp)
                        for g in gsites:
                            d0, d1 = g.sites[0].dim, g.sites[1].dim
                            pg = np.array([g.leg.map_incoming_flat([a, b]) for a in range(d0) for b in range(d1)])
                            idx = (idx[:, None] * (d0 * d1) + pg[None, :]).reshape(-1)
                        rec.check(H5.shape == Hs.shape and np.allclose(H5[np.ix_(idx, idx)], Hs, atol=tol * scale), 'MPO.group_sites:dense', '', inp)
    segment_checks(rec, rng, quick)
    integer_strengths(rec)


def integer_strengths(rec):
    """strengths given as Python / numpy integers (a legal scalar or array) with and without explicit_plus_hc: same operator as with floats"""
    from tenpy.models.model import CouplingModel, MPOModel
    from tenpy.models.lattice import Chain
    from tenpy.networks.site import SpinHalfSite
    L = 4
    site = SpinHalfSite('Sz')
    sites = [site] * L
    ref = None
    for epc in (False, True):
        for kind, conv in (('float', float), ('int', int), ('int array', lambda x: np.full(L, int(x)))):
            lat = Chain(L, site, bc='open', bc_MPS='finite')
            inp = {'explicit_plus_hc': epc, 'strength type': kind}
            rec.begin(f'C10 integer strengths {inp}')
            rec.case(('int-strength', epc, kind), True)

            def build():
                class M(CouplingModel, MPOModel):
                    def __init__(self):
                        CouplingModel.__init__(self, lat, explicit_plus_hc=epc)
                        self.add_onsite(conv(2), 0, 'Sz')
                        self.add_coupling(int(3) if kind != 'float' else 3., 0, 'Sz', 0, 'Sz', 1)
                        self.add_coupling(int(1) if kind != 'float' else 1., 0, 'Sp', 0, 'Sm', 1, plus_hc=True)
                        MPOModel.__init__(self, lat, self.calc_H_MPO())
                return mpo_dense(M().H_MPO, sites)
            ok, Hd = rec.guarded('integer-strengths:exception', build, inp)
            if ok:
                if ref is None:
                    ref = Hd
                rec.check(np.allclose(Hd, ref, atol=1e-12), 'integer-strengths:dense', f'max dev {np.abs(Hd - ref).max()}', inp)
