"""Bounded stand-in for C09: MPS transformations against the dense state."""
import warnings

import numpy as np

from . import mpsgen


def parity_vectors(sites):
    """(-1)^n for every basis state of every site (diagonal of the JW operator)"""
    return [np.real(np.diag(s.get_op('JW').to_ndarray())) for s in sites]


def dense_permute(v, sites, perm):
    """old site i moves to position perm[i]; fermionic sign = product over inverted pairs of (-1)^{n_a n_b}"""
    L = len(sites)
    par = [(1 - p) / 2 for p in parity_vectors(sites)]   # n mod 2 per basis state
    sign = np.ones(v.shape)
    for a in range(L):
        for b in range(a + 1, L):
            if perm[a] > perm[b]:
                shp_a = [1] * L
                shp_a[a] = v.shape[a]
                shp_b = [1] * L
                shp_b[b] = v.shape[b]
                sign = sign * (1 - 2 * (par[a].reshape(shp_a) * par[b].reshape(shp_b)))
    inv = np.argsort(perm)
    return np.transpose(v * sign, inv)


MAX_DIM = 1100


def run(rec):
    warnings.simplefilter('ignore')
    from tenpy.networks.mps import MPS
    import tenpy.linalg.np_conserved as npc
    rng = np.random.default_rng(rec.seed + 9)
    quick = rec.tier == 'quick'
    Ls = [3, 4] if quick else [2, 3, 4, 5, 6]
    reps = 2 if quick else 8
    rec.rule = ('site family x L x random state: apply_local_op / apply_product_op (unitary and non-unitary, fermionic with JW, '
                'norm tracked), swap_sites / permute_sites (dense permutation incl. fermionic signs), add, group_sites+group_split, '
                'enlarge_chi, compress (error <= reported), spatial_inversion (reversal; twice = identity); infinite MPS in forms A/B/C: '
                'enlarge_mps_unit_cell, roll_mps_unit_cell, spatial_inversion leave observables unchanged up to relabelling; '
                'non-trivial = max chi >= 2')
    rec.bounds = {'L': Ls, 'reps': reps, 'max_hilbert_dimension': MAX_DIM}
    tol = 1e-8
    for fname, fam in mpsgen.site_families():
        for L in Ls:
            if int(np.prod([x.dim for x in mpsgen.make_sites(fam, L)])) > MAX_DIM:
                continue      # dense operator oracle: Hilbert space dimension bounded (stated in the evidence)
            for rep in range(reps):
                inp = {'sites': fname, 'L': L, 'rep': rep, 'seed': rec.seed}
                rec.begin(f'C09 {fname} L={L} rep={rep}')
                psi0, v = mpsgen.random_mps(rng, fam, L)
                sites = psi0.sites
                s0 = sites[0]
                rec.case((fname, L, rep), max(psi0.chi) >= 2, sample={'sites': fname, 'L': L} if rep == 0 and L == 3 else None)
                # ---- apply_local_op
                for name in sorted(set().union(*[set(x.opnames) for x in sites])):
                    if name == 'Id':
                        continue
                    i = int(rng.integers(0, L))
                    if name not in sites[i].opnames:
                        continue
                    psi = psi0.copy()
                    exp = (mpsgen.op_dense(sites, [(name, i)]) @ v.reshape(-1)).reshape(v.shape)
                    if np.linalg.norm(exp) < 1e-10:
                        continue     # precondition: the operator must not annihilate the state (tenpy raises ValueError by design)
                    if sites[i].op_needs_JW(name) and psi.chinfo.qnumber == 0:
                        continue     # documented limitation: JW signs are read off the charges
                    ok, _ = rec.guarded(f'apply_local_op[{name}]:exception', lambda: psi.apply_local_op(i, name, renormalize=False), inp)
                    if not ok:
                        continue
                    d = mpsgen.dense_state(psi)
                    rec.check(np.allclose(d, exp, atol=tol), 'apply_local_op:state', f'op {name} at site {i}: max dev {np.abs(d - exp).max()}',
                              dict(inp, op=name, site=i))
                    rec.check(np.max(np.abs(psi.norm_test())) < 1e-7, 'apply_local_op:canonical-form', f'op {name}', dict(inp, op=name, site=i))
                # ---- apply_product_op
                ops = [str(rng.choice([n for n in sorted(x.opnames) if not x.op_needs_JW(n)])) for x in sites]
                psi = psi0.copy()
                exp = v.reshape(-1)
                for i, n in enumerate(ops):
                    exp = mpsgen.op_dense(sites, [(n, i)]) @ exp
                ok = False
                if np.linalg.norm(exp) > 1e-10:
                    ok, _ = rec.guarded('apply_product_op:exception', lambda: psi.apply_product_op(ops, renormalize=False), dict(inp, ops=ops))
                if ok:
                    if True:
                        rec.check(np.allclose(mpsgen.dense_state(psi), exp.reshape(v.shape), atol=tol), 'apply_product_op:state', str(ops), dict(inp, ops=ops))
                    # ... and the result is a proper MPS again: canonical, with the norm tracked in psi.norm (so that measurements
                    # on the result are those of the normalised dense vector)
                    rec.check(np.max(np.abs(psi.norm_test())) < 1e-7, 'apply_product_op:canonical-form', str(ops), dict(inp, ops=ops))
                    rec.check(abs(psi.norm - np.linalg.norm(exp)) < 1e-8 * (1 + np.linalg.norm(exp)), 'apply_product_op:norm-not-tracked',
                              f'psi.norm = {psi.norm}, |O psi| = {np.linalg.norm(exp)}', dict(inp, ops=ops))
                # a unitary operator first (a phase gate exp(i a Sz)-like diagonal unitary = any diagonal operator exponentiated), non-unitary later:
                # whether the product is unitary must be decided from all factors
                import tenpy.linalg.np_conserved as npc_
                diag = [n for n in sorted(sites[0].opnames) if not sites[0].op_needs_JW(n) and n != 'Id' and np.allclose(sites[0].get_op(n).to_ndarray(), np.diag(np.diag(sites[0].get_op(n).to_ndarray())))]
                if diag and L >= 2:
                    U0 = npc_.expm(1.j * sites[0].get_op(diag[0]))
                    ops2 = [U0] + ops[1:]
                    exp2 = v.reshape(-1).astype(complex)
                    exp2 = np.kron(U0.to_ndarray(), np.eye(exp2.size // sites[0].dim)) @ exp2
                    for i, n in enumerate(ops2):
                        if i > 0:
                            exp2 = mpsgen.op_dense(sites, [(n, i)]) @ exp2
                    psi = psi0.copy()
                    if np.linalg.norm(exp2) > 1e-10:
                        ok, _ = rec.guarded('apply_product_op(unitary first):exception', lambda: psi.apply_product_op(ops2, renormalize=False), dict(inp, ops=ops[1:]))
                        if ok:
                            rec.check(np.allclose(mpsgen.dense_state(psi), exp2.reshape(v.shape), atol=tol), 'apply_product_op(unitary first):state', str(ops[1:]), dict(inp, ops=ops[1:]))
                            rec.check(np.max(np.abs(psi.norm_test())) < 1e-7, 'apply_product_op(unitary first):canonical-form', str(ops[1:]), dict(inp, ops=ops[1:]))
                            rec.check(abs(psi.norm - np.linalg.norm(exp2)) < 1e-8 * (1 + np.linalg.norm(exp2)), 'apply_product_op(unitary first):norm-not-tracked',
                                      f'psi.norm = {psi.norm}, |O psi| = {np.linalg.norm(exp2)}', dict(inp, ops=ops[1:]))
                # ---- swap / permute
                if L >= 2:
                    i = int(rng.integers(0, L - 1))
                    psi = psi0.copy()
                    ok, _ = rec.guarded('swap_sites:exception', lambda: psi.swap_sites(i), dict(inp, i=i))
                    if ok:
                        perm = list(range(L))
                        perm[i], perm[i + 1] = perm[i + 1], perm[i]
                        exp = dense_permute(v, sites, perm)
                        rec.check(np.allclose(mpsgen.dense_state(psi), exp, atol=tol), 'swap_sites:state', f'swap {i}', dict(inp, i=i))
                    perm = rng.permutation(L).tolist()
                    psi = psi0.copy()
                    ok, err = rec.guarded('permute_sites:exception', lambda: psi.permute_sites(perm), dict(inp, perm=perm))
                    if ok:
                        exp = dense_permute(v, sites, perm)
                        d = mpsgen.dense_state(psi)
                        rec.check(np.allclose(d, exp, atol=1e-7), 'permute_sites:state', f'perm {perm}: max dev {np.abs(d - exp).max()}', dict(inp, perm=perm))
                # ---- add
                phi0, w = mpsgen.random_mps(rng, fam, L)
                if np.array_equal(phi0.get_total_charge(), psi0.get_total_charge()):
                    al, be = complex(rng.standard_normal(), rng.standard_normal()), float(rng.standard_normal())
                    ok, res = rec.guarded('add:exception', lambda: psi0.add(phi0, al, be), inp)
                    if ok:
                        exp = al * v + be * w
                        d = mpsgen.dense_state(res)
                        rec.check(np.allclose(d, exp, atol=1e-7), 'add:state', f'max dev {np.abs(d - exp).max()}', inp)
                    # summands that carry different recorded norms (as left by un-normalised operator applications)
                    pa, pb = psi0.copy(), phi0.copy()
                    pa.norm, pb.norm = float(rng.uniform(0.3, 2.5)), float(rng.uniform(0.3, 2.5))
                    va, vb = mpsgen.dense_state(pa), mpsgen.dense_state(pb)
                    ok, res = rec.guarded('add(different norms):exception', lambda: pa.add(pb, al, be), inp)
                    if ok:
                        d = mpsgen.dense_state(res)
                        rec.check(np.allclose(d, al * va + be * vb, atol=1e-7), 'add(different norms):state',
                                  f'norms {pa.norm}, {pb.norm}: max dev {np.abs(d - al * va - be * vb).max()}', inp)
                # ---- group / split
                if L >= 2:
                    n = int(rng.integers(2, min(L, 3) + 1))
                    psi = psi0.copy()
                    ok, _ = rec.guarded('group_sites:exception', lambda: psi.group_sites(n), dict(inp, n=n))
                    if ok:
                        ok2, _ = rec.guarded('group_split:exception', lambda: psi.group_split({'chi_max': 200, 'svd_min': 1e-14}), dict(inp, n=n))
                        if ok2:
                            rec.check(psi.L == L and np.allclose(mpsgen.dense_state(psi), v, atol=1e-7), 'group_sites+group_split:state', f'n={n}', dict(inp, n=n))
                # ---- enlarge_chi
                psi = psi0.copy()
                extra = [0] + [int(rng.integers(0, 3)) for _ in range(L - 1)] + [0]
                try:
                    psi.enlarge_chi(extra)
                    ok = True
                except ValueError as e:
                    ok = False
                    if 'Gram-Schmidt' not in str(e):     # "overcomplete charge block" is a documented precondition
                        rec.violation('enlarge_chi:exception:ValueError', str(e)[:200], dict(inp, extra=extra))
                except Exception as e:
                    ok = False
                    rec.violation(f'enlarge_chi:exception:{type(e).__name__}', str(e)[:200], dict(inp, extra=extra))
                if ok:
                    rec.check(np.allclose(mpsgen.dense_state(psi), v, atol=1e-7), 'enlarge_chi:state', str(extra), dict(inp, extra=extra))
                # ---- compress
                psi = psi0.copy()
                chi = max(1, max(psi.chi) // 2)
                ok, err = rec.guarded('compress_svd:exception', lambda: psi.compress_svd({'chi_max': chi, 'svd_min': 1e-14}), dict(inp, chi=chi))
                if ok:
                    d = mpsgen.dense_state(psi)
                    nd = d / np.linalg.norm(d)
                    fid_err = 1 - abs(np.vdot(nd.ravel(), v.ravel())) ** 2
                    rec.check(fid_err <= 2 * err.eps + 1e-9, 'compress_svd:error-bound',
                              f'1-|<psi|psi_c>|^2 = {fid_err} > 2*reported eps {err.eps}', dict(inp, chi=chi))
                # ---- apply_local_term: a product of operators on several sites (any order, fermionic with JW), written relative to an offset
                cand_t = sorted(n for n in s0.opnames if n not in ('Id', 'JW') and all(n in x.opnames for x in sites))
                if L >= 3 and cand_t:
                    nops = int(rng.integers(2, 4))
                    off = int(rng.integers(0, 2))
                    term = [(str(rng.choice(cand_t)), int(rng.integers(0, L - off))) for _ in range(nops)]
                    if sum(bool(s0.op_needs_JW(n)) for n, _ in term) % 2 == 0:
                        psi = psi0.copy()
                        Od = mpsgen.op_dense(sites, [(n, i + off) for n, i in term])
                        exp = (Od @ v.reshape(-1)).reshape(v.shape)
                        if np.linalg.norm(exp) > 1e-8:
                            ok, _ = rec.guarded('apply_local_term:exception', lambda: psi.apply_local_term(term, i_offset=off, renormalize=False), dict(inp, term=term, i_offset=off))
                            if ok:
                                d = mpsgen.dense_state(psi)
                                rec.check(np.allclose(d, exp, atol=1e-7), 'apply_local_term:state', f'term {term} offset {off}: max dev {np.abs(d - exp).max()}',
                                          dict(inp, term=term, i_offset=off))
                # ---- spatial inversion (from a uniform form, and from site-dependent canonical forms)
                psi = psi0.copy()
                if rep % 2 == 1:
                    forms = [str(rng.choice(['A', 'B', 'C', 'G', 'Th'])) for _ in range(L)]
                    psi.convert_form(forms)
                    inp = dict(inp, forms=forms)
                ok, _ = rec.guarded('spatial_inversion:exception', lambda: psi.spatial_inversion(), inp)
                if ok:
                    exp = np.transpose(v, list(range(L))[::-1])
                    d = mpsgen.dense_state(psi)
                    # fermionic sites: the reversal is defined on the tensors without signs; compare up to that convention
                    if all(np.all(p == 1) for p in parity_vectors(sites)):
                        rec.check(np.allclose(d, exp, atol=tol), 'spatial_inversion:state', '', inp)
                    ok2, _ = rec.guarded('spatial_inversion(twice):exception', lambda: psi.spatial_inversion(), inp)
                    if ok2:
                        rec.check(np.allclose(mpsgen.dense_state(psi), v, atol=tol), 'spatial_inversion:twice-not-identity', '', inp)
    infinite_transforms(rec, quick)


def infinite_transforms(rec, quick):
    from tenpy.networks.mps import MPS
    from tenpy.models.xxz_chain import XXZChain
    from tenpy.algorithms import tebd
    for L in ([2, 3] if quick else [2, 3, 4]):
        M = XXZChain({'L': L, 'Jxx': 1., 'Jz': 0.5, 'hz': 0.3, 'bc_MPS': 'infinite'})
        psi0 = MPS.from_product_state(M.lat.mps_sites(), (['up', 'down', 'up', 'up'])[:L], 'infinite')
        hz = np.linspace(0.1, 0.7, L)
        M2 = XXZChain({'L': L, 'Jxx': 1., 'Jz': 0.5, 'hz': hz, 'bc_MPS': 'infinite'})
        eng = tebd.TEBDEngine(psi0, M2, {'dt': 0.1, 'N_steps': 6, 'order': 2, 'trunc_params': {'chi_max': 10, 'svd_min': 1e-10}})
        eng.run()
        ref_sz = np.array(psi0.expectation_value('Sz'))
        ref_c = np.array([psi0.correlation_function('Sp', 'Sm', [i], [i + 1, i + 2])[0] for i in range(L)])
        # ---- compression of an infinite MPS: the reported error bounds the infidelity per unit cell and is at least the weight
        # discarded on any single bond (evolved state with site-dependent field, and a random state with non-uniform bond dimensions)
        from tenpy.networks.site import SpinHalfSite
        rng_c = np.random.default_rng(100 + L)
        chis = [int(x) for x in rng_c.integers(3, 8, size=L)]
        s_nc = SpinHalfSite(conserve=None)
        Bs_r = [rng_c.normal(size=(2, chis[i], chis[(i + 1) % L])) + 1.j * rng_c.normal(size=(2, chis[i], chis[(i + 1) % L])) for i in range(L)]
        psi_r = MPS.from_Bflat([s_nc] * L, Bs_r, bc='infinite', dtype=complex, form=None)
        psi_r.canonical_form()
        for tag, src in (('evolved', psi0), ('random', psi_r)):
            for chi_max in (2, 3):
                if max(src.chi) <= chi_max:
                    continue
                for method in ('compress_svd', 'compress'):
                    inp_c = {'L': L, 'state': tag, 'chi': list(src.chi), 'chi_max': chi_max, 'method': method}
                    rec.begin(f'C09 infinite compress {inp_c}')
                    phi = src.copy()
                    tp = {'chi_max': chi_max, 'svd_min': 1e-14}
                    ok, err = rec.guarded(f'{method}(infinite):exception',
                                          lambda: phi.compress_svd(tp) if method == 'compress_svd' else phi.compress({'compression_method': 'SVD', 'trunc_params': tp}), inp_c)
                    rec.case(('compress-infinite', L, tag, chi_max, method))
                    if not ok:
                        continue
                    phi.canonical_form()
                    ov = abs(src.overlap(phi, understood_infinite=True))
                    infid = 1. - ov ** 2
                    disc = max(float(np.sum(np.sort(src.get_SL(b_))[::-1][chi_max:] ** 2)) for b_ in range(L))
                    rec.check(infid <= 2 * err.eps + 1e-9, f'{method}(infinite):error-bound',
                              f'infidelity per unit cell {infid} > 2 * reported eps {err.eps}', inp_c)
                    rec.check(err.eps >= 0.5 * disc - 1e-12, f'{method}(infinite):reported-error-below-single-bond-weight',
                              f'reported eps {err.eps}, weight discarded on one bond alone {disc}', inp_c)
        for form in ('A', 'B', 'C'):
            inp = {'L': L, 'form': form}
            # roll
            for shift in (1, -1, 2):
                psi = psi0.copy()
                psi.convert_form(form)
                rec.begin(f'C09 infinite roll L={L} form={form} shift={shift}')
                ok, _ = rec.guarded('roll_mps_unit_cell:exception', lambda: psi.roll_mps_unit_cell(shift), dict(inp, shift=shift))
                rec.case(('roll', L, form, shift))
                if ok:
                    sz = np.array(psi.expectation_value('Sz'))
                    exp = np.roll(ref_sz, shift)
                    c = np.array([psi.correlation_function('Sp', 'Sm', [i], [i + 1, i + 2])[0] for i in range(L)])
                    expc = np.roll(ref_c, shift, axis=0)
                    rec.check(np.allclose(sz, exp, atol=1e-7) and np.allclose(c, expc, atol=1e-7), 'roll_mps_unit_cell:observables',
                              f'<Sz> {sz} expected {exp}', dict(inp, shift=shift))
                    rec.check(np.max(np.abs(psi.norm_test())) < 1e-6, 'roll_mps_unit_cell:norm_test', str(np.max(np.abs(psi.norm_test()))), dict(inp, shift=shift))
            # enlarge
            psi = psi0.copy()
            psi.convert_form(form)
            rec.begin(f'C09 infinite enlarge L={L} form={form}')
            ok, _ = rec.guarded('enlarge_mps_unit_cell:exception', lambda: psi.enlarge_mps_unit_cell(2), inp)
            rec.case(('enlarge', L, form))
            if ok:
                sz = np.array(psi.expectation_value('Sz'))
                rec.check(psi.L == 2 * L and np.allclose(sz, np.tile(ref_sz, 2), atol=1e-7), 'enlarge_mps_unit_cell:observables', str(sz), inp)
            # spatial inversion: site j -> L-1-j ; correlations reversed
            psi = psi0.copy()
            psi.convert_form(form)
            rec.begin(f'C09 infinite inversion L={L} form={form}')
            ok, _ = rec.guarded('spatial_inversion(infinite):exception', lambda: psi.spatial_inversion(), inp)
            rec.case(('inversion', L, form))
            if ok:
                ok3, sz = rec.guarded('spatial_inversion(infinite):measure-exception', lambda: np.array(psi.expectation_value('Sz')), inp)
                if ok3:
                    rec.check(np.allclose(sz, ref_sz[::-1], atol=1e-7), 'spatial_inversion(infinite):observables', f'<Sz> {sz} expected {ref_sz[::-1]}', inp)
                    rec.check(np.max(np.abs(psi.norm_test())) < 1e-6, 'spatial_inversion(infinite):norm_test', str(np.max(np.abs(psi.norm_test()))), inp)
