"""Bounded stand-in for C07: constructors, canonicalisation and form conversions against the dense state."""
import warnings

import numpy as np

from . import mpsgen


def _entropy(s):
    p = s ** 2
    p = p[p > 1e-30]
    return float(-np.sum(p * np.log(p)))


def check_state(rec, psi, v, tag, inp, check_schmidt=True):
    """psi must denote the dense state v (incl. norm); in canonical form S = Schmidt values at every cut."""
    d = mpsgen.dense_state(psi)
    rec.check(d.shape == v.shape and np.allclose(d, v, atol=1e-9), f'{tag}:state', f'max dev {np.abs(d - v).max() if d.shape == v.shape else "shape"}', inp)
    if check_schmidt:
        nv = v / np.linalg.norm(v)
        for cut in range(1, psi.L):
            s_true = np.sort(mpsgen.schmidt_values(nv, cut))[::-1]
            S = psi.get_SL(cut)
            if S.ndim != 1:
                rec.violation(f'{tag}:S-not-diagonal', f'bond {cut}', inp)
                continue
            s_mps = np.sort(S[S > 1e-13])[::-1]
            ok = len(s_mps) == len(s_true) and np.allclose(s_mps, s_true, atol=1e-8)
            rec.check(ok, f'{tag}:schmidt-values', f'bond {cut}: {s_mps} vs dense {s_true}', inp)
        ee = psi.entanglement_entropy()
        ee_true = [_entropy(mpsgen.schmidt_values(nv, c)) for c in range(1, psi.L)]
        rec.check(np.allclose(ee, ee_true, atol=1e-7), f'{tag}:entanglement-entropy', f'{ee} vs {ee_true}', inp)
        rec.check(np.max(np.abs(psi.norm_test())) < 1e-8, f'{tag}:norm_test', str(psi.norm_test()), inp)


def run(rec):
    warnings.simplefilter('ignore')
    from tenpy.networks.mps import MPS
    import tenpy.linalg.np_conserved as npc
    rng = np.random.default_rng(rec.seed + 7)
    quick = rec.tier == 'quick'
    rec.rule = ('site family x L in 2..6: from_full of a random dense state of one charge sector, from_product_state, from_Bflat with '
                'random non-canonical tensors + canonical_form, from_singlets, random sequences of convert_form/canonical_form/'
                'get_B(form)/set_B; compared with the dense state, Schmidt values and entropies at every cut, recorded norm; '
                'infinite MPS: canonical_form_infinite keeps expectation values; non-trivial = max chi >= 2')
    Ls = [2, 3, 4, 5] if quick else [2, 3, 4, 5, 6, 7]
    reps = 3 if quick else 12
    rec.bounds = {'L': Ls, 'families': len(mpsgen.site_families()), 'reps': reps}
    for fname, fam in mpsgen.site_families():
        for L in Ls:
            for rep in range(reps):
                inp = {'sites': fname, 'L': L, 'rep': rep, 'seed': rec.seed}
                rec.begin(f'C07 {fname} L={L} rep={rep}')
                ok, res = rec.guarded(f'from_full[{fname}]:exception', lambda: mpsgen.random_mps(rng, fam, L), inp)
                if not ok:
                    continue
                psi, v = res
                rec.case((fname, L, rep), max(psi.chi) >= 2, sample={'sites': fname, 'L': L, 'chi': psi.chi} if rep == 0 and L == 3 else None)
                check_state(rec, psi, v, 'from_full', inp)
                # unnormalised input: norm is recorded
                sites = psi.sites
                legs = [s.leg for s in sites]
                a = npc.Array.from_ndarray(2.5 * v, legs, labels=[f'p{i}' for i in range(L)], qtotal=npc.detect_qtotal(v, legs))
                ok, p2 = rec.guarded('from_full(normalize=False):exception', lambda: MPS.from_full(sites, a, normalize=False), inp)
                if ok:
                    check_state(rec, p2, 2.5 * v, 'from_full(unnormalized)', inp)
                    ok, p3 = rec.guarded('from_full(normalize=True):exception', lambda: MPS.from_full(sites, a, normalize=True), inp)
                    if ok:
                        check_state(rec, p3, v, 'from_full(normalize=True)', inp)
                # random sequence of form conversions
                p = psi.copy()
                hist = []
                for _ in range(rng.integers(2, 6)):
                    step = rng.choice(['A', 'B', 'C', 'mixed', 'canon', 'getset'])
                    hist.append(str(step))
                    if step in ('A', 'B', 'C'):
                        p.convert_form(step)
                    elif step == 'mixed':
                        p.convert_form([str(rng.choice(['A', 'B', 'C', 'G'])) for _ in range(L)])
                    elif step == 'canon':
                        p.canonical_form()
                    else:
                        i = int(rng.integers(0, L))
                        f = str(rng.choice(['A', 'B', 'C', 'G', 'Th']))
                        B = p.get_B(i, f)
                        p.set_B(i, B, f)
                    d = mpsgen.dense_state(p)
                    if not np.allclose(d, v, atol=1e-9):
                        rec.violation('form-conversion:state-changed', f'after {hist}', inp)
                        break
                check_state(rec, p, v, f'after-form-history', dict(inp, history=hist))
                # non-canonical tensors + canonical_form: scramble the bonds with random invertible gauges
                Bs = [psi.get_B(i, 'B').to_ndarray() for i in range(L)]   # vL p vR
                for i in range(L - 1):
                    chi = Bs[i].shape[2]
                    X = rng.standard_normal((chi, chi)) + np.eye(chi) * 2
                    Xi = np.linalg.inv(X)
                    Bs[i] = np.tensordot(Bs[i], X, axes=[2, 0])
                    Bs[i + 1] = np.tensordot(Xi, Bs[i + 1], axes=[1, 0])
                sites_nc = [type(s)(**{}) if False else s for s in psi.sites]
                if psi.chinfo.qnumber == 0:
                    ok, pn = rec.guarded('from_Bflat:exception', lambda: MPS.from_Bflat(sites_nc, [b.transpose(1, 0, 2) for b in Bs],
                                                                                         SVs=None, form=None, bc='finite'), inp)
                    if ok:
                        d0 = mpsgen.dense_state(pn) if False else None
                        ok2, _ = rec.guarded('canonical_form(non-canonical input):exception', lambda: pn.canonical_form(renormalize=False), inp)
                        if ok2:
                            check_state(rec, pn, v, 'from_Bflat+canonical_form', inp)
                # product state constructor
                idx = [int(rng.integers(0, s.dim)) for s in psi.sites]
                ok, pp = rec.guarded('from_product_state:exception', lambda: MPS.from_product_state(psi.sites, idx, 'finite', permute=False), inp)
                if ok:
                    vp = np.zeros([s.dim for s in psi.sites], dtype=complex)
                    vp[tuple(idx)] = 1.
                    check_state(rec, pp, vp, 'from_product_state', dict(inp, state=idx), check_schmidt=False)
                # default permute=True, labels / ints / arrays mixed in one list: ints and arrays are given in the basis of conserve=None
                # (entry k of the unsorted basis is entry site.perm^-1 ... i.e. sorted[j] = unsorted[perm[j]]), labels name a state directly
                entries, locs_ = [], []
                for s_ in psi.sites:
                    kind = str(rng.choice(['label', 'int', 'array']))
                    perm_ = np.asarray(s_.perm)
                    if kind == 'label' and s_.state_labels:
                        lab = str(rng.choice(sorted(s_.state_labels)))
                        w_ = np.zeros(s_.dim, complex)
                        w_[s_.state_labels[lab]] = 1.
                        entries.append(lab)
                    elif kind == 'int' or not s_.state_labels:
                        k_ = int(rng.integers(0, s_.dim))
                        u_ = np.zeros(s_.dim, complex)
                        u_[k_] = 1.
                        w_ = u_[perm_]
                        entries.append(k_)
                    else:
                        k_ = int(rng.integers(0, s_.dim))
                        u_ = np.zeros(s_.dim, complex)
                        u_[k_] = np.exp(0.7j)
                        w_ = u_[perm_]
                        entries.append(u_.copy())
                    locs_.append(w_)
                inp_m = dict(inp, state=[e if isinstance(e, (str, int)) else 'array ' + str(np.round(e, 3).tolist()) for e in entries])
                ok, pm = rec.guarded('from_product_state(mixed entries, permute=True):exception',
                                     lambda: MPS.from_product_state(psi.sites, entries, 'finite', dtype=complex), inp_m)
                if ok:
                    vm = locs_[0]
                    for w_ in locs_[1:]:
                        vm = np.multiply.outer(vm, w_)
                    check_state(rec, pm, vm, 'from_product_state(mixed entries, permute=True)', inp_m, check_schmidt=False)
    singlets(rec, rng)
    covering(rec, rng, quick)
    segments(rec, rng, quick)
    segment_boundaries_accumulate(rec, rng, quick)
    exact_diag_conversions(rec, rng, quick)
    projected_product_states(rec, rng, quick)
    infinite(rec, rng, quick)


def singlets(rec, rng):
    from tenpy.networks.mps import MPS
    from tenpy.networks.site import SpinHalfSite
    for L, pairs in [(4, [(0, 3), (1, 2)]), (4, [(0, 1), (2, 3)]), (6, [(0, 5), (1, 3), (2, 4)]), (5, [(0, 2), (1, 4)])]:
        s = SpinHalfSite(conserve='Sz')
        rec.begin(f'C07 from_singlets L={L} {pairs}')
        up = [i for i in range(L) if all(i not in p for p in pairs)]
        ok, psi = rec.guarded('from_singlets:exception', lambda: MPS.from_singlets(s, L, pairs, lonely=up, bc='finite'), {'pairs': pairs})
        rec.case(('singlets', L, tuple(pairs)))
        if not ok:
            continue
        d = mpsgen.dense_state(psi)
        # oracle: |psi> = prod_pairs (|ud> - |du>)/sqrt2, sign convention up to global phase per pair
        iu, idn = s.state_index('up'), s.state_index('down')
        v = np.zeros((2,) * L, dtype=complex)
        import itertools
        for choice in itertools.product([0, 1], repeat=len(pairs)):
            idx = [iu] * L
            sign = 1.
            for (a, b), c in zip(pairs, choice):
                idx[a], idx[b] = (iu, idn) if c == 0 else (idn, iu)
                sign *= 1 if c == 0 else -1
            v[tuple(idx)] = sign / np.sqrt(2) ** len(pairs)
        ov = abs(np.vdot(v.ravel(), d.ravel()))
        rec.check(abs(ov - 1) < 1e-9 and abs(np.linalg.norm(d) - 1) < 1e-9, 'from_singlets:state', f'|overlap| = {ov}', {'L': L, 'pairs': pairs})


def covering(rec, rng, quick):
    """from_product_mps_covering: random entangled local states (unequal Schmidt weights) on interleaved site sets;
    the result must denote the product state and store the true Schmidt values on every bond"""
    from tenpy.networks.mps import MPS
    fams = [f for f in mpsgen.site_families() if not getattr(f[1], 'takes_L', False)]
    for fname, fam in fams:
        for k in range(2 if quick else 12):
            nloc = int(rng.integers(2, 4))
            Ls = [int(rng.integers(1, 4)) for _ in range(nloc)]
            L = sum(Ls)
            if L > 7:
                continue
            order = [int(x) for x in rng.permutation(L)]
            # reordering fermionic modes brings signs whose convention the documentation does not fix: unsorted site lists only
            # for sites without Jordan-Wigner string
            fermionic = bool(np.any(fam().JW_exponent))
            index_map, pos = [], 0
            for l in Ls:
                # both sorted and unsorted site lists: local site j goes to site index_map[.][j] (documented)
                index_map.append(sorted(order[pos:pos + l]) if (k % 2 or fermionic) else order[pos:pos + l])
                pos += l
            site = fam()
            inp = {'family': fname, 'index_map': index_map}
            rec.begin(f'C07 from_product_mps_covering {inp}')
            locs = []
            for l in Ls:
                v = mpsgen.random_state_vector(rng, [site] * l)
                import tenpy.linalg.np_conserved as npc
                legs = [site.leg] * l
                a = npc.Array.from_ndarray(v, legs, labels=[f'p{i}' for i in range(l)], qtotal=npc.detect_qtotal(v, legs))
                if l == 1:
                    locs.append((MPS.from_product_state([site], [v.astype(complex)], 'finite', dtype=complex, permute=False), v))
                else:
                    locs.append((MPS.from_full([site] * l, a, form='B', cutoff=1e-14, normalize=False), v))
            ok, psi = rec.guarded('from_product_mps_covering:exception',
                                  lambda: MPS.from_product_mps_covering([p for p, _ in locs], index_map, bc='finite', unit_cell_width=L), inp)
            rec.case(('covering', fname, k), True, sample=inp if k == 0 else None)
            if not ok:
                continue
            ref = np.ones(())
            flat_order = []
            for (_, v), idx in zip(locs, index_map):
                ref = np.multiply.outer(ref, v)
                flat_order.extend(idx)
            ref = ref.transpose(np.argsort(flat_order))
            try:
                psi.test_sanity()
            except Exception as e:
                rec.violation('from_product_mps_covering:sanity', str(e), inp)
                continue
            check_state(rec, psi, ref, 'from_product_mps_covering', inp)
            p2 = psi.copy()
            p2.convert_form('A')
            check_state(rec, p2, ref, "from_product_mps_covering+convert_form('A')", inp, check_schmidt=False)


def segments(rec, rng, quick):
    """segment MPS (non-trivial singular values on the outer bonds): canonical_form_finite and form conversions keep the
    segment wave function (up to the returned boundary transformations), its entropies and its recorded norm"""
    import tenpy.linalg.np_conserved as npc

    def dense_seg(p):
        th = p.get_theta(0, p.L)
        return th.itranspose(['vL'] + [f'p{i}' for i in range(p.L)] + ['vR'])
    fams = [f for f in mpsgen.site_families() if not getattr(f[1], 'takes_L', False)]
    for fname, fam in fams[:: (3 if quick else 1)]:
        for k in range(2 if quick else 6):
            L = 6
            psi, v = mpsgen.random_mps(rng, fam, L)
            psi.canonical_form()
            first = int(rng.integers(1, 3))
            last = int(rng.integers(first + 1, L - 1))
            form = [None, 'A', 'B', 'C'][k % 4]
            inp = {'family': fname, 'segment': [first, last], 'form_before': form}
            rec.begin(f'C07 segment {inp}')
            ok, seg = rec.guarded('extract_segment:exception', lambda: psi.extract_segment(first, last), inp)
            rec.case(('segment', fname, k), True, sample=inp if k == 0 else None)
            if not ok:
                continue
            if form is not None:
                th0 = dense_seg(seg)
                ok, _ = rec.guarded('segment.convert_form:exception', lambda: seg.convert_form(form), inp)
                if ok:
                    rec.check(npc.norm(dense_seg(seg) - th0) < 1e-9, 'segment.convert_form:state-changed', f'-> {form}', inp)
            th_old = dense_seg(seg)
            ent_old = seg.entanglement_entropy()
            norm_old = seg.norm
            ok, res = rec.guarded('segment.canonical_form_finite:exception', lambda: seg.canonical_form_finite(), inp)
            if not ok:
                continue
            U_L, V_R = res
            try:
                seg.test_sanity()
            except Exception as e:
                rec.violation('segment.canonical_form_finite:sanity', str(e)[:200], inp)
                continue
            th_new = dense_seg(seg)
            cmp_ = npc.tensordot(npc.tensordot(U_L, th_new, axes=['vR', 'vL']), V_R, axes=['vR', 'vL'])
            cmp_.itranspose(th_old.get_leg_labels())
            rec.check(npc.norm(cmp_ - th_old) < 1e-9, 'segment.canonical_form_finite:state-changed',
                      f'|U_L theta_new V_R - theta_old| = {npc.norm(cmp_ - th_old)}', inp)
            rec.check(np.allclose(seg.entanglement_entropy(), ent_old, atol=1e-8), 'segment.canonical_form_finite:entropies-changed', '', inp)
            rec.check(abs(seg.norm - norm_old) < 1e-10, 'segment.canonical_form_finite:norm-changed', f'{norm_old} -> {seg.norm}', inp)
            rec.check(np.max(np.abs(seg.norm_test())) < 1e-8, 'segment.canonical_form_finite:norm_test', str(seg.norm_test()), inp)
            # a second canonicalisation (hidden in apply_local_op with a non-unitary operator): the boundary transformations accumulate in
            # segment_boundaries so that  U_L theta V_R * norm  stays the wave function of the segment in the original boundary basis
            UL1, VR1 = seg.segment_boundaries
            if UL1 is None:
                continue
            full = lambda p_, U_, V_: npc.tensordot(npc.tensordot(U_, dense_seg(p_), axes=['vR', 'vL']), V_, axes=['vR', 'vL'])
            before = full(seg, UL1, VR1) * seg.norm
            exp = before
            inp2 = dict(inp)
            applied = []
            for i_op in (seg.L - 1, 0, int(rng.integers(0, seg.L))):      # both ends (their boundary matrices change), then anywhere
                site_i = seg.sites[i_op]
                cands = [n for n in sorted(site_i.opnames) if not site_i.op_needs_JW(n) and n != 'Id' and np.all(site_i.get_op(n).qtotal == 0)
                         and np.linalg.matrix_rank(site_i.get_op(n).to_ndarray()) == site_i.dim
                         and not np.allclose(site_i.get_op(n).to_ndarray() @ site_i.get_op(n).to_ndarray().conj().T, np.eye(site_i.dim))]
                if not cands:
                    continue
                opn = cands[int(rng.integers(0, len(cands)))]
                applied.append((opn, i_op))
                inp2 = dict(inp, ops=list(applied))
                ok, _ = rec.guarded('segment.apply_local_op:exception', lambda: seg.apply_local_op(i_op, opn, unitary=False, renormalize=False), inp2)
                if not ok:
                    break
                exp = npc.tensordot(site_i.get_op(opn), exp, axes=['p*', f'p{i_op}']).replace_label('p', f'p{i_op}')
                exp.itranspose(before.get_leg_labels())
            if not applied or not ok:
                continue
            UL2, VR2 = seg.segment_boundaries
            after = full(seg, UL2, VR2) * seg.norm
            after.itranspose(before.get_leg_labels())
            rec.check(npc.norm(after - exp) < 1e-8 * (1 + npc.norm(exp)), 'segment.apply_local_op:state-with-boundaries',
                      f'|U_L theta V_R norm - O(U_L theta V_R norm)_before| = {npc.norm(after - exp)}', inp2)
            rec.check(np.max(np.abs(seg.norm_test())) < 1e-8, 'segment.apply_local_op:norm_test', '', inp2)


def exact_diag_conversions(rec, rng, quick):
    """ExactDiag.mps_to_full / full_to_mps (with and without a charge sector, real and complex states): the round trip and
    the MPS built from a full wave function denote the same state; eigenvectors of the full Hamiltonian turned into MPS"""
    from tenpy.algorithms.exact_diag import ExactDiag
    from tenpy.models.xxz_chain import XXZChain
    from tenpy.models.fermions_spinless import FermionChain
    from tenpy.networks.mps import MPS
    models = [('XXZ', lambda L: XXZChain({'L': L, 'Jxx': 1., 'Jz': 0.7, 'hz': 0.1, 'bc_MPS': 'finite'})),
              ('Fermion(complex J)', lambda L: FermionChain({'L': L, 'J': np.exp(0.3j), 'V': 0.5, 'mu': 0.2, 'bc_MPS': 'finite'}))]
    for mname, mk in models:
        for L in ((4,) if quick else (3, 4, 5)):
            M = mk(L)
            sites = M.lat.mps_sites()
            st = sites[0]
            for use_sector in (True, False):
                for cplx in (True, False):
                    inp = {'model': mname, 'L': L, 'charge_sector': use_sector, 'complex_state': cplx}
                    rec.begin(f'C07 ExactDiag conversions {inp}')
                    v = mpsgen.random_state_vector(rng, sites, complex_=cplx)
                    import tenpy.linalg.np_conserved as npc
                    legs = [x.leg for x in sites]
                    a = npc.Array.from_ndarray(v, legs, labels=[f'p{i}' for i in range(L)], qtotal=npc.detect_qtotal(v, legs))
                    psi = MPS.from_full(sites, a, form='B', cutoff=1e-14, normalize=False)
                    q = psi.get_total_charge(True)
                    ok, ed = rec.guarded('ExactDiag:exception', lambda: ExactDiag(M, charge_sector=q if use_sector else None), inp)
                    rec.case(('exact_diag', mname, L, use_sector, cplx), True)
                    if not ok:
                        continue
                    ok, full = rec.guarded('ExactDiag.mps_to_full:exception', lambda: ed.mps_to_full(psi), inp)
                    if not ok:
                        continue
                    ok, back = rec.guarded('ExactDiag.full_to_mps:exception', lambda: ed.full_to_mps(full), inp)
                    if ok:
                        d = mpsgen.dense_state(back)
                        rec.check(d.shape == v.shape and np.allclose(d, v, atol=1e-10), 'ExactDiag.full_to_mps(mps_to_full(psi)):state',
                                  f'max dev {np.abs(d - v).max() if d.shape == v.shape else "shape"}', inp)
                        rec.check(abs(back.overlap(psi) - 1) < 1e-10, 'ExactDiag.full_to_mps:overlap', str(back.overlap(psi)), inp)
            # eigenvector of the full Hamiltonian -> MPS: energy expectation value equals the eigenvalue
            ed = ExactDiag(M, charge_sector=None)
            ed.build_full_H_from_mpo()
            ed.full_diagonalization()
            E0, v0 = ed.groundstate()
            p0 = ed.full_to_mps(v0)
            rec.check(abs(M.H_MPO.expectation_value(p0) - E0) < 1e-9, 'ExactDiag.full_to_mps(groundstate):energy',
                      f'{M.H_MPO.expectation_value(p0)} vs {E0}', {'model': mname, 'L': L})


def projected_product_states(rec, rng, quick):
    """MPS.project_onto_charge_sector: the product state of local superpositions, projected onto one total charge (and normalised)"""
    from tenpy.networks.mps import MPS
    from tenpy.networks import site as S
    for sname, mk in (('SpinHalf[Sz]', lambda: S.SpinHalfSite('Sz', sort_charge=True)), ('Boson[N,Nmax=2]', lambda: S.BosonSite(2, 'N')),
                      ('Fermion[N]', lambda: S.FermionSite('N'))):
        for L in ((3, 4) if quick else (2, 3, 4, 5)):
            st = mk()
            sites = [st] * L
            local = [rng.standard_normal(st.dim) for _ in range(L)]
            # "a product state (as used in MPS.from_product_state)": there a local vector is given in the basis of conserve=None and
            # permuted with the site's `perm` (documented option permute=True)
            full = np.asarray(local[0])[st.perm]
            for x in local[1:]:
                full = np.multiply.outer(full, np.asarray(x)[st.perm])
            # total charge of each basis state
            q = st.leg.to_qflat()[:, 0] * st.leg.qconj
            tot = np.zeros([st.dim] * L, dtype=int)
            for ax in range(L):
                shp = [1] * L
                shp[ax] = st.dim
                tot = tot + q.reshape(shp)
            sector = int(rng.choice(np.unique(tot)))
            exp = full * (tot == sector)
            inp = {'site': sname, 'L': L, 'sector': sector}
            rec.begin(f'C07 project_onto_charge_sector {inp}')
            rec.case(('project', sname, L), True)
            if np.linalg.norm(exp) < 1e-10:
                continue
            exp = exp / np.linalg.norm(exp)
            ok, psi = rec.guarded('project_onto_charge_sector:exception', lambda: MPS.project_onto_charge_sector(sites, local, [sector]), inp)
            if not ok:
                continue
            d = mpsgen.dense_state(psi)
            ov = abs(np.vdot(exp.ravel(), d.ravel()))
            rec.check(abs(ov - 1) < 1e-9 and abs(np.linalg.norm(d) - 1) < 1e-9, 'project_onto_charge_sector:state', f'|overlap| {ov}, norm {np.linalg.norm(d)}', inp)
            rec.check(np.max(np.abs(psi.norm_test())) < 1e-8, 'project_onto_charge_sector:norm_test', '', inp)


def infinite(rec, rng, quick):
    """infinite MPS with small unit cells: canonicalisation keeps local expectation values (window comparison)"""
    from tenpy.networks.mps import MPS
    from tenpy.models.xxz_chain import XXZChain
    from tenpy.algorithms import tebd
    for L in ([2] if quick else [2, 3]):
        rec.begin(f'C07 infinite L={L}')
        M = XXZChain({'L': L, 'Jxx': 1., 'Jz': 0.5, 'hz': 0.1, 'bc_MPS': 'infinite'})
        psi = MPS.from_product_state(M.lat.mps_sites(), (['up', 'down'] * L)[:L], 'infinite')
        eng = tebd.TEBDEngine(psi, M, {'dt': 0.1, 'N_steps': 5, 'order': 2, 'trunc_params': {'chi_max': 8, 'svd_min': 1e-10}})
        eng.run()
        ref = psi.expectation_value('Sz')
        ref2 = psi.correlation_function('Sp', 'Sm', [0], [1, 2, 3])
        for method in ('canonical_form_infinite1', 'canonical_form_infinite2'):
            for form in ('A', 'B', 'C'):
                p = psi.copy()
                p.convert_form(form)
                # scramble with a gauge on bond 0
                ok, _ = rec.guarded(f'{method}:exception', lambda: getattr(p, method)(), {'L': L, 'form': form})
                rec.case(('infinite', L, method, form), True)
                if ok:
                    rec.check(np.allclose(p.expectation_value('Sz'), ref, atol=1e-7) and
                              np.allclose(p.correlation_function('Sp', 'Sm', [0], [1, 2, 3]), ref2, atol=1e-7),
                              f'{method}:observables-changed', f'form {form}', {'L': L})
                    rec.check(np.max(np.abs(p.norm_test())) < 1e-6, f'{method}:norm_test', str(p.norm_test()), {'L': L, 'form': form})


def segment_boundaries_accumulate(rec, rng, quick):
    """segments with several states per boundary (no charges / parity only), general non-unitary one-site operators applied one after
    the other - each application canonicalises the segment again: U_L theta V_R * norm, with the accumulated `segment_boundaries`, is
    the product of the operators applied to the original segment wave function"""
    import tenpy.linalg.np_conserved as npc
    from tenpy.networks.mps import MPS
    from tenpy.networks.site import SpinHalfSite

    def full(seg):
        th = seg.get_theta(0, seg.L)
        U, V = seg.segment_boundaries
        if U is not None:
            th = npc.tensordot(npc.tensordot(U, th, axes=['vR', 'vL']), V, axes=['vR', 'vL'])
        return th.itranspose(['vL'] + [f'p{i}' for i in range(seg.L)] + ['vR']).to_ndarray() * seg.norm
    for conserve in (None, 'parity'):
        for dtype in (float, complex):
            for rep in range(1 if quick else 4):
                L = 7
                site = SpinHalfSite(conserve=conserve)
                vec = rng.normal(size=[2] * L) + (1.j * rng.normal(size=[2] * L) if dtype is complex else 0.)
                if conserve == 'parity':       # keep one parity sector
                    idx = np.indices([2] * L).sum(axis=0) % 2
                    vec = np.where(idx == 0, vec, 0.)
                vec = vec / np.linalg.norm(vec)
                arr = npc.Array.from_ndarray(vec, [site.leg] * L, dtype=np.dtype(dtype) if dtype is complex else None, labels=[f'p{i}' for i in range(L)])
                big = MPS.from_full([site] * L, arr, form='B')
                for first, last in ((2, 4), (1, 5)):
                    seg = big.extract_segment(first, last)
                    n = seg.L
                    dense = full(seg)
                    applied = []
                    for k in range(3):
                        i = [n - 1, 0, n - 2][k]
                        if conserve is None:
                            m = np.eye(2) + 0.7 * rng.normal(size=(2, 2)) + (0.7j * rng.normal(size=(2, 2)) if dtype is complex else 0.)
                        else:
                            m = np.diag(1. + 0.7 * rng.normal(size=2))       # parity-conserving
                        op = npc.Array.from_ndarray(m, [site.leg, site.leg.conj()], labels=['p', 'p*'])
                        applied.append((i, np.round(m, 3).tolist()))
                        inp = {'conserve': conserve, 'dtype': dtype.__name__, 'segment': [first, last], 'ops': str(applied)}
                        rec.begin(f'C07 segment boundaries accumulate {inp}')
                        rec.case(('segment-accumulate', conserve, dtype.__name__, rep, first, k), True)
                        ok, _ = rec.guarded('segment.apply_local_op(general):exception', lambda: seg.apply_local_op(i, op, unitary=False, renormalize=False), inp)
                        if not ok:
                            break
                        dense = np.moveaxis(np.tensordot(m, dense, axes=[1, 1 + i]), 0, 1 + i)
                        got = full(seg)
                        rec.check(np.max(np.abs(got - dense)) < 1e-9 * (1 + np.max(np.abs(dense))), 'segment.apply_local_op(general):state-with-boundaries',
                                  f'after {k + 1} operator(s): max deviation {np.max(np.abs(got - dense))}', inp)
                        rec.check(np.max(np.abs(seg.norm_test())) < 1e-8, 'segment.apply_local_op(general):norm_test', '', inp)
