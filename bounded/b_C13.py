"""Bounded stand-in for C13: run() postconditions of DMRG / VUMPS on small systems against exact diagonalisation."""
import warnings

import numpy as np


def models(quick):
    from tenpy.models.xxz_chain import XXZChain
    from tenpy.models.tf_ising import TFIChain
    from tenpy.models.fermions_spinless import FermionChain
    from tenpy.models.spins import SpinChain
    out = []
    Ls = [4, 6] if quick else [3, 4, 6, 8]
    for L in Ls:
        out.append((f'XXZ(L={L})', lambda L=L: XXZChain({'L': L, 'Jxx': 1., 'Jz': 1.3, 'hz': 0.05, 'bc_MPS': 'finite'}), ['up', 'down']))
        out.append((f'TFI(L={L})', lambda L=L: TFIChain({'L': L, 'J': 1., 'g': 0.8, 'bc_MPS': 'finite', 'conserve': 'parity'}), ['up', 'up']))
        if L == Ls[0] or not quick:
            # complex couplings (Peierls phase): complex effective Hamiltonians on a real initial state
            out.append((f'Fermion-complex-hopping(L={L})', lambda L=L: FermionChain({'L': L, 'J': np.exp(0.4j), 'V': 0.7, 'mu': 0.1, 'bc_MPS': 'finite'}),
                        ['full', 'empty']))
        if not quick:
            out.append((f'Fermion(L={L})', lambda L=L: FermionChain({'L': L, 'J': 1., 'V': 0.7, 'mu': 0.1, 'bc_MPS': 'finite'}), ['full', 'empty']))
            out.append((f'S1-Heisenberg(L={L})', lambda L=L: SpinChain({'L': L, 'S': 1., 'Jx': 1., 'Jy': 1., 'Jz': 1., 'bc_MPS': 'finite', 'conserve': 'Sz'}), ['up', 'down']))
    return out


def exact_in_sector(M, psi0):
    from tenpy.algorithms.exact_diag import ExactDiag
    q = psi0.get_total_charge(True)
    # (max_size: the default limit refers to the full Hilbert space and silently skips building H - the sector is much smaller)
    ed = ExactDiag(M, charge_sector=q if M.lat.unit_cell[0].leg.chinfo.qnumber > 0 else None, max_size=5.e8)
    ed.build_full_H_from_mpo()
    ed.full_diagonalization()
    E0, v0 = ed.groundstate()
    return E0, ed.full_to_mps(v0), ed


def run(rec):
    warnings.simplefilter('ignore')
    from tenpy.networks.mps import MPS
    from tenpy.algorithms import dmrg
    rng = np.random.default_rng(rec.seed + 13)
    quick = rec.tier == 'quick'
    engines = [('TwoSiteDMRGEngine', dmrg.TwoSiteDMRGEngine), ('SingleSiteDMRGEngine', dmrg.SingleSiteDMRGEngine)]
    mixers = [None, True, 'DensityMatrixMixer', 'SubspaceExpansion'] if not quick else [True, None]
    diag = ['default', 'lanczos', 'ED_block'] if not quick else ['default']
    rec.rule = ('model x initial product state x engine (two-site, single-site) x mixer (off, default, DensityMatrixMixer, SubspaceExpansion) x '
                'diag_method x chi_max in {unbounded, 4}: returned state normalised, canonical (norm_test), in the charge sector of the initial '
                'state; reported E equals <psi|H|psi> within the truncation; E >= exact ground-state energy of the sector; untruncated two-site '
                'DMRG with mixer reaches the exact energy and state; VUMPS on an infinite chain: energy per site against a large finite DMRG; '
                'non-trivial = system with >= 4 sites')
    rec.bounds = {'L': '3-8', 'engines': [e[0] for e in engines]}
    for mname, mk, pstate in models(quick):
        M = mk()
        L = M.lat.N_sites
        psi_init = MPS.from_product_state(M.lat.mps_sites(), (pstate * L)[:L], 'finite')
        E_exact, psi_exact, ed = exact_in_sector(M, psi_init)
        for ename, Eng in engines:
            for mixer in mixers:
                if ename == 'SingleSiteDMRGEngine' and mixer is None:
                    continue   # single-site without mixer cannot grow the bond dimension (documented)
                for dm in diag:
                    for chi in (100, 4):
                        opts = {'trunc_params': {'chi_max': chi, 'svd_min': 1e-12}, 'mixer': mixer, 'max_sweeps': 30, 'min_sweeps': 4,
                                'max_E_err': 1e-12, 'max_S_err': 1e-10, 'diag_method': dm, 'max_trunc_err': None,
                                'mixer_params': {'amplitude': 1e-3, 'decay': 2., 'disable_after': 10}}
                        inp = {'model': mname, 'engine': ename, 'mixer': str(mixer), 'diag_method': dm, 'chi_max': chi}
                        psi = psi_init.copy()
                        rec.begin(f'C13 {inp}')
                        holder = {}

                        def run_engine():
                            holder['eng'] = Eng(psi, M, opts)
                            return holder['eng'].run()
                        ok, res = rec.guarded(f'{ename}:exception', run_engine, inp)
                        rec.case((mname, ename, str(mixer), dm, chi), L >= 4, sample=inp if chi == 100 and mixer is True and dm == 'default' else None)
                        if not ok:
                            continue
                        E, psi_out = res
                        rec.check(abs(psi_out.norm - 1) < 1e-10, f'{ename}:norm', str(psi_out.norm), inp)
                        rec.check(np.max(np.abs(psi_out.norm_test())) < 1e-8, f'{ename}:not-canonical', str(np.max(np.abs(psi_out.norm_test()))), inp)
                        rec.check(np.array_equal(psi_out.get_total_charge(True), psi_init.get_total_charge(True)), f'{ename}:charge-sector',
                                  f'{psi_out.get_total_charge(True)} vs {psi_init.get_total_charge(True)}', inp)
                        EH = M.H_MPO.expectation_value(psi_out)
                        # "agrees with the expectation value ... up to the reported truncation": the engine reports the largest energy change
                        # caused by a truncation in the last sweep (sweep_stats['max_E_trunc']); E is taken before, <H> after the truncation
                        E_trunc = abs(float(holder['eng'].sweep_stats['max_E_trunc'][-1])) if holder['eng'].sweep_stats['max_E_trunc'] else 0.
                        tolE = 1e-8 if chi == 100 else max(1e-5, 2. * E_trunc)
                        rec.check(abs(E - EH) < tolE, f'{ename}:E-not-expectation-value', f'E={E}, <H>={EH}, reported max_E_trunc {E_trunc}', inp)
                        rec.check(EH >= E_exact - 1e-9, f'{ename}:E-below-exact', f'<H>={EH} < exact {E_exact}', inp)
                        if chi == 100 and ename == 'TwoSiteDMRGEngine' and mixer is not None:
                            rec.check(abs(E - E_exact) < 1e-8, f'{ename}:not-exact-untruncated', f'E={E}, exact {E_exact}', inp)
                            ov = abs(psi_out.overlap(psi_exact))
                            gap_ok = ed.E[1] - ed.E[0] > 1e-6 if len(ed.E) > 1 else True
                            rec.check(ov > 1 - 1e-6 or not gap_ok, f'{ename}:state-not-exact', f'|<exact|psi>| = {ov}', inp)
    mixer_schedule(rec, quick)
    lanczos_options(rec, quick)
    vumps_check(rec, quick)


def mixer_schedule(rec, quick):
    """every (disable_after, number of sweeps) relation: the mixer may be switched off before, in, or after the last sweep;
    the returned state must be canonical with 1D Schmidt values on every bond in all of them"""
    from tenpy.networks.mps import MPS
    from tenpy.algorithms import dmrg
    from tenpy.models.xxz_chain import XXZChain
    for bc, L in (('finite', 6), ('infinite', 2)):
        M = XXZChain({'L': L, 'Jxx': 1., 'Jz': 1.3, 'hz': 0.05, 'bc_MPS': bc})
        psi0 = MPS.from_product_state(M.lat.mps_sites(), (['up', 'down'] * L)[:L], bc)
        for ename, Eng in (('TwoSiteDMRGEngine', dmrg.TwoSiteDMRGEngine), ('SingleSiteDMRGEngine', dmrg.SingleSiteDMRGEngine)):
            for mixer in (['DensityMatrixMixer'] if quick else ['DensityMatrixMixer', 'SubspaceExpansion']):
                for disable_after in ((2, 4) if quick else (1, 2, 3, 4, 6)):
                    for n_sweeps, chi_max in [(n_, c_) for n_ in range(max(1, disable_after - 2), disable_after + 3) for c_ in ((16, 3) if bc == 'finite' else (16,))]:
                        # chi_max=3: the bond dimension is really truncated (also while the mixer is still switched on)
                        opts = {'trunc_params': {'chi_max': chi_max, 'svd_min': 1e-12}, 'mixer': mixer, 'max_sweeps': n_sweeps, 'min_sweeps': n_sweeps,
                                'N_sweeps_check': 1, 'max_trunc_err': None, 'update_env': 0,
                                'mixer_params': {'amplitude': 1e-3, 'decay': 2., 'disable_after': disable_after}}
                        inp = {'bc': bc, 'engine': ename, 'mixer': mixer, 'disable_after': disable_after, 'sweeps': n_sweeps, 'chi_max': chi_max}
                        psi = psi0.copy()
                        rec.begin(f'C13 mixer schedule {inp}')
                        ok, res = rec.guarded(f'{ename}[mixer-schedule]:exception', lambda: Eng(psi, M, opts).run(), inp)
                        rec.case(('mixer-schedule', bc, ename, mixer, disable_after, n_sweeps, chi_max), True)
                        if not ok:
                            continue
                        E, out = res
                        bad = [i for i in range(out.L + 1 if out.finite else out.L) if np.ndim(out.get_SL(i) if i < out.L else out.get_SR(out.L - 1)) != 1]
                        rec.check(not bad, f'{ename}:S-not-1D-after-run', f'bonds {bad} hold a 2D matrix instead of Schmidt values', inp)
                        if bad:
                            continue
                        tag = '' if bc == 'finite' else ('[infinite,mixer-active-at-end]' if n_sweeps < disable_after else '[infinite]')
                        # DMRGEngine documents: after the run the state is brought to canonical form up to norm_tol_final (1e-10) /
                        # norm_tol (1e-5), "even if DMRG cannot fully converge"
                        rec.check(np.max(np.abs(out.norm_test())) < 2e-5, f'{ename}:not-canonical{tag}', str(np.max(np.abs(out.norm_test()))), inp)
                        ok2, ee = rec.guarded(f'{ename}:entanglement_entropy-after-run', lambda: out.entanglement_entropy(), inp)
                        if bc == 'finite':
                            # "the returned state is normalized": Schmidt values of norm one on every bond, <psi|psi> = 1
                            dev = max(abs(np.linalg.norm(out.get_SL(i)) - 1.) for i in range(1, out.L))
                            rec.check(dev < 1e-9, f'{ename}:schmidt-values-not-normalized', f'max | |S| - 1 | = {dev}', inp)
                            nn = abs(out.overlap(out)) * out.norm ** 2
                            rec.check(abs(nn - 1.) < 1e-9, f'{ename}:state-not-normalized', f'<psi|psi> = {nn}', inp)
                        if bc == 'finite' and chi_max == 16:
                            # (the energy of an unconverged infinite run is an estimate per sweep, not an expectation value)
                            EH = M.H_MPO.expectation_value(out)
                            rec.check(abs(E - EH) < 1e-5, f'{ename}:E-not-expectation-value', f'E={E}, <H>={EH}', inp)


def lanczos_options(rec, quick):
    """eigensolver options: Lanczos with an energy shift, also where the Krylov space is one-dimensional (charge sector of a fully
    polarised state, converged runs); models with explicit_plus_hc; the reported energy is <psi|H|psi>"""
    from tenpy.networks.mps import MPS
    from tenpy.algorithms import dmrg
    from tenpy.models.xxz_chain import XXZChain
    from tenpy.models.spins import SpinChain
    cases = [('XXZ(L=4)', lambda hc: XXZChain({'L': 4, 'Jxx': 1., 'Jz': 1.3, 'hz': 0.05, 'bc_MPS': 'finite', 'explicit_plus_hc': hc}), ['up', 'down']),
             ('XXZ(L=4) polarised', lambda hc: XXZChain({'L': 4, 'Jxx': 1., 'Jz': 1.3, 'hz': 0.05, 'bc_MPS': 'finite', 'explicit_plus_hc': hc}), ['up', 'up']),
             ('S1(L=4)', lambda hc: SpinChain({'L': 4, 'S': 1., 'Jx': 1., 'Jy': 1., 'Jz': 0.7, 'bc_MPS': 'finite', 'conserve': 'Sz', 'explicit_plus_hc': hc}), ['up', 'down'])]
    for mname, mk, pstate in cases:
        for hc in (False, True):
            M = mk(hc)
            L = M.lat.N_sites
            psi_init = MPS.from_product_state(M.lat.mps_sites(), (pstate * L)[:L], 'finite')
            for ename, Eng in (('TwoSiteDMRGEngine', dmrg.TwoSiteDMRGEngine), ('SingleSiteDMRGEngine', dmrg.SingleSiteDMRGEngine)):
                for mixer in ((True,) if quick else (True, 'SubspaceExpansion', None)):
                    if ename == 'SingleSiteDMRGEngine' and mixer is None:
                        continue
                    for shift in (None, -7.5):
                        opts = {'trunc_params': {'chi_max': 50, 'svd_min': 1e-12}, 'mixer': mixer, 'max_sweeps': 12, 'min_sweeps': 3,
                                'diag_method': 'lanczos', 'lanczos_params': {'E_shift': shift, 'N_min': 2, 'N_max': 30}, 'max_trunc_err': None,
                                'mixer_params': {'amplitude': 1e-3, 'decay': 2., 'disable_after': 2}}
                        inp = {'model': mname, 'explicit_plus_hc': hc, 'engine': ename, 'mixer': str(mixer), 'E_shift': shift}
                        psi = psi_init.copy()
                        rec.begin(f'C13 lanczos options {inp}')
                        ok, res = rec.guarded(f'{ename}[explicit_plus_hc={hc},mixer={mixer}]:exception', lambda: Eng(psi, M, opts).run(), inp)
                        rec.case(('lanczos', mname, hc, ename, str(mixer), shift), True)
                        if not ok:
                            continue
                        E, out = res
                        EH = M.H_MPO.expectation_value(out)
                        rec.check(abs(E - EH) < 1e-8, f'{ename}:E-not-expectation-value[lanczos,E_shift={"set" if shift else None}]', f'E={E}, <H>={EH}', inp)
                        rec.check(abs(out.norm - 1) < 1e-10 and np.max(np.abs(out.norm_test())) < 1e-8, f'{ename}:not-canonical', '', inp)


def vumps_check(rec, quick):
    from tenpy.networks.mps import MPS
    from tenpy.models.tf_ising import TFIChain
    from tenpy.models.xxz_chain import XXZChain
    from tenpy.algorithms import vumps
    import scipy.integrate
    g = 1.5
    # exact energy per site of the infinite transverse-field Ising chain  H = -J sum sx sx - g sum sz
    f = lambda k: -np.sqrt(1 + g ** 2 - 2 * g * np.cos(k)) / np.pi
    e_exact = scipy.integrate.quad(f, 0, np.pi)[0]
    cases = []
    for ename in ('SingleSiteVUMPSEngine', 'TwoSiteVUMPSEngine'):
        for Luc in ([2] if quick else [1, 2, 3]):
            if ename == 'TwoSiteVUMPSEngine' and Luc < 2:
                continue
            for hc in (False, True):          # explicit_plus_hc: the effective Hamiltonians are wrapped as H + H^dagger
                if hc and Luc != 2:
                    continue
                cases.append((ename, Luc, hc, f'TFI g={g}',
                              lambda Luc=Luc, hc=hc: TFIChain({'L': Luc, 'J': 1., 'g': g, 'bc_MPS': 'infinite', 'conserve': None, 'explicit_plus_hc': hc}), e_exact))
    cases.append(('TwoSiteVUMPSEngine', 2, True, 'XXZ Jz=0.5 (explicit_plus_hc)',
                  lambda: XXZChain({'L': 2, 'Jxx': 1., 'Jz': 0.5, 'hz': 0., 'bc_MPS': 'infinite', 'conserve': None, 'explicit_plus_hc': True}), None))
    for ename, Luc, hc, mname, mk, e_ref in cases:
        Eng = getattr(vumps, ename)
        M = mk()
        psi = MPS.from_desired_bond_dimension(M.lat.mps_sites(), 8, bc='infinite')
        opts = {'trunc_params': {'chi_max': 16, 'svd_min': 1e-10}, 'max_sweeps': 60, 'min_sweeps': 5, 'mixer': False}
        inp = {'engine': ename, 'unit_cell': Luc, 'model': mname, 'explicit_plus_hc': hc}
        rec.begin(f'C13 {inp}')
        ok, res = rec.guarded(f'{ename}:exception', lambda: Eng(psi, M, opts).run(), inp)
        rec.case(('vumps', ename, Luc, hc, mname), True)
        if not ok:
            continue
        E, psi_out = res
        if e_ref is not None:
            rec.check(abs(E - e_ref) < 1e-5, f'{ename}:energy-per-site', f'E={E}, exact {e_ref}', inp)
            rec.check(E >= e_ref - 1e-7, f'{ename}:E-below-exact', f'E={E} < exact {e_ref}', inp)
        EH = np.mean(M.bond_energies(psi_out))
        rec.check(abs(E - EH) < 1e-6, f'{ename}:E-not-expectation-value', f'E={E}, <H>/site={EH}', inp)
        rec.check(np.max(np.abs(psi_out.norm_test())) < 1e-6, f'{ename}:not-canonical', str(np.max(np.abs(psi_out.norm_test()))), inp)
