"""Generators of real MPS and dense oracles (state vectors, operators with Jordan-Wigner strings)."""
import numpy as np


def site_families():
    from tenpy.networks import site as S
    fams = []
    for cons in ['Sz', 'parity', 'None']:
        fams.append((f'SpinHalf[{cons}]', lambda c=cons: S.SpinHalfSite(conserve=c, sort_charge=True)))
    for cons in ['N', 'parity', 'None']:
        fams.append((f'Fermion[{cons}]', lambda c=cons: S.FermionSite(conserve=c)))
    fams.append(('Boson[N,Nmax=2]', lambda: S.BosonSite(Nmax=2, conserve='N')))
    fams.append(('Spin1[Sz]', lambda: S.SpinSite(S=1.0, conserve='Sz', sort_charge=True)))
    fams.append(('SpinHalfFermion[N,Sz]', lambda: S.SpinHalfFermionSite(cons_N='N', cons_Sz='Sz')))
    # sort_charge permutation [0, 3, 1, 2]: not an involution (perm and its inverse must not be mixed up)
    fams.append(('SpinHalfFermion[parity]', lambda: S.SpinHalfFermionSite(cons_N='parity', cons_Sz=None)))

    # heterogeneous chains (sites of different type and dimension next to each other)
    def mixed_FS(L):
        f, s = S.FermionSite('N'), S.SpinHalfSite('Sz', sort_charge=True)
        S.set_common_charges([f, s], 'independent')
        return [f, s] * (L // 2) + [f] * (L % 2)
    mixed_FS.takes_L = True

    def mixed_SFB(L):
        f, s, b = S.FermionSite('parity'), S.SpinSite(1.0, 'parity', sort_charge=True), S.BosonSite(2, 'parity')
        S.set_common_charges([s, f, b], 'independent')
        return ([s, f, b] * L)[:L]
    mixed_SFB.takes_L = True
    fams.append(('mixed[Fermion(N),SpinHalf(Sz)]', mixed_FS))
    fams.append(('mixed[Spin1,Fermion,Boson | parity]', mixed_SFB))
    return fams


def make_sites(fam, L):
    return fam(L) if getattr(fam, 'takes_L', False) else [fam() for _ in range(L)]


def dense_state(psi):
    """amplitudes of a finite MPS as array of shape (d_0, ..., d_{L-1}), including psi.norm"""
    theta = psi.get_theta(0, psi.L)
    labels = ['vL'] + [f'p{i}' for i in range(psi.L)] + ['vR']
    theta = theta.transpose(labels)
    d = theta.to_ndarray()
    assert d.shape[0] == 1 and d.shape[-1] == 1
    return d.reshape(d.shape[1:-1]) * psi.norm


def random_state_vector(rng, sites, charge_sector=None, complex_=True):
    """random dense state in one charge sector (so that it can be represented by a charge-conserving MPS)"""
    dims = [s.dim for s in sites]
    v = rng.standard_normal(dims) + (1.j * rng.standard_normal(dims) if complex_ else 0)
    chinfo = sites[0].leg.chinfo
    if chinfo.qnumber > 0:
        qs = [s.leg.to_qflat() for s in sites]
        tot = np.zeros(dims + [chinfo.qnumber], dtype=int)
        for ax, q in enumerate(qs):
            shp = [1] * len(dims) + [chinfo.qnumber]
            shp[ax] = dims[ax]
            tot = tot + q.reshape(shp)
        tot = chinfo.make_valid(tot.reshape(-1, chinfo.qnumber)).reshape(dims + [chinfo.qnumber])
        if charge_sector is None:
            # take the sector of a random basis state
            idx = tuple(rng.integers(0, d) for d in dims)
            charge_sector = tot[idx]
        mask = np.all(tot == np.asarray(charge_sector), axis=-1)
        v = v * mask
    v = v / np.linalg.norm(v)
    return v


def random_mps(rng, fam, L, bc='finite', chi_cut=None):
    """finite MPS from a random dense state of one charge sector (exact, via from_full)."""
    from tenpy.networks.mps import MPS
    import tenpy.linalg.np_conserved as npc
    sites = make_sites(fam, L)
    v = random_state_vector(rng, sites)
    legs = [s.leg for s in sites]
    labels = [f'p{i}' for i in range(L)]
    a = npc.Array.from_ndarray(v, legs, cutoff=0., labels=labels, qtotal=None, raise_wrong_sector=True) \
        if False else npc.Array.from_ndarray(v, legs, labels=labels, qtotal=npc.detect_qtotal(v, legs))
    psi = MPS.from_full(sites, a, form='B', cutoff=1e-14, normalize=False, bc=bc)
    return psi, v


def op_dense(sites, terms):
    """dense matrix of the operator product  op_1(i_1) op_2(i_2) ...  (in this order), with Jordan-Wigner strings:
    an operator that needs a JW string at site i is represented as (prod_{k<i} JW_k) op_i."""
    L = len(sites)
    dims = [s.dim for s in sites]
    D = int(np.prod(dims))
    res = np.eye(D, dtype=complex)
    for name, i in terms:
        s = sites[i]
        needs = s.op_needs_JW(name)
        mats = []
        for k in range(L):
            if k < i and needs:
                mats.append(sites[k].get_op('JW').to_ndarray())
            elif k == i:
                mats.append(s.get_op(name).to_ndarray())
            else:
                mats.append(np.eye(dims[k]))
        m = mats[0]
        for x in mats[1:]:
            m = np.kron(m, x)
        res = res @ m
    return res


def expect_dense(v, sites, terms, bra=None):
    vv = v.reshape(-1)
    bb = vv if bra is None else bra.reshape(-1)
    return np.vdot(bb, op_dense(sites, terms) @ vv)


def schmidt_values(v, cut):
    dims = v.shape
    m = v.reshape(int(np.prod(dims[:cut])), -1)
    s = np.linalg.svd(m, compute_uv=False)
    return s[s > 1e-13]
