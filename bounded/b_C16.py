"""Bounded stand-in for C16: Krylov solvers against dense eigensolvers / expm on block-sparse operators
of dimension 1-40 with charge structure, all option values."""
import warnings

import numpy as np

from . import gen


def herm_op(rng, chinfo, n_blocks, dtype=np.complex128, degenerate=False):
    import tenpy.linalg.np_conserved as npc
    leg = gen.random_leg(rng, chinfo, nblocks=n_blocks, max_size=5, qconj=1, kind='sorted-blocked')
    def f(shape):
        x = rng.standard_normal(shape) + 1.j * rng.standard_normal(shape)
        return x
    H = npc.Array.from_func_square(lambda s: (lambda m: (m + m.conj().T) / 2)(f(s)) if len(s) == 2 and s[0] == s[1] else f(s), leg, dtype=dtype)
    H = (H + H.conj().transpose()) * 0.5
    H.iset_leg_labels(['p', 'p*'])
    return H, leg


def start_vector(rng, H, leg):
    import tenpy.linalg.np_conserved as npc
    Hd = H.to_ndarray()
    E, V = np.linalg.eigh(Hd)
    # pick the sector of a random eigenvector
    k = int(rng.integers(0, len(E)))
    qtotal = npc.detect_qtotal(V[:, k], [leg])
    psi = npc.Array.from_func(lambda s: rng.standard_normal(s) + 1.j * rng.standard_normal(s), [leg], dtype=complex, qtotal=qtotal, labels=['p'])
    mask = np.abs(psi.to_ndarray()) > 0   # support of the sector
    return psi, mask, Hd


def run(rec):
    warnings.simplefilter('ignore')
    from tenpy.linalg import krylov_based as kb
    from tenpy.linalg.sparse import ShiftNpcLinearOperator, OrthogonalNpcLinearOperator, SumNpcLinearOperator
    import tenpy.linalg.np_conserved as npc
    import scipy.linalg
    rng = np.random.default_rng(rec.seed + 16)
    quick = rec.tier == 'quick'
    n_ops = 8 if quick else 60
    rec.rule = ('random Hermitian (and general) block-sparse operators with charge structure, dimension 1-25 per case, random start vector in '
                'one charge sector; LanczosGroundState for N_cache in {2,3,N_max} x reortho x E_shift x N_max >= sector dimension: normalized '
                'vector, E0 = Rayleigh quotient >= smallest eigenvalue of the sector, == it at full Krylov dimension, independent of N_cache; '
                'orthogonal projection; LanczosEvolution/ArnoldiEvolution vs expm (norm preserved for anti-Hermitian exponent); Arnoldi Ritz '
                'pairs ordered by `which`; gram_schmidt orthonormal; GMRES residual; non-trivial = sector dimension >= 3')
    rec.bounds = {'operators_per_chinfo': n_ops, 'dim': '1-25'}
    for chinfo in gen.chinfos()[:6]:
        for k in range(n_ops):
            H, leg = herm_op(rng, chinfo, int(rng.integers(1, 5)))
            psi0, mask, Hd = start_vector(rng, H, leg)
            dim_sec = int(mask.sum())
            if dim_sec == 0:
                continue
            Hs = Hd[np.ix_(mask, mask)]
            Es = np.linalg.eigvalsh(Hs)
            inp = {'mod': chinfo.mod.tolist(), 'leg': (leg.slices.tolist(), leg.charges.tolist()), 'sector_dim': dim_sec, 'seed': rec.seed, 'k': k}
            rec.case((chinfo.mod.tobytes(), k), dim_sec >= 3, sample=inp if k == 0 else None)
            results = {}
            for N_cache in (2, 3, dim_sec + 2):
                for reortho in (False, True):
                    for E_shift in (None, -3.0):
                        opts = {'N_cache': N_cache, 'reortho': reortho, 'E_shift': E_shift, 'N_min': 2, 'N_max': dim_sec + 2, 'P_tol': 1e-14,
                                'E_tol': 0., 'min_gap': 1e-13, 'cutoff': 1e-13}
                        sig = f'LanczosGroundState'
                        rec.begin(f'C16 lanczos {inp} {opts}')
                        ok, res = rec.guarded(sig + ':exception', lambda: kb.LanczosGroundState(H, psi0.copy(), dict(opts)).run(), dict(inp, options=opts))
                        if not ok:
                            continue
                        E0, v, N = res
                        vd = v.to_ndarray()
                        rq = np.real(np.vdot(vd, Hd @ vd))
                        rec.check(abs(np.linalg.norm(vd) - 1) < 1e-10, sig + ':not-normalized', str(np.linalg.norm(vd)), dict(inp, options=opts))
                        rec.check(abs(rq - E0) < 1e-8 * (1 + abs(E0)), sig + ':E0-not-rayleigh-quotient', f'E0={E0} <v|H|v>={rq}', dict(inp, options=opts))
                        rec.check(E0 >= Es[0] - 1e-9, sig + ':E0-below-spectrum', f'E0={E0} < min eig {Es[0]}', dict(inp, options=opts))
                        if N >= dim_sec:
                            rec.check(abs(E0 - Es[0]) < 1e-8, sig + ':not-exact-at-full-dimension', f'E0={E0} vs {Es[0]} (N={N}, dim={dim_sec})', dict(inp, options=opts))
                        results[(N_cache, reortho, E_shift)] = (E0, vd)
            # independent of N_cache (same reortho, shift)
            for reortho in (False, True):
                for E_shift in (None, -3.0):
                    ref = results.get((dim_sec + 2, reortho, E_shift))
                    for Nc in (2, 3):
                        r = results.get((Nc, reortho, E_shift))
                        if ref is not None and r is not None:
                            ov = abs(np.vdot(ref[1], r[1]))
                            gap_ok = dim_sec < 2 or Es[1] - Es[0] > 1e-6
                            rec.check(abs(ref[0] - r[0]) < 1e-8 and (ov > 1 - 1e-6 or not gap_ok), 'LanczosGroundState:depends-on-N_cache',
                                      f'N_cache={Nc}: E0 {r[0]} vs {ref[0]}, overlap {ov}', dict(inp, reortho=reortho, E_shift=E_shift))
            # orthogonal complement: second eigenvector
            if dim_sec >= 3 and Es[1] - Es[0] > 1e-3 and Es[2] - Es[1] > 1e-3:
                ref = results.get((dim_sec + 2, True, None))
                if ref is not None:
                    v0 = npc.Array.from_ndarray(ref[1], [leg], qtotal=psi0.qtotal, labels=['p'], cutoff=0.) if False else None
                    E0, vv, N = kb.LanczosGroundState(H, psi0.copy(), {'N_max': dim_sec + 2, 'N_min': 2, 'reortho': True, 'P_tol': 1e-14, 'E_tol': 0.}).run()
                    # shift the spectrum below zero so that the projected-out direction (eigenvalue 0 of P H P) is not the minimum
                    sft = -(Es[-1] + 1.0)
                    Hop = OrthogonalNpcLinearOperator(ShiftNpcLinearOperator(H, sft), [vv])
                    ok, res = rec.guarded('OrthogonalNpcLinearOperator+Lanczos:exception',
                                          lambda: kb.LanczosGroundState(Hop, psi0.copy(), {'N_max': dim_sec + 2, 'N_min': 2, 'reortho': True, 'P_tol': 1e-14, 'E_tol': 0.}).run(), inp)
                    if ok:
                        rec.check(abs(res[0] - (Es[1] + sft)) < 1e-6, 'OrthogonalNpcLinearOperator:second-eigenvalue', f'{res[0]} vs {Es[1] + sft}', inp)
            # shift operator
            sh = ShiftNpcLinearOperator(H, 2.5)
            w = sh.matvec(psi0)
            rec.check(np.allclose(w.to_ndarray(), Hd @ psi0.to_ndarray() + 2.5 * psi0.to_ndarray()), 'ShiftNpcLinearOperator:matvec', '', inp)
            sm = SumNpcLinearOperator(H, H)
            rec.check(np.allclose(sm.matvec(psi0).to_ndarray(), 2 * Hd @ psi0.to_ndarray()), 'SumNpcLinearOperator:matvec', '', inp)
            # evolution
            for delta in (-0.3j, -0.2, 0.1 - 0.2j):
                pn = psi0 / npc.norm(psi0)
                exp = scipy.linalg.expm(delta * Hd) @ pn.to_ndarray()
                for cls, name in ((kb.LanczosEvolution, 'LanczosEvolution'), (kb.ArnoldiEvolution, 'ArnoldiEvolution')):
                    rec.begin(f'C16 {name} delta={delta} {inp}')
                    ok, res = rec.guarded(f'{name}:exception',
                                          lambda: cls(H, pn.copy(), {'N_max': dim_sec + 2, 'N_min': 2, 'P_tol': 1e-14, 'reortho': True}).run(delta, normalize=False), dict(inp, delta=str(delta)))
                    if ok:
                        out = res[0].to_ndarray()
                        rec.check(np.allclose(out, exp, atol=1e-7), f'{name}:expm', f'delta={delta}: max dev {np.abs(out - exp).max()}', dict(inp, delta=str(delta)))
                        if delta == -0.3j:
                            rec.check(abs(np.linalg.norm(out) - 1) < 1e-8, f'{name}:norm-not-preserved', str(np.linalg.norm(out)), dict(inp, delta=str(delta)))
                    # the `normalize` option and its documented default (Lanczos: np.real(delta) == 0, Arnoldi: False), start vector of norm 1.7
                    for normalize in (None, True):
                        expn = 1.7 * exp
                        if normalize or (normalize is None and name == 'LanczosEvolution' and np.real(delta) == 0):
                            expn = expn / np.linalg.norm(expn)
                        ok, res = rec.guarded(f'{name}:exception',
                                              lambda: cls(H, 1.7 * pn, {'N_max': dim_sec + 2, 'N_min': 2, 'P_tol': 1e-14, 'reortho': True}).run(delta, normalize=normalize),
                                              dict(inp, delta=str(delta), normalize=normalize))
                        if ok:
                            out = res[0].to_ndarray()
                            rec.check(np.allclose(out, expn, atol=1e-7), f'{name}(normalize={normalize}):expm',
                                      f'delta={delta}: |result| = {np.linalg.norm(out)}, expected {np.linalg.norm(expn)}; max dev {np.abs(out - expn).max()}',
                                      dict(inp, delta=str(delta), normalize=normalize))
            # Arnoldi Ritz pairs
            G, legg = herm_op(rng, chinfo, 2)
            Gd = G.to_ndarray()
            psig, maskg, _ = start_vector(rng, G, legg)
            ds = int(maskg.sum())
            if ds >= 2:
                Eg = np.linalg.eigvals(Gd[np.ix_(maskg, maskg)])
                for which in ('LM', 'LR', 'SR'):
                    num_ev = min(2, ds)
                    ok, res = rec.guarded('Arnoldi:exception', lambda: kb.Arnoldi(G, psig.copy(), {'which': which, 'num_ev': num_ev, 'N_max': ds + 2,
                                                                                                  'N_min': max(2, ds), 'P_tol': 1e-14, 'E_tol': 0.}).run(), dict(inp, which=which))
                    if ok:
                        Er, vecs, N = res
                        key = {'LM': lambda e: -abs(e), 'LR': lambda e: -e.real, 'SR': lambda e: e.real}[which]
                        exp = sorted(Eg, key=key)[:num_ev]
                        rec.check(np.allclose(sorted(np.asarray(Er)[:num_ev], key=key), exp, atol=1e-7), 'Arnoldi:ritz-values-order',
                                  f'which={which}: {Er} vs {exp}', dict(inp, which=which))
                        for e, v in zip(np.atleast_1d(Er), vecs):
                            vd = v.to_ndarray()
                            rec.check(np.linalg.norm(Gd @ vd - e * vd) < 1e-6, 'Arnoldi:ritz-pair', f'residual {np.linalg.norm(Gd @ vd - e * vd)}', dict(inp, which=which))
            # gram-schmidt
            vecs = [npc.Array.from_func(lambda s: rng.standard_normal(s), [leg], qtotal=psi0.qtotal, labels=['p']) for _ in range(min(3, dim_sec))]
            ok, res = rec.guarded('gram_schmidt:exception', lambda: kb.gram_schmidt([v.copy() for v in vecs]), inp)
            if ok:
                out = res[0] if isinstance(res, tuple) else res
                M = np.array([[npc.inner(a, b, axes='range', do_conj=True) for b in out] for a in out])
                rec.check(np.allclose(M, np.eye(len(out)), atol=1e-10), 'gram_schmidt:not-orthonormal', '', inp)
            # ... also for nearly linearly dependent input (a, a + 1e-7 d_i): the documented procedure (each overlap taken with the vector
            # from which the earlier components have already been removed) keeps the result orthonormal to ~1e-8; taking all overlaps
            # with the original vector does not (errors ~1e-2)
            if dim_sec >= 6:          # (room for the perturbations: in a sector of dimension ~ number of vectors the problem is ill-conditioned)
                a0 = npc.Array.from_func(lambda s: rng.standard_normal(s), [leg], qtotal=psi0.qtotal, labels=['p'])
                near = [a0] + [a0 + 1e-7 * npc.Array.from_func(lambda s: rng.standard_normal(s), [leg], qtotal=psi0.qtotal, labels=['p']) for _ in range(2)]
                ok, res = rec.guarded('gram_schmidt:exception', lambda: kb.gram_schmidt([v.copy() for v in near], rcond=1e-13), inp)
                if ok:
                    out = res[0] if isinstance(res, tuple) else res
                    M = np.array([[npc.inner(x, y, axes='range', do_conj=True) for y in out] for x in out])
                    rec.check(len(out) >= 2 and np.allclose(M, np.eye(len(out)), atol=1e-5), 'gram_schmidt[nearly dependent]:not-orthonormal',
                              f'{len(out)} vectors, max |G - 1| = {np.abs(M - np.eye(len(out))).max()}', inp)
            # GMRES
            b = npc.Array.from_func(lambda s: rng.standard_normal(s), [leg], qtotal=psi0.qtotal, labels=['p'])
            A = ShiftNpcLinearOperator(H, 10.0)   # well conditioned
            x0 = npc.Array.from_func(lambda s: rng.standard_normal(s), [leg], qtotal=psi0.qtotal, labels=['p'])
            for N_min in (0, 5):
                ok, res = rec.guarded('GMRES:exception', lambda: kb.GMRES(A, x0, b, {'N_max': dim_sec + 2, 'N_min': N_min, 'res': 1e-12}).run(), inp)
                if ok:
                    x, res_norm, err, steps = res
                    r = np.linalg.norm((Hd + 10 * np.eye(len(Hd))) @ x.to_ndarray() - b.to_ndarray()) / np.linalg.norm(b.to_ndarray())
                    good = r < 1e-8 and abs(r - res_norm) < 1e-8 + 1e-3 * r
                    sig = 'GMRES:residual' if (N_min == 0 or dim_sec > N_min + 1) else 'GMRES:residual:N_min>=krylov-dimension'
                    rec.check(good, sig, f'N_min={N_min}, dim={dim_sec}: true rel. residual {r}, reported {res_norm}', dict(inp, N_min=N_min))
