"""Bounded stand-in for C06: exhaustive over the quantifier's small-leg domain (<= 3 blocks, sizes <= 2,
charges in a window, mod in {1,2,3}) for 1-2 incoming legs, sampled for 3-4 legs:
pipe index map is a bijection agreeing with entry placement, outgoing charges obey the fusion rule,
combine o split = id; sort/bunch/project/extend/flip/conj preserve the charge of every surviving index."""
import itertools
import warnings

import numpy as np


def small_legs(mod, max_blocks, max_size, window=(-1, 0, 1)):
    """all legs with <= max_blocks blocks, sizes <= max_size, one charge in the window, modulus `mod`."""
    from tenpy.linalg.charges import LegCharge, ChargeInfo
    ch = ChargeInfo([mod])
    out = []
    vals = sorted(set(int(ch.make_valid([w])[0]) for w in window))
    for nb in range(1, max_blocks + 1):
        for sizes in itertools.product(range(1, max_size + 1), repeat=nb):
            for qs in itertools.product(vals, repeat=nb):
                for qconj in (1, -1):
                    slices = np.concatenate([[0], np.cumsum(sizes)])
                    out.append(LegCharge(ch, slices, np.array(qs).reshape(nb, 1), qconj))
    return ch, out


def qflat_phys(leg):
    """charge*qconj attached to every flat index (the physical meaning of the leg)"""
    return leg.chinfo.make_valid(leg.to_qflat() * leg.qconj)


def check_pipe(rec, legs, qconj, sort, bunch):
    import tenpy.linalg.np_conserved as npc
    from tenpy.linalg.charges import LegPipe
    chinfo = legs[0].chinfo
    inp = {'mod': chinfo.mod.tolist(), 'legs': [(l.qconj, l.slices.tolist(), l.charges.ravel().tolist()) for l in legs],
           'qconj': qconj, 'sort': sort, 'bunch': bunch}
    sig = f'LegPipe(nlegs={len(legs)},sort={sort},bunch={bunch})'
    ok, pipe = rec.guarded(sig + ':exception', lambda: LegPipe(legs, qconj=qconj, sort=sort, bunch=bunch), inp)
    if not ok:
        return
    try:
        pipe.test_sanity()
    except Exception as e:
        rec.violation(sig + ':sanity', str(e), inp)
        return
    from . import gen
    if pipe.sorted and not gen.spec_sorted(pipe.charges):
        rec.violation(sig + ':claims-sorted', '', inp)
    if pipe.bunched and not gen.spec_bunched(pipe.charges):
        rec.violation(sig + ':claims-bunched', '', inp)
    shape = [l.ind_len for l in legs]
    n = int(np.prod(shape))
    if pipe.ind_len != n:
        rec.violation(sig + ':ind_len', f'{pipe.ind_len} != {n}', inp)
        return
    out_q = qflat_phys(pipe)
    in_q = [qflat_phys(l) for l in legs]
    seen = np.zeros(n, dtype=bool)
    idx_map = np.empty(shape, dtype=np.intp)
    for multi in np.ndindex(*shape):
        f = pipe.map_incoming_flat(list(multi))
        if not (0 <= f < n) or seen[f]:
            rec.violation(sig + ':not-bijective', f'index tuple {multi} -> {f}', inp)
            return
        seen[f] = True
        idx_map[multi] = f
        fused = chinfo.make_valid(sum(q[i] for q, i in zip(in_q, multi)))
        if np.any(out_q[f] != fused):
            rec.violation(sig + ':fusion-rule', f'tuple {multi}: outgoing charge {out_q[f]} != sum of incoming {fused}', inp)
            return
    # placement: a tensor with distinct entries, combined, must put entry `multi` at idx_map[multi]
    dense = np.arange(1, n + 1, dtype=float).reshape(shape)
    a = npc.Array.from_ndarray(dense, legs, cutoff=0., raise_wrong_sector=False, qtotal=None) if False else None
    # choose per-sector tensors: use qtotal of each entry's sector by masking
    sectors = {}
    for multi in np.ndindex(*shape):
        key = tuple(chinfo.make_valid(sum(q[i] for q, i in zip(in_q, multi))).tolist())
        sectors.setdefault(key, []).append(multi)
    for key, members in list(sectors.items())[:3]:
        d = np.zeros(shape)
        for m in members:
            d[m] = dense[m]
        a = npc.Array.from_ndarray(d, legs, qtotal=list(key), cutoff=0.)
        c = a.combine_legs([list(range(len(legs)))], pipes=[pipe])
        cd = c.to_ndarray()
        exp = np.zeros(n)
        for m in members:
            exp[idx_map[m]] = dense[m]
        if not np.array_equal(cd, exp):
            rec.violation(sig + ':placement', 'combine_legs places entries differently from map_incoming_flat', inp)
            return
        back = c.split_legs([0])
        if not np.array_equal(back.to_ndarray(), d):
            rec.violation(sig + ':combine-split-roundtrip', 'split_legs(combine_legs(a)) != a', inp)
            return
        bad = gen.sanity(c) + gen.sanity(back)
        if bad:
            rec.violation(sig + ':invariant', bad[0], inp)
    # conj keeps contractibility and the fusion rule
    pc = pipe.conj()
    try:
        pipe.test_contractible(pc)
        pc.test_sanity()
    except Exception as e:
        rec.violation(sig + ':conj', str(e), inp)
    lc = pipe.to_LegCharge()
    if np.any(qflat_phys(lc) != out_q):
        rec.violation(sig + ':to_LegCharge', 'charges changed', inp)


def check_leg_transforms(rec, leg, rng, others=None):
    from . import gen
    inp = {'mod': leg.chinfo.mod.tolist(), 'qconj': leg.qconj, 'slices': leg.slices.tolist(), 'charges': leg.charges.ravel().tolist()}
    q = qflat_phys(leg)
    # sort
    for bunch in (False, True):
        perm_qind, s = leg.sort(bunch=bunch)
        pf = leg.perm_flat_from_perm_qind(perm_qind)
        ok = sorted(pf.tolist()) == list(range(leg.ind_len)) and np.array_equal(qflat_phys(s), q[pf]) and gen.spec_sorted(s.charges)
        rec.check(ok, f'LegCharge.sort(bunch={bunch}):charge-per-index', 'sorted leg does not carry the permuted charges', inp)
        rec.check((not s.bunched or gen.spec_bunched(s.charges)) and (not s.sorted or gen.spec_sorted(s.charges)),
                  f'LegCharge.sort(bunch={bunch}):claims', '', inp)
    idx, b = leg.bunch()
    rec.check(np.array_equal(qflat_phys(b), q) and gen.spec_bunched(b.charges), 'LegCharge.bunch:charge-per-index', '', inp)
    f = leg.flip_charges_qconj()
    ok = np.array_equal(qflat_phys(f), q) and f.qconj == -leg.qconj
    try:
        f.test_equal(leg)
    except ValueError:
        ok = False
    rec.check(ok, 'LegCharge.flip_charges_qconj:charge-per-index', '', inp)
    c = leg.conj()
    try:
        leg.test_contractible(c)
        okc = np.array_equal(qflat_phys(c), leg.chinfo.make_valid(-q))
    except ValueError:
        okc = False
    rec.check(okc, 'LegCharge.conj:contractible', '', inp)
    mask = rng.random(leg.ind_len) < 0.6
    _, _, p = leg.project(mask)
    rec.check(np.array_equal(qflat_phys(p), q[mask]), 'LegCharge.project:charge-per-index', '', inp)
    e = leg.extend(leg)
    rec.check(np.array_equal(qflat_phys(e), np.concatenate([q, q])), 'LegCharge.extend:charge-per-index', '', inp)
    for extra in (others or []):
        # extending by a leg of either direction: the appended indices keep their (physical) charge
        ee = leg.extend(extra)
        rec.check(np.array_equal(qflat_phys(ee), np.concatenate([q, qflat_phys(extra)])) and ee.qconj == leg.qconj,
                  'LegCharge.extend(leg):charge-per-index', f'extra qconj={extra.qconj} charges={extra.charges.ravel().tolist()}',
                  dict(inp, extra=(extra.qconj, extra.slices.tolist(), extra.charges.ravel().tolist())))
    # block bookkeeping helpers
    from tenpy.linalg.charges import LegCharge, ChargeInfo
    sizes = leg.get_block_sizes()
    rec.check(np.array_equal(sizes, np.diff(leg.slices)) and all(leg.get_slice(b) == slice(int(leg.slices[b]), int(leg.slices[b + 1]))
                                                                  for b in range(leg.block_number)), 'LegCharge.get_block_sizes/get_slice', '', inp)
    for b in range(leg.block_number):
        rec.check(np.array_equal(leg.get_charge(b), leg.qconj * leg.charges[b]), 'LegCharge.get_charge', '', inp)   # documented: charges * qconj
    _, sb = leg.sort(bunch=True)
    for b in range(sb.block_number):          # blocked leg: charge -> block is the inverse of block -> charge
        okq, qi = rec.guarded('LegCharge.get_qindex_of_charges:exception', lambda: sb.get_qindex_of_charges(sb.get_charge(b)), inp)
        rec.check(okq and int(qi) == b, 'LegCharge.get_qindex_of_charges:inverse-of-get_charge', f'block {b} -> {qi if okq else None}', inp)
    cs = leg.charge_sectors()
    exp_cs = np.unique(leg.charges, axis=0) if leg.block_number else leg.charges
    exp_cs = exp_cs[np.lexsort(exp_cs.T)] if len(exp_cs) and exp_cs.shape[1] else exp_cs
    rec.check(np.array_equal(cs, exp_cs), 'LegCharge.charge_sectors', f'{cs.tolist()} vs {exp_cs.tolist()}', inp)
    pq = rng.permutation(leg.block_number)
    pf = leg.perm_flat_from_perm_qind(pq)
    exp_pf = np.concatenate([np.arange(leg.slices[b], leg.slices[b + 1]) for b in pq]) if leg.block_number else np.arange(0)
    rec.check(np.array_equal(pf, exp_pf), 'LegCharge.perm_flat_from_perm_qind', '', inp)
    okp, back = rec.guarded('LegCharge.perm_qind_from_perm_flat:exception', lambda: leg.perm_qind_from_perm_flat(pf), inp)
    rec.check(okp and np.array_equal(back, pq), 'LegCharge.perm_qind_from_perm_flat:inverse', f'{pq.tolist()} -> {back.tolist() if okp else None}', inp)
    # constructors deriving legs from legs: charge per index is what the documentation says
    tr = LegCharge.from_trivial(leg.ind_len, leg.chinfo, leg.qconj)
    rec.check(tr.ind_len == leg.ind_len and not np.any(tr.to_qflat()) and tr.qconj == leg.qconj, 'LegCharge.from_trivial', '', inp)
    if leg.chinfo.qnumber >= 1:
        dropped = LegCharge.from_drop_charge(leg, 0)
        rec.check(np.array_equal(dropped.to_qflat(), leg.to_qflat()[:, 1:]) and dropped.qconj == leg.qconj and dropped.chinfo.qnumber == leg.chinfo.qnumber - 1,
                  'LegCharge.from_drop_charge:charge-per-index', '', inp)
        other = LegCharge.from_qflat(ChargeInfo([1], ['extra']), rng.integers(-1, 2, size=(leg.ind_len, 1)), leg.qconj)
        added = LegCharge.from_add_charge([leg, other])
        rec.check(np.array_equal(added.to_qflat(), np.hstack([leg.to_qflat(), other.to_qflat()])) and added.qconj == leg.qconj,
                  'LegCharge.from_add_charge:charge-per-index', '', inp)
        newmod = 2
        chg = LegCharge.from_change_charge(leg, 0, newmod, 'changed')
        expq = leg.to_qflat().copy()
        expq[:, 0] = np.mod(expq[:, 0], newmod)
        rec.check(np.array_equal(chg.to_qflat(), expq) and chg.chinfo.mod[0] == newmod, 'LegCharge.from_change_charge:charge-per-index', '', inp)
        for nm, lg in (('from_drop_charge', dropped), ('from_add_charge', added), ('from_change_charge', chg)):
            try:
                lg.test_sanity()
                ok_claims = (not lg.sorted or gen.spec_sorted(lg.charges)) and (not lg.bunched or gen.spec_bunched(lg.charges))
            except Exception as e:
                ok_claims = False
            rec.check(ok_claims, f'LegCharge.{nm}:sanity-and-claims', f'sorted={lg.sorted} bunched={lg.bunched} charges={lg.charges.tolist()}', inp)
    e2 = leg.extend(2)
    rec.check(np.array_equal(qflat_phys(e2)[:leg.ind_len], q) and e2.ind_len == leg.ind_len + 2, 'LegCharge.extend(int):prefix', '', inp)


def check_multi_pipe(rec, rng, quick):
    """combine into two (or three) pipes at once and split all of them again: legs, order, labels and entries restored -
    for tensors with random entries, with a single stored block and with no stored block at all"""
    import tenpy.linalg.np_conserved as npc
    from . import gen
    for ci, chinfo in enumerate(gen.chinfos()[:5]):
        for k in range(6 if quick else 60):
            rank = int(rng.integers(3, 6))
            legs = [gen.random_leg(rng, chinfo, max_size=2) for _ in range(rank)]
            labels = [f'l{i}' for i in range(rank)]
            order = [int(x) for x in rng.permutation(rank)]
            cut = sorted(int(x) for x in rng.choice(np.arange(1, rank), size=min(2, rank - 1), replace=False))
            groups = [order[:cut[0]], order[cut[0]:cut[-1]]] + ([order[cut[-1]:]] if k % 3 == 0 else [])
            groups = [g for g in groups if len(g) >= 1]
            if sum(len(g) > 1 for g in groups) == 0:
                continue
            for fill in ('random', 'zeros', 'one-block'):
                inp = {'mod': chinfo.mod.tolist(), 'rank': rank, 'groups': groups, 'fill': fill}
                rec.begin(f'C06 multi-pipe {inp}')
                if fill == 'zeros':
                    a = npc.zeros(legs, labels=labels)
                else:
                    a = gen.random_array(rng, legs, float, labels=labels)
                    if fill == 'one-block' and len(a._data) > 1:
                        a._data, a._qdata = a._data[:1], a._qdata[:1]
                ok, c = rec.guarded('combine_legs(multi):exception', lambda: a.combine_legs([[labels[i] for i in g] for g in groups]), inp)
                rec.case(('multi-pipe', ci, k, fill), True, sample=inp if k == 0 and fill == 'zeros' else None)
                if not ok:
                    continue
                bad = gen.sanity(c)
                rec.check(not bad, 'combine_legs(multi):invariant', bad[0] if bad else '', inp)
                names = []
                for lbl in c.get_leg_labels():
                    names.extend(lbl.strip('()').split('.'))
                ref = a.transpose(names)
                ok, back = rec.guarded('split_legs(all):exception', lambda: c.split_legs(), inp)
                if not ok:
                    continue
                good = (back.rank == ref.rank and back.shape == ref.shape and list(back.get_leg_labels()) == list(ref.get_leg_labels())
                        and not any(hasattr(l, 'legs') for l in back.legs))
                if good:
                    for lb, la in zip(back.legs, ref.legs):
                        try:
                            lb.test_equal(la)
                        except ValueError:
                            good = False
                good = good and not gen.sanity(back) and np.array_equal(back.to_ndarray(), ref.to_ndarray())
                rec.check(good, f'split_legs(all pipes, {fill}):roundtrip', 'combine into several pipes + split does not restore the tensor', inp)
                # splitting pipe by pipe gives the same
                step = c
                for _ in range(len([l for l in c.legs if hasattr(l, 'legs')])):
                    first = [i for i, l in enumerate(step.legs) if hasattr(l, 'legs')][0]
                    step = step.split_legs([first])
                rec.check(step.shape == ref.shape and np.array_equal(step.to_ndarray(), ref.to_ndarray()), f'split_legs(one by one, {fill}):roundtrip', '', inp)


def check_nested_pipes(rec, rng, quick):
    """pipes of pipes: conjugation flips every level (so that conjugate legs stay contractible after splitting), splitting level by
    level restores the legs, a nested pipe and its conjugate contract"""
    import tenpy.linalg.np_conserved as npc
    from tenpy.linalg.charges import LegPipe
    from . import gen

    def walk(p, q, path, out):
        if q.qconj != -p.qconj:
            out.append(f'{path}: qconj {p.qconj} -> {q.qconj}')
        if not np.array_equal(p.to_qflat(), q.to_qflat()) if hasattr(p, 'to_qflat') else False:
            out.append(f'{path}: charge values changed')
        if isinstance(p, LegPipe) != isinstance(q, LegPipe):
            out.append(f'{path}: pipe-ness changed')
        elif isinstance(p, LegPipe):
            for i, (a_, b_) in enumerate(zip(p.legs, q.legs)):
                walk(a_, b_, f'{path}.legs[{i}]', out)
    for ci, chinfo in enumerate(gen.chinfos()[:5]):
        for k in range(4 if quick else 40):
            legs = [gen.random_leg(rng, chinfo, max_size=2) for _ in range(4)]
            labels = ['a', 'b', 'c', 'd']
            a = gen.random_array(rng, legs, [float, complex][k % 2], labels=labels)
            qc1, qc2 = int(rng.choice([1, -1])), int(rng.choice([1, -1]))
            inp = {'mod': chinfo.mod.tolist(), 'k': k, 'qconj': [qc1, qc2]}
            rec.begin(f'C06 nested pipes {inp}')
            rec.case(('nested-pipes', ci, k), True)
            ok, c2 = rec.guarded('nested-pipes:combine:exception',
                                 lambda: a.combine_legs(['a', 'b'], qconj=qc1).combine_legs(['(a.b)', 'c'], qconj=qc2), inp)
            if not ok:
                continue
            bad = gen.sanity(c2)
            rec.check(not bad, 'nested-pipes:combine:invariant', bad[0] if bad else '', inp)
            # LegPipe.conj on the nested pipe itself
            pipe = c2.legs[c2.get_leg_index('((a.b).c)')]
            diffs = []
            walk(pipe, pipe.conj(), 'pipe', diffs)
            rec.check(not diffs, 'LegPipe.conj(nested):every-level-flipped', '; '.join(diffs[:4]), inp)
            ok, cc = rec.guarded('nested-pipes:conj:exception', lambda: c2.conj(), inp)
            if not ok:
                continue
            ok, back = rec.guarded('nested-pipes:conj+split:exception', lambda: cc.split_legs().split_legs(), inp)
            if ok:
                ref = a.conj().transpose(['a*', 'b*', 'c*', 'd*'])
                back = back.transpose(['a*', 'b*', 'c*', 'd*']) if sorted(back.get_leg_labels()) == sorted(ref.get_leg_labels()) else back
                good = back.shape == ref.shape and not gen.sanity(back) and np.array_equal(back.to_ndarray(), ref.to_ndarray())
                if good:
                    for lb, la in zip(back.legs, ref.legs):
                        try:
                            lb.test_equal(la)
                        except ValueError:
                            good = False
                rec.check(good, 'nested-pipes:conj+split:legs-of-the-conjugate', f'sanity {gen.sanity(back)[:1]}', inp)
            ok, n2 = rec.guarded('nested-pipes:contract-with-conjugate:exception',
                                 lambda: npc.tensordot(c2, cc, axes=[['((a.b).c)', 'd'], ['((a*.b*).c*)', 'd*']]), inp)
            if ok:
                rec.check(abs(n2 - np.sum(np.abs(a.to_ndarray()) ** 2)) < 1e-9 * (1 + abs(n2)), 'nested-pipes:contract-with-conjugate:value', str(n2), inp)


def run(rec):
    warnings.simplefilter('ignore')
    rng = np.random.default_rng(rec.seed + 6)
    quick = rec.tier == 'quick'
    rec.rule = ('exhaustive over all legs with <= B blocks, sizes <= 2, charge window {-1,0,1}, mod in {1,2,3}: every single leg and '
                'pairs of legs with <= 2 blocks (quick: every 11th pair; thorough: every pair) and, thorough only, a fixed stride of '
                '~6000 pairs per charge type through all pairs of legs with <= 3 blocks, x outgoing qconj x sort x bunch; 3-4 legs sampled; '
                'non-trivial = pipe with >= 2 incoming blocks in total; distinct = distinct (legs, options)')
    maxb_pairs = 2
    rec.bounds = {'mod': [1, 2, 3], 'max_blocks_single': 3, 'max_blocks_pairs': maxb_pairs, 'max_block_size': 2,
                  'nlegs_exhaustive': [1, 2], 'nlegs_sampled': [3, 4]}
    rec.exhaustive = True
    for mod in (1, 2, 3):
        ch, legs3 = small_legs(mod, 3, 2)
        for li, leg in enumerate(legs3):
            rec.begin(f'C06 leg transforms mod={mod} leg#{li}')
            others = [legs3[int(x)] for x in rng.integers(0, len(legs3), size=4)]
            rec.guarded('leg-transforms:exception', lambda: check_leg_transforms(rec, leg, rng, others),
                        {'mod': mod, 'slices': leg.slices.tolist(), 'charges': leg.charges.ravel().tolist()})
            rec.case(('leg', mod, li), leg.block_number >= 2)
            if li % (7 if quick else 1) == 0:
                for qconj, sort, bunch in itertools.product((1, -1), (True, False), (True, False)):
                    check_pipe(rec, [leg], qconj, sort, bunch)
                    rec.case(('pipe1', mod, li, qconj, sort, bunch), leg.block_number >= 2)
        _, legs2 = small_legs(mod, 2, 2)
        pairs = [(legs2[i], legs2[j], i, j) for i, j in itertools.product(range(len(legs2)), repeat=2)]
        step = 11 if quick else 1            # pairs of legs with <= 2 blocks: thorough = all of them
        pairs = pairs[::step]
        if not quick:
            # pairs of legs with <= 3 blocks: a fixed stride through the full enumeration (it has ~2.7e5 pairs per charge type)
            pairs3 = list(itertools.product(range(len(legs3)), repeat=2))
            stride = max(1, len(pairs3) // 6000)
            pairs += [(legs3[i], legs3[j], 10000 + i, 10000 + j) for i, j in pairs3[3::stride]]
        for pi, (la, lb, i, j) in enumerate(pairs):
            rec.begin(f'C06 pipe mod={mod} legs #{i},#{j}')
            for qconj, sort, bunch in itertools.product((1, -1), (True, False), (True, False)):
                check_pipe(rec, [la, lb], qconj, sort, bunch)
                rec.case(('pipe2', mod, i, j, qconj, sort, bunch), la.block_number + lb.block_number >= 2,
                         sample={'mod': mod, 'legs': [(la.qconj, la.slices.tolist(), la.charges.ravel().tolist()),
                                                      (lb.qconj, lb.slices.tolist(), lb.charges.ravel().tolist())],
                                 'qconj': qconj, 'sort': sort, 'bunch': bunch} if pi == 0 and sort and bunch and qconj == 1 else None)
        # 3-4 legs: sampled
        for k in range(20 if quick else 600):
            nl = int(rng.choice([3, 4]))
            sel = [legs2[int(x)] for x in rng.integers(0, len(legs2), size=nl)]
            qconj, sort, bunch = int(rng.choice([1, -1])), bool(rng.integers(0, 2)), bool(rng.integers(0, 2))
            rec.begin(f'C06 pipe mod={mod} {nl} legs sample {k}')
            check_pipe(rec, sel, qconj, sort, bunch)
            rec.case(('pipeN', mod, k), True)
    check_multi_pipe(rec, rng, quick)
    check_nested_pipes(rec, rng, quick)
    if quick:
        rec.exhaustive = False
