"""Bounded stand-in for C19 (the stated finite domain, exhaustively in the thorough tier): index maps
are mutually inverse bijections (periodically extended), couplings for a displacement are exactly the
brute-force pairs, neighbour lists match Euclidean distances, mps2lat_values puts values at the coordinates."""
import itertools
import warnings

import numpy as np


def lattices(quick):
    from tenpy.models import lattice as Lt
    from tenpy.networks.site import SpinHalfSite
    s = SpinHalfSite('Sz')
    out = []
    sizes2d = [(2, 2), (3, 2), (2, 3)] if quick else [(1, 2), (2, 1), (2, 2), (3, 2), (2, 3), (3, 3), (4, 2), (2, 4), (4, 3), (3, 4), (4, 4)]
    for L in ([3, 4] if quick else [1, 2, 3, 4]):
        out.append((f'Chain({L})', lambda bc, bcm, order, L=L: Lt.Chain(L, s, bc=bc, bc_MPS=bcm, order=order), 1))
        out.append((f'Ladder({L})', lambda bc, bcm, order, L=L: Lt.Ladder(L, s, bc=bc, bc_MPS=bcm, order=order), 1))
    for (Lx, Ly) in sizes2d:
        for cls in ('Square', 'Triangular', 'Honeycomb', 'Kagome'):
            out.append((f'{cls}({Lx},{Ly})', lambda bc, bcm, order, c=cls, a=Lx, b=Ly: getattr(Lt, c)(a, b, s, bc=bc, bc_MPS=bcm, order=order), 2))
    for L in ([3] if quick else [2, 3, 4]):
        out.append((f'NLegLadder({L},3)', lambda bc, bcm, order, L=L: Lt.NLegLadder(L, 3, s, bc=bc, bc_MPS=bcm, order=order), 1))
    return out


def bc_options(dim):
    if dim == 1:
        return [['open'], ['periodic']]
    out = []
    for b0 in ('open', 'periodic'):
        for b1 in ('open', 'periodic', 1, -1, 2):
            out.append([b0, b1])
    return out


def brute_pairs(lat, u1, u2, dx):
    """expected (i, j) pairs for displacement dx between sublattices u1 -> u2"""
    Ls = np.array(lat.Ls)
    dim = lat.dim
    N = lat.N_sites
    open_bc = [bool(b) for b in lat.bc]
    shift = lat.bc_shift if lat.bc_shift is not None else np.zeros(dim - 1, dtype=int)
    pairs = []
    for x in itertools.product(*[range(l) for l in Ls]):
        y = np.array(x) + np.array(dx)
        ok = True
        for a in range(1, dim):
            k = y[a] // Ls[a]
            if k != 0:
                if open_bc[a]:
                    ok = False
                    break
                y[a] -= k * Ls[a]
                y[0] -= k * shift[a - 1]
        if not ok:
            continue
        k0 = y[0] // Ls[0]
        if k0 != 0:
            if open_bc[0]:
                continue
            y[0] -= k0 * Ls[0]
        li = list(x) + [u1]
        lj = list(y) + [u2]
        try:
            i = int(lat.lat2mps_idx(li))
            j = int(lat.lat2mps_idx(lj))
        except Exception:
            continue
        if lat.bc_MPS != 'finite':
            j += int(k0) * N      # one wrap around x = one MPS unit cell
        pairs.append((i, j))
    return pairs


def normalize(pairs, N, infinite):
    out = []
    for i, j in pairs:
        if infinite:
            q = i // N
            i, j = i - q * N, j - q * N
        out.append((int(i), int(j)))
    return sorted(out)


def check_lattice(rec, name, make, dim, bc, bcm, order, quick, rng):
    inp = {'lattice': name, 'bc': bc, 'bc_MPS': bcm, 'order': order if isinstance(order, str) else 'custom-permutation'}
    try:
        lat = make(bc, bcm, order if isinstance(order, str) else 'default')
    except ValueError as e:
        return None   # combination rejected by the constructor (e.g. infinite MPS with open x)
    except Exception as e:
        rec.violation('lattice-constructor:exception:' + type(e).__name__, str(e)[:200], inp)
        return None
    if not isinstance(order, str):
        perm = np.random.default_rng(order).permutation(lat.N_sites)
        lat.order = lat.order[perm]
    N = lat.N_sites
    infinite = bcm != 'finite'
    # --- index bijection
    rng_i = range(-2 * N, 3 * N) if infinite else range(N)
    seen = set()
    for i in rng_i:
        li = lat.mps2lat_idx(i)
        back = int(lat.lat2mps_idx(li))
        if back != i:
            rec.violation('index-maps:not-inverse', f'lat2mps_idx(mps2lat_idx({i})) = {back}; lat idx {li.tolist()}', inp)
            break
        t = tuple(int(x) for x in li)
        if t in seen:
            rec.violation('index-maps:not-injective', f'lattice index {t} hit twice', inp)
            break
        seen.add(t)
        if 0 <= i < N and not all(0 <= li[a] < lat.Ls[a] for a in range(lat.dim)):
            rec.violation('index-maps:out-of-unit-cell', f'{i} -> {li.tolist()}', inp)
            break
    if infinite:
        # periodic extension: shifting i by N shifts x0 by N_rings
        for i in range(N):
            a, b = lat.mps2lat_idx(i), lat.mps2lat_idx(i + N)
            if not (b[0] - a[0] == lat.N_rings and np.array_equal(a[1:], b[1:])):
                rec.violation('index-maps:periodic-extension', f'{i}: {a.tolist()} vs {i + N}: {b.tolist()}', inp)
                break
    # --- mps2lat_values
    A = np.arange(N) * 1.0
    for u in range(len(lat.unit_cell)):
        try:
            vals = lat.mps2lat_values(A[lat.mps_idx_fix_u(u)] if len(lat.unit_cell) > 1 else A, u=u if len(lat.unit_cell) > 1 else None)
        except Exception as e:
            rec.violation('mps2lat_values:exception:' + type(e).__name__, str(e)[:150], inp)
            break
        for i in range(N):
            li = lat.mps2lat_idx(i)
            if len(lat.unit_cell) > 1 and li[-1] != u:
                continue
            idx = tuple(li[:-1]) if len(lat.unit_cell) > 1 else tuple(li[:-1])
            v = vals[idx] if len(lat.unit_cell) > 1 else vals[tuple(li[:lat.dim])] if vals.ndim == lat.dim else vals[tuple(li)]
            if np.ndim(v) > 0:
                v = v[li[-1]] if v.shape[-1] == len(lat.unit_cell) else v
            if v != i:
                rec.violation('mps2lat_values:misplaced', f'value of site {i} (lat {li.tolist()}) found {v}', inp)
                break
    # --- mps2lat_values_masked: arbitrary subsets of MPS indices (infinite: also left and right of the unit cell);
    # every given value sits at the lattice coordinates of its site (negative x0 wrap around, as documented), nothing else is unmasked
    for trial in range(3):
        lo, hi = (0, N) if lat.bc_MPS == 'finite' else (-N - 1, 2 * N + 1)
        k = int(rng_glob.integers(1, max(2, min(N, 6))))
        inds = np.sort(rng_glob.choice(np.arange(lo, hi), size=k, replace=False))
        vals_in = 100. + np.arange(k)
        try:
            res = lat.mps2lat_values_masked(vals_in, 0, inds)
        except Exception as e:
            rec.violation('mps2lat_values_masked:exception:' + type(e).__name__, str(e)[:150], dict(inp, mps_inds=inds.tolist()))
            break
        okm = int(np.sum(~np.ma.getmaskarray(res))) == k
        for v_, i_ in zip(vals_in, inds):
            li = lat.mps2lat_idx(int(i_))
            idx = tuple(int(x) for x in (li if len(lat.unit_cell) > 1 else li[:-1]))
            try:
                okm = okm and (not np.ma.getmaskarray(res)[idx]) and res[idx] == v_
            except IndexError:
                okm = False
        if not okm:
            rec.violation('mps2lat_values_masked:misplaced', f'mps_inds {inds.tolist()}: {k} values given, '
                          f'{int(np.sum(~np.ma.getmaskarray(res)))} unmasked, shape {res.shape}', dict(inp, mps_inds=inds.tolist()))
            break
    # --- couplings against brute force
    nu = len(lat.unit_cell)
    maxd = [l for l in lat.Ls]
    dxs = list(itertools.product(*[range(-m, m + 1) for m in maxd]))
    if quick and len(dxs) > 40:
        dxs = [dxs[k] for k in rng.choice(len(dxs), size=40, replace=False)]
    for dx in dxs:
        for u1, u2 in itertools.product(range(nu), repeat=2):
            if quick and nu > 1 and rng.random() < 0.6:
                continue
            if all(d == 0 for d in dx) and u1 == u2:
                continue
            try:
                mi, mj, lat_inds, cshape = lat.possible_couplings(u1, u2, list(dx))
            except Exception as e:
                rec.violation('possible_couplings:exception:' + type(e).__name__, f'{e}'[:150], dict(inp, dx=dx, u=(u1, u2)))
                continue
            got = normalize(list(zip(np.asarray(mi, dtype=int).tolist(), np.asarray(mj, dtype=int).tolist())), N, infinite)
            exp = normalize(brute_pairs(lat, u1, u2, dx), N, infinite)
            rec.case((name, tuple(map(str, bc)), bcm, str(order), dx, u1, u2), len(exp) > 0)
            if got != exp:
                corner = (lat.bc_shift is not None and bool(lat.bc[0]) and abs(dx[0]) >= lat.Ls[0])
                sig = 'possible_couplings:pairs' + (':open-x+shifted-y,|dx0|>=Lx' if corner else '')
                rec.violation(sig, f'dx={dx} u=({u1},{u2}): got {got[:6]}{"..." if len(got) > 6 else ""} expected {exp[:6]}{"..." if len(exp) > 6 else ""}',
                              dict(inp, dx=dx, u=(u1, u2)))
            if infinite and len(mi):
                mn = np.minimum(np.asarray(mi), np.asarray(mj))
                if not np.all((0 <= mn) & (mn < N)):
                    rec.violation('possible_couplings:unit-cell-assignment', f'min(i,j) outside [0,N): dx={dx}', dict(inp, dx=dx))
    return lat


def check_neighbors(rec, name, make, dim):
    """predefined neighbour lists match the Euclidean distances of the site positions (bulk, periodic)"""
    try:
        lat = make(['periodic'] * dim, 'finite' if dim == 1 else 'finite', 'default')
    except Exception:
        return
    inp = {'lattice': name}
    # all positions in a window of unit cells
    W = 3
    pos = {}
    for x in itertools.product(*[range(-W, W + 1) for _ in range(lat.dim)]):
        for u in range(len(lat.unit_cell)):
            pos[(x, u)] = lat.position(np.array(list(x) + [u]))
    origin = tuple([0] * lat.dim)
    dists = {}
    for u in range(len(lat.unit_cell)):
        p0 = pos[(origin, u)]
        ds = sorted((round(float(np.linalg.norm(p - p0)), 8), x, v) for (x, v), p in pos.items() if not (x == origin and v == u))
        dists[u] = ds
    levels = sorted(set(d for u in dists for d, _, _ in dists[u]))[:3]
    for key, level in zip(['nearest_neighbors', 'next_nearest_neighbors', 'next_next_nearest_neighbors'], levels):
        if key not in lat.pairs:
            continue
        exp = set()
        for u in dists:
            for d, x, v in dists[u]:
                if abs(d - level) < 1e-7:
                    exp.add((u, v, tuple(x)))
        got = set()
        for u1, u2, dx in lat.pairs[key]:
            got.add((u1, u2, tuple(int(a) for a in dx)))
            got.add((u2, u1, tuple(-int(a) for a in dx)))
            d = lat.distance(u1, u2, dx)
            rec.check(abs(d - level) < 1e-7, f'pairs[{key}]:distance', f'({u1},{u2},{list(dx)}) has distance {d}, level {level}', inp)
        rec.case(('neighbors', name, key))
        rec.check(got == exp, f'pairs[{key}]:set', f'missing {sorted(exp - got)[:4]} extra {sorted(got - exp)[:4]}', inp)


rng_glob = np.random.default_rng(1919)


def run(rec):
    warnings.simplefilter('ignore')
    rng = np.random.default_rng(rec.seed + 19)
    quick = rec.tier == 'quick'
    rec.rule = ('lattice class x size (<= 4x4) x ordering (default, snake, Fstyle, snakeFstyle, custom permutation) x boundary conditions '
                '(open / periodic / shifted x finite / infinite MPS) x all displacement vectors up to the lattice size x sublattice pairs: '
                'index maps inverse and injective (infinite: on [-2N, 3N)), mps2lat_values placement, possible_couplings == brute force over '
                'coordinate pairs, unit-cell assignment; neighbour lists vs Euclidean distances; irregular, multi-species and helical '
                'lattices; quick tier samples 40 displacements per lattice; non-trivial = displacement with >= 1 expected pair')
    rec.bounds = {'max_size': '4x4', 'orders': 5}
    rec.exhaustive = not quick
    orders = ['default', 'snake', 'Fstyle', 777] if quick else ['default', 'snake', 'Fstyle', 'snakeFstyle', 12345]
    for name, make, dim in lattices(quick):
        for bc in bc_options(dim):
            for bcm in ('finite', 'infinite'):
                for order in orders:
                    rec.begin(f'C19 {name} bc={bc} bc_MPS={bcm} order={order}')
                    rec.guarded('lattice-check:exception', lambda: check_lattice(rec, name, make, dim, bc, bcm, order, quick, rng),
                                {'lattice': name, 'bc': bc, 'bc_MPS': bcm, 'order': str(order)})
        check_neighbors(rec, name, make, dim)
    special_lattices(rec, rng)


def special_lattices(rec, rng):
    from tenpy.models import lattice as Lt
    from tenpy.networks.site import SpinHalfSite, FermionSite
    s = SpinHalfSite('Sz')
    # irregular: removed sites
    for Lx, Ly in [(3, 2), (3, 3)]:
        reg = Lt.Honeycomb(Lx, Ly, s, bc='open', bc_MPS='finite')
        rem = [[0, 0, 0], [Lx - 1, Ly - 1, 1]]
        rec.begin(f'C19 IrregularLattice Honeycomb({Lx},{Ly}) remove {rem}')
        ok, lat = rec.guarded('IrregularLattice:exception', lambda: Lt.IrregularLattice(reg, remove=rem), {'remove': rem})
        rec.case(('irregular', Lx, Ly))
        if ok:
            N = lat.N_sites
            rec.check(N == reg.N_sites - 2, 'IrregularLattice:N_sites', str(N))
            okb = all(int(lat.lat2mps_idx(lat.mps2lat_idx(i))) == i for i in range(N))
            rec.check(okb, 'IrregularLattice:index-maps', 'not inverse')
            removed = {tuple(r) for r in rem}
            for u1, u2, dx in reg.pairs['nearest_neighbors']:
                mi, mj, _, _ = lat.possible_couplings(u1, u2, dx)
                exp = []
                for x in itertools.product(range(Lx), range(Ly)):
                    y = (x[0] + dx[0], x[1] + dx[1])
                    if not (0 <= y[0] < Lx and 0 <= y[1] < Ly):
                        continue
                    if (x[0], x[1], u1) in removed or (y[0], y[1], u2) in removed:
                        continue
                    exp.append((int(lat.lat2mps_idx([x[0], x[1], u1])), int(lat.lat2mps_idx([y[0], y[1], u2]))))
                rec.check(sorted(zip(np.asarray(mi, dtype=int).tolist(), np.asarray(mj, dtype=int).tolist())) == sorted(exp),
                          'IrregularLattice:possible_couplings', f'pair ({u1},{u2},{list(dx)})', {'remove': rem})
    # multi-species
    rec.begin('C19 MultiSpeciesLattice')
    simple = Lt.Square(2, 3, None, bc=['periodic', 'open'], bc_MPS='finite')
    ok, ml = rec.guarded('MultiSpeciesLattice:exception', lambda: Lt.MultiSpeciesLattice(simple, [FermionSite('N'), FermionSite('N')], ['A', 'B']), None)
    rec.case(('multispecies',))
    if ok:
        N = ml.N_sites
        rec.check(N == 12 and all(int(ml.lat2mps_idx(ml.mps2lat_idx(i))) == i for i in range(N)), 'MultiSpeciesLattice:index-maps', '')
    # every simple lattice (also with several sites per unit cell) x 2-3 species: each site of the multi-species lattice sits at
    # the position of its simple-lattice site, every derived pair list has the Euclidean distance of the list it comes from
    for sname, mk in (('Chain', lambda: Lt.Chain(4, None, bc='periodic')), ('Ladder', lambda: Lt.Ladder(3, None, bc='periodic')),
                      ('Square', lambda: Lt.Square(3, 3, None, bc='periodic')), ('Honeycomb', lambda: Lt.Honeycomb(3, 3, None, bc='periodic')),
                      ('Kagome', lambda: Lt.Kagome(3, 3, None, bc='periodic')), ('Triangular', lambda: Lt.Triangular(3, 3, None, bc='periodic'))):
        for nsp in (2, 3):
            inp = {'simple_lattice': sname, 'species': nsp}
            rec.begin(f'C19 MultiSpeciesLattice {inp}')
            simple = mk()
            names = ['A', 'B', 'C'][:nsp]
            ok, ml = rec.guarded('MultiSpeciesLattice:exception', lambda: Lt.MultiSpeciesLattice(simple, [FermionSite('N')] * nsp, names), inp)
            rec.case(('multispecies', sname, nsp), True, sample=inp if sname == 'Honeycomb' and nsp == 2 else None)
            if not ok:
                continue
            Lu = len(simple.unit_cell)
            good = len(ml.unit_cell) == Lu * nsp
            for u in range(len(ml.unit_cell)):
                su, sp = int(ml.self_u_to_simple_u(u)), int(ml.self_u_to_species_idx(u))
                good = good and (su, sp) == (u // nsp, u % nsp) and int(ml.simple_u_to_species_u(su, sp)) == u
                x = [1] * simple.dim
                good = good and np.allclose(ml.position(np.array(x + [u])), simple.position(np.array(x + [su])))
            rec.check(good, 'MultiSpeciesLattice:positions-and-species-maps', 'site u is not at the position of simple site u // N_species', inp)
            for key, val in ml.pairs.items():
                base = key.rsplit('_', 1)[0]
                if base == 'onsite':
                    target = 0.
                elif base in simple.pairs and simple.pairs[base]:
                    u1, u2, dx = simple.pairs[base][0]
                    target = simple.distance(u1, u2, dx)
                else:
                    continue
                bad = [(u1, u2, list(dx)) for u1, u2, dx in val if abs(ml.distance(u1, u2, np.asarray(dx)) - target) > 1e-9]
                rec.check(not bad, 'MultiSpeciesLattice:pair-distance', f'pairs[{key!r}]: {bad[:3]} not at distance {target}', dict(inp, key=key))
    # helical
    for Lx, Ly in [(2, 3), (3, 2)]:
        rec.begin(f'C19 HelicalLattice Square({Lx},{Ly})')
        reg = Lt.Square(Lx, Ly, s, bc=['periodic', -1], bc_MPS='infinite')
        ok, hl = rec.guarded('HelicalLattice:exception', lambda: Lt.HelicalLattice(reg, 2), None)
        rec.case(('helical', Lx, Ly))
        if ok:
            okb = all(int(hl.lat2mps_idx(hl.mps2lat_idx(i))) == i for i in range(-6, 12))
            rec.check(okb, 'HelicalLattice:index-maps', 'not inverse on [-6, 12)')
    # helical lattices: the couplings are those of the one-dimensional helix - cell n couples to cell n + dx0*Ly + dx1 -
    # each exactly once with 0 <= min(i, j) < N_sites, whether or not a strength is passed
    for cls, Lx, Ly in [(Lt.Square, 2, 3), (Lt.Square, 4, 2), (Lt.Honeycomb, 2, 2), (Lt.Kagome, 3, 2)]:
        for ncell in [n for n in (1, 2, 3, 4, 6) if n <= Lx * Ly and (Lx * Ly) % n == 0]:
            rec.begin(f'C19 HelicalLattice {cls.__name__}({Lx},{Ly}) N_unit_cells={ncell} couplings')
            reg = cls(Lx, Ly, s, order='Cstyle', bc=['periodic', -1], bc_MPS='infinite')
            ok, hl = rec.guarded('HelicalLattice:exception', lambda: Lt.HelicalLattice(reg, ncell), None)
            if not ok:
                continue
            rec.case(('helical-couplings', cls.__name__, Lx, Ly, ncell))
            Lu = len(hl.unit_cell)
            pos = {int(u): k for k, u in enumerate(hl.order[:Lu, -1])}       # place of u inside a cell along the helix
            N = hl.N_sites
            for u1, u2 in itertools.product(range(Lu), repeat=2):
                for dx in itertools.product(range(-2, 3), repeat=2):
                    if dx == (0, 0) and u1 == u2:
                        continue
                    d = dx[0] * Ly + dx[1]
                    exp = set()
                    for n in range(-4 * Lx * Ly, 4 * Lx * Ly):
                        i, j = n * Lu + pos[u1], (n + d) * Lu + pos[u2]
                        if 0 <= min(i, j) < N:
                            exp.add((i, j))
                    inp = {'lattice': f'{cls.__name__}({Lx},{Ly})', 'N_unit_cells': ncell, 'u1': u1, 'u2': u2, 'dx': list(dx)}
                    for tag, call in (('strength=None', lambda: hl.possible_couplings(u1, u2, dx)[:2]),
                                      ('strength=1', lambda: hl.possible_couplings(u1, u2, dx, 1.0)[:2])):
                        okc, res = rec.guarded(f'HelicalLattice.possible_couplings[{tag}]:exception', call, inp)
                        if okc:
                            got = sorted(zip(np.asarray(res[0], int).tolist(), np.asarray(res[1], int).tolist()))
                            rec.check(got == sorted(exp), f'HelicalLattice.possible_couplings[{tag}]:pairs',
                                      f'{got} vs helix enumeration {sorted(exp)}', inp)
