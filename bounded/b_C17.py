"""Bounded stand-in for C17: real HDF5 (every leg format) and pickle round trips of every exportable class
found by reflection over the tenpy package, of nested containers, shared references and self-referential
containers; loaded object observationally equal and passing its own sanity check."""
import collections
import importlib
import inspect
import io
import os
import pickle
import pkgutil
import tempfile
import warnings

import numpy as np


def discover():
    """all classes in tenpy that derive from Hdf5Exportable (so new classes are included)"""
    import tenpy
    from tenpy.tools.hdf5_io import Hdf5Exportable
    found = {}
    for m in pkgutil.walk_packages(tenpy.__path__, 'tenpy.'):
        if any(x in m.name for x in ('.tests', 'version')):
            continue
        try:
            mod = importlib.import_module(m.name)
        except Exception:
            continue
        for name, cls in inspect.getmembers(mod, inspect.isclass):
            if (issubclass(cls, Hdf5Exportable) or hasattr(cls, 'save_hdf5')) and cls.__module__.startswith('tenpy') and cls is not Hdf5Exportable:
                found[f'{cls.__module__}.{cls.__name__}'] = cls
    return found


def equal(a, b, path='', seen=None, depth=0):
    """observational equality; returns list of differences (strings)"""
    import tenpy.linalg.np_conserved as npc
    from tenpy.linalg.charges import LegCharge, ChargeInfo
    seen = seen if seen is not None else set()
    key = (id(a), id(b))
    if key in seen or depth > 12:
        return []
    seen.add(key)
    if type(a) is not type(b):
        if isinstance(a, (np.generic, int, float, complex)) and isinstance(b, (np.generic, int, float, complex)):
            return [] if a == b or (a != a and b != b) else [f'{path}: {a!r} != {b!r}']
        if isinstance(a, (list, tuple)) and isinstance(b, (list, tuple)) and False:
            pass
        return [f'{path}: type {type(a).__name__} != {type(b).__name__}']
    if isinstance(a, npc.Array):
        d = []
        if a.shape != b.shape or not np.array_equal(a.to_ndarray(), b.to_ndarray()):
            d.append(f'{path}: tensor values differ')
        if list(a.get_leg_labels()) != list(b.get_leg_labels()):
            d.append(f'{path}: labels {a.get_leg_labels()} != {b.get_leg_labels()}')
        if not np.array_equal(a.qtotal, b.qtotal) or a.dtype != b.dtype:
            d.append(f'{path}: qtotal/dtype differ')
        for i, (l1, l2) in enumerate(zip(a.legs, b.legs)):
            d += equal(l1, l2, f'{path}.legs[{i}]', seen, depth + 1)
        return d
    if isinstance(a, LegCharge):
        d = []
        if a.qconj != b.qconj or a.ind_len != b.ind_len or not np.array_equal(a.to_qflat(), b.to_qflat()):
            d.append(f'{path}: leg charges per index differ')
        if a.chinfo != b.chinfo:
            d.append(f'{path}: chinfo differs')
        from . import gen as _gen
        # whatever the format: the loaded leg must not claim more than is true
        if (b.sorted and not _gen.spec_sorted(b.charges)) or (b.bunched and not _gen.spec_bunched(b.charges)):
            d.append(f'{path}: loaded leg claims sorted={b.sorted}, bunched={b.bunched} for charges {b.charges.tolist()}')
        if STRICT_LEGS:
            # block-preserving formats (blocks, compact, pickle): the same blocks and the same cached flags
            if not np.array_equal(a.slices, b.slices) or not np.array_equal(a.charges, b.charges):
                d.append(f'{path}: block structure differs')
            if bool(a.sorted) != bool(b.sorted) or bool(a.bunched) != bool(b.bunched):
                d.append(f'{path}: flags differ: sorted {a.sorted} -> {b.sorted}, bunched {a.bunched} -> {b.bunched}')
        if hasattr(a, 'legs') != hasattr(b, 'legs'):
            d.append(f'{path}: pipe structure lost')
        elif hasattr(a, 'legs'):
            for i, (l1, l2) in enumerate(zip(a.legs, b.legs)):
                d += equal(l1, l2, f'{path}.legs[{i}]', seen, depth + 1)
            if not np.array_equal(a.q_map, b.q_map):
                d.append(f'{path}: q_map differs')
        return d
    if isinstance(a, ChargeInfo):
        return [] if a == b and type(a) is type(b) and a.__dict__.keys() == b.__dict__.keys() and all(
            np.array_equal(np.asarray(a.__dict__[k], dtype=object) if isinstance(a.__dict__[k], list) else a.__dict__[k],
                           np.asarray(b.__dict__[k], dtype=object) if isinstance(b.__dict__[k], list) else b.__dict__[k])
            for k in a.__dict__ if isinstance(a.__dict__[k], (np.ndarray, int, list))) else [f'{path}: ChargeInfo differs']
    if isinstance(a, np.ndarray):
        if a.shape != b.shape or a.dtype != b.dtype:
            return [f'{path}: array shape/dtype {a.shape},{a.dtype} != {b.shape},{b.dtype}']
        if a.dtype == object:
            d = []
            for i, (x, y) in enumerate(zip(a.ravel(), b.ravel())):
                d += equal(x, y, f'{path}[{i}]', seen, depth + 1)
            return d
        same = np.array_equal(a, b, equal_nan=True) if a.dtype.kind in 'fc' else np.array_equal(a, b)
        return [] if same else [f'{path}: array values differ']
    if isinstance(a, (str, bytes, int, float, complex, bool, type(None), np.generic, range, np.dtype)):
        return [] if (a == b or (a != a and b != b)) else [f'{path}: {a!r} != {b!r}']
    if isinstance(a, (list, tuple, collections.deque)):
        if len(a) != len(b):
            return [f'{path}: len {len(a)} != {len(b)}']
        d = []
        for i, (x, y) in enumerate(zip(a, b)):
            d += equal(x, y, f'{path}[{i}]', seen, depth + 1)
        return d
    if isinstance(a, (set, frozenset)):
        return [] if a == b else [f'{path}: sets differ']
    if isinstance(a, dict):
        if set(map(repr, a.keys())) != set(map(repr, b.keys())):
            return [f'{path}: dict keys differ: {sorted(map(repr, a))[:5]} vs {sorted(map(repr, b))[:5]}']
        d = []
        bk = {repr(k): k for k in b}
        for k in a:
            d += equal(a[k], b[bk[repr(k)]], f'{path}[{k!r}]', seen, depth + 1)
        return d
    if callable(a) and not hasattr(a, '__dict__'):
        return []
    if hasattr(a, '__dict__'):
        d = []
        da, db = a.__dict__, b.__dict__
        skip = {'logger', '_cache', 'cache', 'unused', '_BZ', '_reciprocal_basis', '_mps_sites_cache'}   # lazily computed caches
        ka = {k for k in da if k not in skip}
        kb = {k for k in db if k not in skip}
        if ka != kb:
            d.append(f'{path}: attributes differ: only in original {sorted(ka - kb)}, only in loaded {sorted(kb - ka)}')
        for k in sorted(ka & kb):
            d += equal(da[k], db[k], f'{path}.{k}', seen, depth + 1)
        return d
    return [] if a == b else [f'{path}: {a!r} != {b!r}']


def factories(rng):
    """instances of exportable classes, keyed by qualified class name"""
    import tenpy
    import tenpy.linalg.np_conserved as npc
    from tenpy.linalg import charges as ch
    from tenpy.linalg.truncation import TruncationError
    from tenpy.networks import site as S, mps, mpo, terms
    from tenpy.models import lattice as Lt
    from tenpy.models.xxz_chain import XXZChain
    from tenpy.models.tf_ising import TFIChain
    from tenpy.tools.params import Config
    from . import gen
    out = {}

    def add(obj, note=''):
        out.setdefault(f'{type(obj).__module__}.{type(obj).__name__}', []).append((obj, note))
    ci = ch.ChargeInfo([1, 2], ['N', 'P'])
    add(ci)
    add(ch.ChargeInfo())
    add(ch.DipolarChargeInfo([1, 1], ['N', 'dipole'], [0], [1], [0]))
    leg = gen.random_leg(rng, ci, nblocks=3, kind='generic')
    add(leg, 'generic')
    add(gen.random_leg(rng, ci, nblocks=3, kind='sorted-blocked'), 'sorted-blocked')
    add(ch.LegCharge.from_qflat(ci, np.zeros((0, ci.qnumber), dtype=int)), 'leg without blocks')
    dup = gen.random_leg(rng, ci, nblocks=4, kind='dups')
    add(dup.sort(bunch=False)[1], 'sorted, not bunched')          # flags differ from each other
    add(dup.bunch()[1], 'bunched, not sorted')
    add(ch.LegPipe([dup.sort(bunch=False)[1], gen.random_leg(rng, ci)], qconj=+1, sort=True, bunch=False), 'pipe sorted, not bunched')
    pipe = ch.LegPipe([leg, gen.random_leg(rng, ci)], qconj=-1)
    add(pipe)
    a = gen.random_array(rng, [leg, leg.conj(), gen.random_leg(rng, ci)], complex, labels=['a', 'b', 'c'])
    add(a)
    add(a.combine_legs([[0, 2]]), 'with pipe')
    add(TruncationError(0.1, 0.8))
    add(Config({'a': 1, 'sub': {'b': [1, 2]}}, 'cfg'))
    for s in [S.SpinHalfSite('Sz'), S.SpinSite(1., 'parity'), S.FermionSite('N'), S.BosonSite(2, 'N'), S.SpinHalfFermionSite('N', 'Sz'),
              S.SpinHalfHoleSite('N', 'Sz'), S.ClockSite(3, 'Z')]:
        add(s)
    add(S.GroupedSite([S.SpinHalfSite('Sz'), S.SpinHalfSite('Sz')]))
    add(S.GroupedSite([S.FermionSite('N'), S.SpinHalfSite('Sz')], charges='independent'), 'independent charges')
    M = XXZChain({'L': 4, 'Jxx': 1., 'Jz': 0.5, 'hz': 0.1, 'bc_MPS': 'finite'})
    add(M)
    add(TFIChain({'L': 3, 'J': 1., 'g': 0.5, 'bc_MPS': 'infinite'}))
    add(M.H_MPO)
    psi = mps.MPS.from_product_state(M.lat.mps_sites(), ['up', 'down', 'up', 'down'], 'finite')
    from tenpy.algorithms import tebd
    tebd.TEBDEngine(psi, M, {'dt': 0.1, 'N_steps': 3, 'trunc_params': {'chi_max': 8}}).run()
    add(psi)
    # an MPS whose tensors have different dtypes (real state, complex unitary on one inner site), a non-trivial norm, mixed forms
    import tenpy.linalg.np_conserved as npc_
    psi_mixed = mps.MPS.from_product_state(M.lat.mps_sites(), ['up', 'down', 'up', 'down'], 'finite')
    from tenpy.algorithms import dmrg as dmrg_
    dmrg_.TwoSiteDMRGEngine(psi_mixed, M, {'max_sweeps': 2, 'trunc_params': {'chi_max': 8}, 'mixer': False}).run()    # real, entangled
    psi_mixed.apply_local_op(2, npc_.expm(0.3j * M.lat.mps_sites()[2].get_op('Sz')), unitary=True)
    psi_mixed.norm = 0.7
    psi_mixed.convert_form(['A', 'B', 'C', 'Th'])
    add(psi_mixed, 'mixed dtypes, norm 0.7, forms A/B/C/Th')
    psi_inf = mps.MPS.from_product_state([S.SpinHalfSite('Sz')] * 2, ['up', 'down'], 'infinite')
    M_inf = XXZChain({'L': 2, 'Jxx': 1., 'Jz': 0.5, 'hz': 0.1, 'bc_MPS': 'infinite'})
    tebd.TEBDEngine(psi_inf, M_inf, {'dt': 0.1, 'N_steps': 3, 'trunc_params': {'chi_max': 6}}).run()
    psi_inf.apply_local_op(1, npc_.expm(0.3j * psi_inf.sites[1].get_op('Sz')), unitary=True)
    add(psi_inf, 'infinite')
    add(psi_inf.extract_segment(0, 3), 'segment') if hasattr(psi_inf, 'extract_segment') else None
    add(mps.MPSEnvironment(psi, psi)) if hasattr(mps.MPSEnvironment, 'save_hdf5') else None
    tl = terms.TermList([[('Sz', 0)], [('Sp', 0), ('Sm', 2)]], [1., 0.5j])
    add(tl)
    add(M.all_onsite_terms())
    add(M.all_coupling_terms())
    add(M.exp_decaying_terms)
    mct = terms.MultiCouplingTerms(4)
    mct.add_multi_coupling_term(0.3, [0, 1, 3], ['Sz', 'Sp', 'Sm'], ['Id', 'Id'])
    add(mct)
    s = S.SpinHalfSite('Sz')
    for lat in [Lt.Chain(4, s), Lt.Ladder(3, s), Lt.Square(2, 3, s, bc=['periodic', 'open']), Lt.Honeycomb(2, 2, s), Lt.Kagome(2, 2, s),
                Lt.Triangular(2, 2, s, bc=['periodic', 1], bc_MPS='infinite'), Lt.NLegLadder(3, 3, s), Lt.TrivialLattice([s, s, s])]:
        add(lat)
    reg = Lt.Honeycomb(3, 2, s, bc='open')
    add(Lt.IrregularLattice(reg, remove=[[0, 0, 0]]), 'remove only')
    add(Lt.IrregularLattice(reg, remove=[[0, 0, 0]], add=([[0, 0, 2]], [0]), add_unit_cell=[s], add_positions=[[0.5, 0.5]]), 'remove and add')
    add(Lt.HelicalLattice(Lt.Square(2, 3, s, bc=['periodic', -1], bc_MPS='infinite'), 2))
    # segments of lattices and models (bc_MPS 'segment' with the window remembered in segment_first_last), starting at 0 and later
    chain_inf = Lt.Chain(4, s, bc='periodic', bc_MPS='infinite')
    add(chain_inf.extract_segment(enlarge=2), 'segment, enlarge=2 (first == 0)')
    add(chain_inf.extract_segment(0, 5), 'segment first=0 last=5')
    add(chain_inf.extract_segment(2, 9), 'segment first=2 last=9')
    add(Lt.Ladder(3, s, bc='periodic', bc_MPS='infinite').extract_segment(enlarge=2), 'ladder segment')
    M_inf_seg = XXZChain({'L': 2, 'Jxx': 1., 'Jz': 0.5, 'hz': 0.1, 'bc_MPS': 'infinite'})
    add(M_inf_seg.extract_segment(enlarge=3), 'model segment (first == 0)')
    add(M_inf_seg.extract_segment(1, 4), 'model segment first=1')
    add(Lt.MultiSpeciesLattice(Lt.Chain(3, None), [S.FermionSite('N'), S.FermionSite('N')], ['A', 'B']))
    return out


def roundtrip_hdf5(obj, fmt=None):
    import h5py
    from tenpy.tools import hdf5_io
    with tempfile.TemporaryDirectory() as d:
        fn = os.path.join(d, 'x.h5')
        with h5py.File(fn, 'w') as f:
            saver = hdf5_io.Hdf5Saver(f, format_selection={'LegCharge': fmt} if fmt else None)
            saver.save(obj, 'data')
        with h5py.File(fn, 'r') as f:
            return hdf5_io.Hdf5Loader(f).load('data')


STRICT_LEGS = False


def run(rec):
    warnings.simplefilter('ignore')
    rng = np.random.default_rng(rec.seed + 17)
    quick = rec.tier == 'quick'
    found = discover()
    insts = factories(rng)
    rec.rule = ('every class deriving from Hdf5Exportable discovered by reflection over the tenpy package x instances from the factories x '
                "LegCharge format selection {blocks, compact, flat} + pickle; containers (list/tuple/set/dict with str and general keys/range/"
                'dtype/None/scalars/OrderedDict/deque), shared references, self-referential containers; loaded object observationally equal '
                '(recursive comparison of attributes, tensors by dense value, legs by charge per index) and test_sanity() passes; '
                'non-trivial = every instance; classes without a factory are reported in the evidence as uncovered')
    uncovered = sorted(set(found) - set(insts))
    rec.bounds = {'classes_discovered': len(found), 'classes_with_instances': len(set(found) & set(insts)), 'uncovered': uncovered}
    for cname in sorted(insts):
        for obj, note in insts[cname]:
            for fmt in ('blocks', 'compact', 'flat', 'pickle'):
                sig = f'{cname.split(".")[-1]}[{fmt}]'
                inp = {'class': cname, 'instance': note, 'format': fmt}
                rec.begin(f'C17 {inp}')
                if fmt == 'pickle':
                    ok, back = rec.guarded(sig + ':roundtrip-exception', lambda: pickle.loads(pickle.dumps(obj)), inp)
                else:
                    ok, back = rec.guarded(sig + ':roundtrip-exception', lambda: roundtrip_hdf5(obj, fmt), inp)
                rec.case((cname, note, fmt), True, sample=inp if cname.endswith('Array') and fmt == 'blocks' and not note else None)
                if not ok:
                    continue
                globals()['STRICT_LEGS'] = fmt != 'flat'
                diffs = equal(obj, back, cname.split('.')[-1])
                if diffs:
                    rec.violation(sig + ':not-equal', '; '.join(diffs[:4]), inp)
                if hasattr(back, 'test_sanity'):
                    try:
                        back.test_sanity()
                    except Exception as e:
                        rec.violation(sig + ':loaded-object-fails-sanity', f'{type(e).__name__}: {e}'[:200], inp)
    containers(rec, rng)


def containers(rec, rng):
    import tenpy.linalg.np_conserved as npc
    from . import gen
    from tenpy.linalg.charges import ChargeInfo
    shared = gen.random_array(rng, [gen.random_leg(rng, ChargeInfo([1])) for _ in range(2)], float, labels=['x', 'y'])
    objs = {
        'scalars': [1, 2.5, 1 + 2j, True, None, 'text', np.int64(3), np.float64(2.5), np.complex128(1j), np.bool_(True)],
        'nested': {'a': [1, (2, 3), {4, 5}], 'b': {'c': np.arange(4.).reshape(2, 2), 'd': range(2, 10, 3)}, 'dtype': np.dtype('complex128')},
        'general-dict-keys': {(1, 2): 'x', 3: 'y', 'z': [None]},
        'shared-reference': {'first': shared, 'second': shared, 'list': [shared.legs[0], shared.legs[0]]},
        'shared-tuple': (lambda t: {'first': t, 'second': t, 'nested': [t, (t, t)], 'as-key': {t: 'v'}})((1, 'x', 2.5)),
        'OrderedDict': collections.OrderedDict([('b', 1), ('a', [2])]),
        'deque': collections.deque([1, 2, 3], maxlen=5),
        'empty': {'l': [], 't': (), 'd': {}, 's': set()},
    }
    selfref = [1, 2]
    selfref.append(selfref)
    d = {'k': 1}
    d['self'] = d
    objs['self-referential-list'] = selfref
    objs['self-referential-dict'] = d
    for name, obj in objs.items():
        for fmt in ('hdf5', 'pickle'):
            sig = f'container[{name},{fmt}]'
            rec.begin(f'C17 {sig}')
            if fmt == 'pickle':
                ok, back = rec.guarded(sig + ':roundtrip-exception', lambda: pickle.loads(pickle.dumps(obj)), {'container': name})
            else:
                ok, back = rec.guarded(sig + ':roundtrip-exception', lambda: roundtrip_hdf5(obj), {'container': name})
            rec.case(('container', name, fmt), True)
            if not ok:
                continue
            if name == 'self-referential-list':
                rec.check(isinstance(back, list) and back[2] is back and back[:2] == [1, 2], sig + ':self-reference-lost', '')
            elif name == 'self-referential-dict':
                rec.check(isinstance(back, dict) and back['self'] is back and back['k'] == 1, sig + ':self-reference-lost', '')
            else:
                diffs = equal(obj, back, name)
                if diffs:
                    rec.violation(sig + ':not-equal', '; '.join(diffs[:4]), {'container': name})
                if name == 'shared-tuple':
                    rec.check(isinstance(back['first'], tuple) and back['first'] is back['second'] and back['nested'][0] is back['first'],
                              sig + ':sharing-lost', 'a tuple referenced several times is not the same tuple after loading')
                if name == 'shared-reference':
                    rec.check(back['first'] is back['second'] and back['list'][0] is back['list'][1], sig + ':sharing-lost',
                              'objects shared by reference before saving are distinct after loading')
