"""Bounded stand-in for C20: the real cache classes (all storage classes, with and without the worker
thread, sub-caches) and the real EventHandler against their sequential models, on random histories.

Bound: histories of <= 10 operations over 3 keys; every call under a deadline (a hang is a violation).
"""
import random
import threading
import warnings


def _run_with_deadline(fn, secs=20):
    res = {}

    def target():
        try:
            res['v'] = fn()
        except BaseException as e:   # noqa
            res['e'] = e
    t = threading.Thread(target=target, daemon=True)
    t.start()
    t.join(secs)
    if t.is_alive():
        return 'hang', None
    if 'e' in res:
        return 'exc', res['e']
    return 'ok', res.get('v')


def cache_history(rec, rng, storage_class, threaded, n_ops):
    from tenpy.tools.cache import CacheFile
    import numpy as np
    keys = ['a', 'b', 'c']
    hist = []
    model = {}
    sub_model = {}
    kwargs = {}
    if storage_class == 'Hdf5Storage':
        kwargs = {}
    cache = CacheFile.open(storage_class=storage_class, use_threading=threaded, **kwargs)
    sig_base = f'cache[{storage_class},thr={threaded}]'

    def body():
        with cache:
            sub = None
            for step in range(n_ops):
                op = rng.choice(['set', 'set', 'get', 'get', 'del', 'preload', 'stk', 'contains', 'getd', 'len', 'sub'])
                k = rng.choice(keys)
                if op == 'set':
                    v = rng.randrange(1000)
                    hist.append(('set', k, v))
                    cache[k] = np.array([v, step])
                    model[k] = (v, step)
                elif op == 'get':
                    hist.append(('get', k))
                    try:
                        got = cache[k]
                        got = tuple(int(x) for x in got)
                        if k not in model:
                            return f'get({k!r}) returned {got} for a key that is not in the cache'
                        if got != model[k]:
                            return f'get({k!r}) returned {got}, latest value written is {model[k]}'
                    except KeyError:
                        if k in model:
                            return f'get({k!r}) raised KeyError, value {model[k]} was written'
                elif op == 'getd':
                    hist.append(('get_default', k))
                    got = cache.get(k, None)
                    if (got is None) != (k not in model):
                        return f'get({k!r}, None) -> {got!r}, model has {model.get(k)}'
                    if got is not None and tuple(int(x) for x in got) != model[k]:
                        return f'get({k!r}, None) returned {tuple(got)}, latest value written is {model[k]}'
                elif op == 'del':
                    hist.append(('del', k))
                    del cache[k]
                    model.pop(k, None)
                elif op == 'preload':
                    ks = rng.sample(keys, rng.randint(1, 3))
                    hist.append(('preload', ks))
                    cache.preload(*ks)
                elif op == 'stk':
                    ks = rng.sample(keys, rng.randint(0, 3))
                    hist.append(('set_short_term_keys', ks))
                    cache.set_short_term_keys(*ks)
                elif op == 'contains':
                    hist.append(('contains', k))
                    if (k in cache) != (k in model):
                        return f'{k!r} in cache == {k in cache}, model {k in model}'
                elif op == 'len':
                    hist.append(('len',))
                    if len(cache) != len(model) or set(cache) != set(model):
                        return f'len/iter {len(cache)} {sorted(cache)}, model {sorted(model)}'
                elif op == 'sub':
                    hist.append(('subcache-set-get', k))
                    if sub is None:
                        sub = cache.create_subcache('sub')
                    v = rng.randrange(1000)
                    sub[k] = np.array([v])
                    sub_model[k] = v
                    if int(sub[k][0]) != v:
                        return 'sub-cache read does not return the value written'
                    if (k in cache) != (k in model):
                        return 'writing to a sub-cache changed the parent'
                    for kk in model:
                        if tuple(int(x) for x in cache[kk]) != model[kk]:
                            return f'writing to a sub-cache changed the parent value of {kk!r}'
            # final read-back of everything
            for kk in keys:
                if kk in model:
                    got = tuple(int(x) for x in cache[kk])
                    if got != model[kk]:
                        return f'final read of {kk!r}: {got} != {model[kk]}'
                elif kk in cache:
                    return f'{kk!r} in cache at the end but was deleted/never set'
        return None
    st, val = _run_with_deadline(body)
    desc = {'storage': storage_class, 'threaded': threaded, 'history': hist}
    if st == 'hang':
        rec.violation(f'{sig_base}:hang', 'operation did not finish within the deadline (deadlock?)', desc)
    elif st == 'exc':
        rec.violation(f'{sig_base}:exception:{type(val).__name__}', repr(val), desc)
    elif val is not None:
        rec.violation(f'{sig_base}:dict-semantics', val, desc)
    return desc


class DeferredWorker:
    """Deterministic stand-in for the I/O thread (task-granular deferred-execution model, DESIGN C20):
    the worker is a FIFO queue of tasks; at each observation point of the caller an arbitrary prefix of the queue has run.
    mode 'eager': every task runs at once; 'lazy': tasks run only at join_tasks(); 'random': a random prefix runs at every put."""

    def __init__(self, mode, rng):
        self.mode, self.rng, self.queue = mode, rng, []

    def _run(self, n):
        for _ in range(n):
            fct, args, kwargs, rd, rk = self.queue.pop(0)
            res = fct(*args, **kwargs)
            if rd is not None:
                rd[rk] = res

    def put_task(self, fct, *args, return_dict=None, return_key=None, **kwargs):
        self.queue.append((fct, args, kwargs, return_dict, return_key))
        if self.mode == 'eager':
            self._run(len(self.queue))
        elif self.mode == 'random':
            self._run(int(self.rng.integers(0, len(self.queue) + 1)) if hasattr(self.rng, 'integers') else self.rng.randint(0, len(self.queue)))

    def join_tasks(self):
        self._run(len(self.queue))

    def __enter__(self):
        return self

    def __exit__(self, *a):
        self._run(len(self.queue))


def deferred_history(rec, rng, mode, n_ops, storage_class='PickleStorage'):
    """histories on ThreadedStorage with the deterministic worker: covers the schedules the OS rarely produces"""
    from tenpy.tools import cache as C
    import numpy as np
    disk = getattr(C, storage_class).open()
    worker = DeferredWorker(mode, rng)
    st = C.ThreadedStorage(worker, disk)
    st._owns_resources = True
    cache = C.CacheFile(st)
    keys = ['a', 'b', 'c']
    model, hist = {}, []
    err = None
    try:
        for step in range(n_ops):
            op = rng.choice(['set', 'set', 'get', 'get', 'del', 'preload', 'preload', 'stk', 'getd'])
            k = rng.choice(keys)
            if op == 'set':
                v = rng.randrange(1000)
                hist.append(('set', k, v))
                cache[k] = np.array([v, step])
                model[k] = (v, step)
            elif op in ('get', 'getd'):
                hist.append((op, k))
                try:
                    got = cache[k] if op == 'get' else cache.get(k, None)
                    if got is None:
                        if k in model:
                            err = f'get({k!r}, None) -> None but {model[k]} was written'
                    else:
                        got = tuple(int(x) for x in got)
                        if k not in model or got != model[k]:
                            err = f'{op}({k!r}) returned {got}, latest value written is {model.get(k)}'
                except KeyError:
                    if k in model:
                        err = f'get({k!r}) raised KeyError, value {model[k]} was written'
            elif op == 'del':
                hist.append(('del', k))
                del cache[k]
                model.pop(k, None)
            elif op == 'preload':
                ks = rng.sample(keys, rng.randint(1, 3))
                hist.append(('preload', ks))
                cache.preload(*ks)
            elif op == 'stk':
                ks = rng.sample(keys, rng.randint(0, 3))
                hist.append(('set_short_term_keys', ks))
                cache.set_short_term_keys(*ks)
            if err:
                break
        if not err:
            for kk in keys:
                if kk in model and tuple(int(x) for x in cache[kk]) != model[kk]:
                    err = f'final read of {kk!r} differs from the latest value written'
    except Exception as e:
        err = f'exception {type(e).__name__}: {e}'
    finally:
        try:
            cache.close()
        except Exception:
            pass
    desc = {'storage': storage_class, 'worker_schedule': mode, 'history': hist}
    if err:
        rec.violation(f'cache[{storage_class},deferred-worker={mode}]:dict-semantics', err, desc)
    return desc


def subcache_tree(rec, rng):
    """nested sub-caches are isolated from each other and from their parents, for every storage class: names are reused across
    levels (a sub-cache named like its parent, like a sibling of its parent, like a data key one level up), values differ everywhere,
    everything is read back from every node at the end"""
    from tenpy.tools.cache import CacheFile
    import numpy as np
    for sc in ['Storage', 'PickleStorage', 'Hdf5Storage']:
        for thr in ([False] if sc == 'Storage' else [False, True]):
            steps = []

            def body():
                c = CacheFile.open(storage_class=sc, use_threading=thr)
                models = {}
                nodes = {}
                counter = [0]

                def put(path, key):
                    counter[0] += 1
                    steps.append(('set', path, key, counter[0]))
                    nodes[path][key] = np.array([counter[0]])
                    models[path][key] = counter[0]

                def sub(path, name):
                    steps.append(('create_subcache', path, name))
                    nodes[path + (name,)] = nodes[path].create_subcache(name)
                    models[path + (name,)] = {}
                with c:
                    nodes[()] = c
                    models[()] = {}
                    put((), 'x')
                    put((), 'k')
                    sub((), 'a')
                    sub((), 'b')
                    put(('a',), 'x')
                    sub(('a',), 'a')            # named like its parent
                    sub(('a',), 'b')            # named like a sibling of its parent
                    sub(('a',), 'k2')
                    put(('a', 'a'), 'x')
                    put(('a', 'b'), 'y')
                    put(('b',), 'y')
                    put((), 'k2')               # a data key of the root named like a sub-cache two levels down
                    put(('a', 'k2'), 'z')
                    sub(('a', 'a'), 'a')
                    put(('a', 'a', 'a'), 'x')
                    order = list(models)
                    rng.shuffle(order)
                    for path in order:
                        for key in ('x', 'y', 'z', 'k', 'k2'):
                            exp = models[path].get(key)
                            try:
                                got = int(nodes[path][key][0])
                            except KeyError:
                                got = None
                            if got != exp:
                                return f'sub-cache {"/".join(path) or "<root>"}: key {key!r} reads {got}, written {exp}'
                        if len(nodes[path]) != len(models[path]) if hasattr(nodes[path], '__len__') else False:
                            return f'sub-cache {"/".join(path) or "<root>"}: {len(nodes[path])} keys, written {len(models[path])}'
                return None
            st, val = _run_with_deadline(body)
            rec.case(('subcache-tree', sc, thr))
            desc = {'storage': sc, 'threaded': thr, 'steps': steps}
            if st == 'hang':
                rec.violation(f'cache[{sc},thr={thr}]:subcache-tree:hang', 'did not finish', desc)
            elif st == 'exc':
                rec.violation(f'cache[{sc},thr={thr}]:subcache-tree:exception:{type(val).__name__}', repr(val), desc)
            elif val:
                rec.violation(f'cache[{sc},thr={thr}]:subcache-tree:not-isolated', val, desc)


def closing(rec):
    """closing is clean: everything raises afterwards, double close raises ValueError, no hang."""
    from tenpy.tools.cache import CacheFile
    for sc in ['Storage', 'PickleStorage', 'Hdf5Storage']:
        for thr in ([False] if sc == 'Storage' else [False, True]):
            def body():
                c = CacheFile.open(storage_class=sc, use_threading=thr)
                with c:
                    c['a'] = 1
                    s = c.create_subcache('x')
                    s['b'] = 2
                try:
                    c['a']
                    return 'read after close succeeded'
                except Exception:
                    pass
                return None
            st, val = _run_with_deadline(body)
            rec.case(('close', sc, thr))
            if st == 'hang':
                rec.violation(f'cache[{sc},thr={thr}]:close-hang', 'close did not finish')
            elif st == 'exc':
                rec.violation(f'cache[{sc},thr={thr}]:close-exception', repr(val))
            elif val:
                rec.violation(f'cache[{sc},thr={thr}]:close', val)


def failing_worker(rec):
    """a failing worker surfaces as an error rather than a hang."""
    from tenpy.tools.cache import CacheFile

    class Unpicklable:
        def __reduce__(self):
            raise RuntimeError('cannot pickle me')

    def body():
        c = CacheFile.open(storage_class='PickleStorage', use_threading=True)
        try:
            with c:
                c['a'] = Unpicklable()
                c['b'] = 1
                c['a']
        except Exception as e:
            return 'error:' + type(e).__name__
        return 'no error'
    st, val = _run_with_deadline(body, 30)
    rec.case(('failing-worker',))
    if st == 'hang':
        rec.violation('cache[PickleStorage,thr=True]:failing-worker-hang', 'failing worker task led to a hang')
    elif st == 'ok' and val == 'no error':
        rec.violation('cache[PickleStorage,thr=True]:failing-worker-silent', 'failing save went unnoticed')


def dead_worker_with_queued_task(rec):
    """the schedule in which a task reaches the queue while the worker is dying (its liveness was checked just before, the queue
    was drained just before the put): every later join_tasks() / put_task() must raise WorkerDied and must not block."""
    from tenpy.tools.thread import Worker, WorkerDied

    def boom():
        raise RuntimeError('task fails')

    def body():
        out = []
        w = Worker('verif worker', daemon=True)
        with w:
            w.put_task(boom)
            w.worker_thread.join(10)                      # the worker has drained its queue and terminated
            w.tasks.put((len, ([],), {}, None, None))      # the put of a put_task() whose liveness check was passed a moment earlier
            for name, call in (('join_tasks', w.join_tasks), ('put_task', lambda: w.put_task(len, []))):
                try:
                    call()
                    out.append(name + ':returned')
                except WorkerDied:
                    out.append(name + ':WorkerDied')
        return out
    st, val = _run_with_deadline(body, 15)
    rec.case(('dead-worker-queued-task',))
    if st == 'hang':
        rec.violation('Worker:join_tasks-hangs-on-dead-worker', 'a task was queued while the worker died; join_tasks() blocks forever '
                      'instead of raising WorkerDied')
    elif st == 'exc':
        rec.violation('Worker:dead-worker:exception', repr(val)[:200])
    else:
        rec.check(val == ['join_tasks:WorkerDied', 'put_task:WorkerDied'], 'Worker:dead-worker-not-reported', str(val))


def event_history(rec, rng, n_ops):
    from tenpy.tools.events import EventHandler
    eh = EventHandler('x')
    model = []   # (id, tag, priority)
    hist = []
    log = []
    next_id = 0
    for _ in range(n_ops):
        op = rng.choice(['connect', 'connect', 'disconnect', 'emit', 'emit_until', 'copy'])
        if op == 'connect':
            prio = rng.choice([0, 0, 1, 2, -1])
            tag = next_id
            ret = rng.choice([None, None, tag])

            def cb(x, _tag=tag, _ret=ret, **kw):
                log.append(_tag)
                return _ret
            eh.connect(cb, prio)
            if eh.id_of_last_connected != next_id:
                rec.violation('events:id', f'id_of_last_connected {eh.id_of_last_connected} != {next_id}', hist)
            model.append((next_id, tag, prio, ret))
            hist.append(('connect', next_id, prio, ret))
            next_id += 1
        elif op == 'disconnect':
            if rng.random() < 0.8 and model:
                lid = rng.choice(model)[0]
            else:
                lid = rng.randrange(0, next_id + 2)
            hist.append(('disconnect', lid))
            with warnings.catch_warnings():
                warnings.simplefilter('ignore')
                eh.disconnect(lid)
            model = [m for m in model if m[0] != lid]
        elif op == 'emit':
            hist.append(('emit',))
            del log[:]
            res = eh.emit(1)
            order = sorted(model, key=lambda m: -m[2])
            if log != [m[1] for m in order] or res != [m[3] for m in order]:
                rec.violation('events:emit', f'called {log} results {res}; expected order {[m[1] for m in order]}', list(hist))
                return hist
        elif op == 'emit_until':
            hist.append(('emit_until_result',))
            del log[:]
            res = eh.emit_until_result(1)
            order = sorted(model, key=lambda m: -m[2])
            exp_log, exp_res = [], None
            for m in order:
                exp_log.append(m[1])
                if m[3] is not None:
                    exp_res = m[3]
                    break
            if log != exp_log or res != exp_res:
                rec.violation('events:emit_until_result', f'called {log} -> {res}; expected {exp_log} -> {exp_res}', list(hist))
                return hist
        elif op == 'copy':
            hist.append(('copy+connect-on-copy',))
            cp = eh.copy()
            cp.connect(lambda x: None)
            if len(eh.listeners) != len(model):
                rec.violation('events:copy', 'connect on a copy changed the original', list(hist))
    return hist


def run(rec):
    rng = random.Random(rec.seed)
    quick = rec.tier == 'quick'
    rec.rule = ('random histories of set/get/del/preload/set_short_term_keys/contains/len/sub-cache operations over '
                '3 keys on the real CacheFile for every storage class x threading, compared with a dict; '
                'the same histories on ThreadedStorage with a deterministic worker (FIFO task queue; lazy / random-prefix / eager execution = '
                'task-granular schedules); random connect/disconnect/emit histories on the real EventHandler against a list model; '
                'non-trivial = history with at least one get after a set/del of the same key; distinct = distinct history')
    rec.bounds = {'history_length': 10, 'keys': 3, 'deadline_s': 20}
    configs = [('Storage', False), ('PickleStorage', False), ('PickleStorage', True), ('Hdf5Storage', False),
               ('Hdf5Storage', True)]
    n_hist = 12 if quick else 150
    for sc, thr in configs:
        for i in range(n_hist):
            rec.begin(f'cache history {sc} thr={thr} #{i}')
            d = cache_history(rec, rng, sc, thr, rng.randint(4, 10))
            ops = [h[0] for h in d['history']]
            nontriv = any(o in ('get', 'get_default') for o in ops) and any(o in ('set', 'del') for o in ops)
            rec.case((sc, thr, repr(d['history'])), nontriv, sample=d if i == 0 else None)
    for mode in ('lazy', 'random', 'eager'):
        for i in range(60 if quick else 1500):
            rec.begin(f'cache deferred-worker history mode={mode} #{i}')
            d = deferred_history(rec, rng, mode, rng.randint(4, 10))
            ops = [h[0] for h in d['history']]
            rec.case(('deferred', mode, repr(d['history'])), 'preload' in ops and 'set' in ops and any(o.startswith('get') for o in ops),
                     sample=d if i == 0 and mode == 'lazy' else None)
    closing(rec)
    subcache_tree(rec, rng)
    failing_worker(rec)
    dead_worker_with_queued_task(rec)
    for i in range(60 if quick else 2000):
        rec.begin(f'event history #{i}')
        h = event_history(rec, rng, rng.randint(3, 12))
        rec.case(('ev', repr(h)), any(x[0] == 'disconnect' for x in h), sample={'events': h} if i == 0 else None)
