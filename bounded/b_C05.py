"""Bounded stand-in for C05: run-time contracts of the matrix factorizations over generated charge
structures (rank-deficient / zero / missing blocks, one-sided sectors, non-blocked legs, qtotal != 0,
complex) and all option combinations."""
import itertools
import warnings

import numpy as np

from . import gen


def _matrix(rng, chinfo, dtype, square=False, hermitian=False, deficient=False):
    import tenpy.linalg.np_conserved as npc
    # legs that are already blocked by charge (the factorisations then work on the tensor as it is, without a hidden pipe) or generic
    kind = 'sorted-blocked' if rng.random() < 0.4 else None
    nb = int(rng.integers(3, 5)) if kind else None
    l0 = gen.random_leg(rng, chinfo, nblocks=nb, max_size=3, kind=kind, qconj=(1 if kind else None))
    l1 = l0.conj() if square else gen.random_leg(rng, chinfo, nblocks=nb, max_size=3, kind=kind, qconj=(1 if kind else None))
    a = gen.random_array(rng, [l0, l1], dtype, labels=['r', 'c'], qtotal=None if not square else chinfo.make_valid(),
                         drop_blocks=0.25, zero_blocks=0.15, storage=('shuffled' if kind else None))
    if kind and not square and rng.random() < 0.5:
        a = a.transpose(['c', 'r']).iset_leg_labels(['r', 'c'])      # a transposed tensor: legal, blocks in non-lexicographic order
    if deficient and len(a._data):
        # make one block rank deficient
        b = a._data[rng.integers(0, len(a._data))]
        if b.shape[0] > 1:
            b[1:, :] = b[0:1, :]
    if hermitian:
        a = a + a.conj().transpose(['c*', 'r*']).iset_leg_labels(['r', 'c'])
    return a


def _isometric(x, tol=1e-9):
    d = x.to_ndarray()
    return np.allclose(d.conj().T @ d, np.eye(d.shape[1]), atol=tol)


def check_svd(rec, rng, chinfo, dtype):
    import tenpy.linalg.np_conserved as npc
    a = _matrix(rng, chinfo, dtype, deficient=rng.random() < 0.4)
    A = a.to_ndarray()
    if not np.any(A):
        return   # precondition: svd of an all-zero matrix raises RuntimeError by design ("no singular values")
    for full, qL, iq in itertools.product([False, True], [None, "left", "rand"], [+1, -1]):
        if qL is None:
            qtotal_LR = [None, None]
        elif qL == 'left':
            qtotal_LR = [a.qtotal, None]
        else:
            q = chinfo.make_valid(rng.integers(-1, 2, size=chinfo.qnumber))
            qtotal_LR = [q, None]
        sig = f'svd(full_matrices={full},qtotal_LR={qL},inner_qconj={iq})'
        inp = {'mod': chinfo.mod.tolist(), 'legs': [(l.qconj, l.slices.tolist(), l.charges.tolist()) for l in a.legs],
               'qtotal': a.qtotal.tolist(), 'options': sig}
        ok, res = rec.guarded(sig + ':exception', lambda: npc.svd(a, full_matrices=full, qtotal_LR=qtotal_LR, inner_qconj=iq,
                                                                  inner_labels=['i', 'i*']), inp)
        rec.case(('svd', chinfo.mod.tobytes(), sig, A.shape, len(a._data)), len(a._data) >= 2)
        if not ok:
            continue
        U, S, VH = res
        for name, t in (('U', U), ('VH', VH)):
            bad = gen.sanity(t)
            if bad:
                rec.violation(sig + f':{name}-invariant', bad[0], inp)
        rec.check(np.all(S >= 0), sig + ':S-negative', str(S), inp)
        if full:
            Ud, Vd = U.to_ndarray(), VH.to_ndarray()
            ok_shape = Ud.shape[0] == Ud.shape[1] == A.shape[0] and Vd.shape[0] == Vd.shape[1] == A.shape[1]
            rec.check(ok_shape and np.allclose(Ud.conj().T @ Ud, np.eye(Ud.shape[0]), atol=1e-9)
                      and np.allclose(Vd @ Vd.conj().T, np.eye(Vd.shape[0]), atol=1e-9), sig + ':not-unitary',
                      f'shapes {Ud.shape} {Vd.shape}', inp)
            rec.check(VH.legs[0].qconj == iq, sig + ':inner_qconj', f'{VH.legs[0].qconj}', inp)
            continue
        rec_ = U.to_ndarray() @ np.diag(S) @ VH.to_ndarray()
        rec.check(np.allclose(rec_, A, atol=1e-9 * (1 + np.abs(A).max() if A.size else 1)), sig + ':reconstruction',
                  f'max dev {np.abs(rec_ - A).max() if A.size else 0}', inp)
        rec.check(_isometric(U), sig + ':U-not-isometric', '', inp)
        rec.check(_isometric(VH.conj().transpose()), sig + ':VH-not-isometric', '', inp)
        if qtotal_LR[0] is not None:
            rec.check(np.array_equal(U.qtotal, chinfo.make_valid(qtotal_LR[0])), sig + ':qtotal_U', f'{U.qtotal}', inp)
        rec.check(np.array_equal(chinfo.make_valid(U.qtotal + VH.qtotal), a.qtotal), sig + ':qtotal-sum', '', inp)
        rec.check(VH.legs[0].qconj == iq, sig + ':inner_qconj', f'{VH.legs[0].qconj}', inp)
        try:
            U.legs[1].test_contractible(VH.legs[0])
        except ValueError as e:
            rec.violation(sig + ':not-contractible', str(e), inp)
        # cutoff
    cutoff = 0.5
    if not np.any(np.linalg.svd(A, compute_uv=False) > cutoff):
        return     # nothing above the cutoff: tenpy raises RuntimeError("no singular values") by design
    ok, res = rec.guarded('svd(cutoff):exception', lambda: npc.svd(a, cutoff=cutoff), None)
    if ok:
        U, S, VH = res
        full_S = np.linalg.svd(A, compute_uv=False) if A.size else np.array([])
        rec.check(np.all(S > cutoff) and len(S) == np.sum(full_S > cutoff), 'svd(cutoff):kept-values',
                  f'S={S}, numpy S={full_S}')


def check_qr(rec, rng, chinfo, dtype):
    import tenpy.linalg.np_conserved as npc
    a = _matrix(rng, chinfo, dtype, deficient=rng.random() < 0.3)
    A = a.to_ndarray()
    for mode, pos, iq, lq in itertools.product(['reduced', 'complete'], [False, True], [+1, -1], [False, True]):
        qQ = None if rng.random() < 0.5 else chinfo.make_valid(rng.integers(-1, 2, size=chinfo.qnumber))
        sig = f'{"lq" if lq else "qr"}(mode={mode},pos_diag_R={pos},inner_qconj={iq},qtotal_Q={"set" if qQ is not None else None})'
        inp = {'mod': chinfo.mod.tolist(), 'legs': [(l.qconj, l.slices.tolist(), l.charges.tolist()) for l in a.legs],
               'qtotal': a.qtotal.tolist(), 'options': sig}
        if lq:
            ok, res = rec.guarded(sig + ':exception', lambda: npc.lq(a, mode=mode, pos_diag_L=pos, inner_qconj=iq, qtotal_Q=qQ,
                                                                     inner_labels=['i', 'i*']), inp)
        else:
            ok, res = rec.guarded(sig + ':exception', lambda: npc.qr(a, mode=mode, pos_diag_R=pos, inner_qconj=iq, qtotal_Q=qQ,
                                                                     inner_labels=['i', 'i*']), inp)
        rec.case(('qr', chinfo.mod.tobytes(), sig, A.shape, len(a._data)), len(a._data) >= 2)
        if not ok:
            continue
        if lq:
            L, Q = res
            first, second, tri, iso = L, Q, L, Q.conj().transpose()
        else:
            Q, R = res
            first, second, tri, iso = Q, R, R, Q
        for name, t in (('first', first), ('second', second)):
            bad = gen.sanity(t)
            if bad:
                rec.violation(sig + f':{name}-invariant', bad[0], inp)
        rec_ = first.to_ndarray() @ second.to_ndarray()
        rec.check(rec_.shape == A.shape and np.allclose(rec_, A, atol=1e-9 * (1 + (np.abs(A).max() if A.size else 0))),
                  sig + ':reconstruction', '', inp)
        rec.check(_isometric(iso), sig + ':Q-not-isometric', '', inp)
        if mode == 'complete':
            d = iso.to_ndarray()
            rec.check(d.shape[0] == d.shape[1] and np.allclose(d @ d.conj().T, np.eye(d.shape[0]), atol=1e-9), sig + ':Q-not-unitary',
                      str(d.shape), inp)
        if qQ is not None:
            rec.check(np.array_equal(Q.qtotal, qQ), sig + ':qtotal_Q', f'{Q.qtotal} != {qQ}', inp)
        rec.check(np.array_equal(chinfo.make_valid(first.qtotal + second.qtotal), a.qtotal), sig + ':qtotal-sum', '', inp)
        try:
            first.legs[1].test_contractible(second.legs[0])
        except ValueError as e:
            rec.violation(sig + ':not-contractible', str(e), inp)
        inner = second.legs[0] if not lq else first.legs[1]
        want = iq if not lq else -iq
        rec.check(second.legs[0].qconj == iq if not lq else True, sig + ':inner_qconj', '', inp)
        if pos:
            # triangular with non-negative diagonal, blockwise: check via dense after sorting by the inner leg is involved;
            # weaker run-time clause: every stored block of R (resp. L) has non-negative real diagonal
            _, tri_b = tri.as_completely_blocked()   # the documented structure refers to the charge-blocked form
            for blk in tri_b._data:
                dd = np.diag(blk)
                if not (np.all(np.abs(dd.imag) < 1e-10) and np.all(dd.real > -1e-10)):
                    rec.violation(sig + ':diag-not-positive', str(dd), inp)
                    break


def check_eig(rec, rng, chinfo, dtype):
    import tenpy.linalg.np_conserved as npc
    a = _matrix(rng, chinfo, dtype, square=True, hermitian=True)
    # eigh needs completely blocked legs: go through as_completely_blocked like the library does
    A = a.to_ndarray()
    inp = {'mod': chinfo.mod.tolist(), 'leg': (a.legs[0].qconj, a.legs[0].slices.tolist(), a.legs[0].charges.tolist())}
    for sort in [None, 'm>', '<']:
        ok, res = rec.guarded(f'eigh(sort={sort}):exception', lambda: npc.eigh(a, sort=sort), inp)
        rec.case(('eigh', chinfo.mod.tobytes(), sort, A.shape), len(a._data) >= 2)
        if not ok:
            continue
        W, V = res
        Vd = V.to_ndarray()
        rec.check(np.allclose(A @ Vd, Vd * W[np.newaxis, :], atol=1e-8), f'eigh(sort={sort}):eigenpairs', '', inp)
        rec.check(np.allclose(Vd.conj().T @ Vd, np.eye(len(W)), atol=1e-8), f'eigh(sort={sort}):V-not-unitary', '', inp)
        bad = gen.sanity(V)
        if bad:
            rec.violation(f'eigh(sort={sort}):V-invariant', bad[0], inp)
        ok2, W2 = rec.guarded('eigvalsh:exception', lambda: npc.eigvalsh(a), inp)
        if ok2:
            rec.check(np.allclose(np.sort(W2), np.sort(np.linalg.eigvalsh(A)), atol=1e-8), 'eigvalsh:values', '', inp)
    g = _matrix(rng, chinfo, dtype, square=True)
    G = g.to_ndarray()
    ok, res = rec.guarded('eig:exception', lambda: npc.eig(g), inp)
    if ok:
        W, V = res
        Vd = V.to_ndarray()
        rec.check(np.allclose(G @ Vd, Vd * W[np.newaxis, :], atol=1e-7), 'eig:eigenpairs', '', inp)
    ok, E = rec.guarded('expm:exception', lambda: npc.expm(g), inp)
    if ok:
        import scipy.linalg
        rec.check(np.allclose(E.to_ndarray(), scipy.linalg.expm(G), atol=1e-8), 'expm:value', '', inp)
        rec.check(not gen.sanity(E), 'expm:invariant', str(gen.sanity(E)), inp)


def check_pinv(rec, rng, chinfo, dtype):
    import tenpy.linalg.np_conserved as npc
    a = _matrix(rng, chinfo, dtype, deficient=True)
    A = a.to_ndarray()
    if not np.any(A):
        return
    inp = {'mod': chinfo.mod.tolist(), 'legs': [(l.qconj, l.slices.tolist(), l.charges.tolist()) for l in a.legs]}
    ok, P = rec.guarded('pinv:exception', lambda: npc.pinv(a, cutoff=1e-10), inp)
    rec.case(('pinv', chinfo.mod.tobytes(), A.shape, len(a._data)), len(a._data) >= 2)
    if ok:
        Pd = P.to_ndarray()
        t = 1e-7
        rec.check(np.allclose(A @ Pd @ A, A, atol=t) and np.allclose(Pd @ A @ Pd, Pd, atol=t) and
                  np.allclose((A @ Pd).conj().T, A @ Pd, atol=t) and np.allclose((Pd @ A).conj().T, Pd @ A, atol=t),
                  'pinv:moore-penrose', '', inp)


def check_polar(rec, rng, chinfo, dtype):
    """a == u p (left=False) / a == p u (left=True); u has orthonormal columns resp. rows on the range of a, p is Hermitian and
    positive semi-definite, s are the singular values"""
    import tenpy.linalg.np_conserved as npc
    a = _matrix(rng, chinfo, dtype, deficient=bool(rng.integers(0, 2)))
    A = a.to_ndarray()
    if not np.any(A):
        return
    inp = {'mod': chinfo.mod.tolist(), 'dtype': str(np.dtype(dtype)), 'legs': [(l.qconj, l.slices.tolist(), l.charges.tolist()) for l in a.legs]}
    rec.case(('polar', chinfo.mod.tobytes(), A.shape, len(a._data)), len(a._data) >= 2)
    for left in (False, True):
        tag = f'polar(left={left})'
        ok, res = rec.guarded(f'{tag}:exception', lambda: npc.polar(a, cutoff=1e-12, left=left), dict(inp, left=left))
        if not ok:
            continue
        u, p_, s_ = res
        for nm, x in (('u', u), ('p', p_)):
            bad = gen.sanity(x)
            rec.check(not bad, f'{tag}:{nm}-invariant', str(bad), dict(inp, left=left))
        ok2, prod = rec.guarded(f'{tag}:factors-not-contractible', lambda: (npc.tensordot(p_, u, axes=1) if left else npc.tensordot(u, p_, axes=1)),
                                dict(inp, left=left))
        if ok2:
            rec.check(prod.to_ndarray().shape == A.shape and np.allclose(prod.to_ndarray(), A, atol=1e-8), f'{tag}:reconstruction',
                      f'max dev {np.abs(prod.to_ndarray() - A).max() if prod.to_ndarray().shape == A.shape else "shape"}', dict(inp, left=left))
        P = p_.to_ndarray()
        rec.check(np.allclose(P, P.conj().T, atol=1e-9) and np.linalg.eigvalsh((P + P.conj().T) / 2).min() > -1e-9,
                  f'{tag}:p-hermitian-positive', '', dict(inp, left=left))
        sv = np.linalg.svd(A, compute_uv=False)
        sv = np.sort(sv[sv > 1e-10])
        rec.check(len(s_) == len(sv) and np.allclose(np.sort(np.asarray(s_)), sv, atol=1e-8), f'{tag}:singular-values',
                  f'{np.sort(np.asarray(s_))} vs {sv}', dict(inp, left=left))
        U = u.to_ndarray()
        # u is a partial isometry with the rank of a: u^dagger u (resp. u u^dagger) is a projector of that rank
        G = U.conj().T @ U
        rec.check(np.allclose(G @ G, G, atol=1e-8) and abs(np.trace(G).real - len(sv)) < 1e-7, f'{tag}:u-partial-isometry', '', dict(inp, left=left))
    rec.check(np.allclose(a.to_ndarray(), A), 'polar:operand-changed', '', inp)


def check_orthogonal_columns(rec, rng, chinfo, dtype):
    """orthogonal completion: for a of shape (M, N) with full column rank the result is an (M, M-N) isometry whose columns are
    orthogonal to those of a; its charges make it contractible with a's first leg"""
    import tenpy.linalg.np_conserved as npc
    for attempt in range(6):
        a = _matrix(rng, chinfo, dtype)
        A = a.to_ndarray()
        if A.shape[0] >= A.shape[1] and A.shape[1] >= 1 and np.linalg.matrix_rank(A) == A.shape[1]:
            break
    else:
        # make one with full column rank: an isometry from a QR of a random square matrix, restricted to some columns
        b = _matrix(rng, chinfo, dtype, square=True)
        b = b + 3.0 * npc.eye_like(b, 0, labels=['r', 'c'])
        keep = rng.random(b.shape[1]) < 0.6
        if not keep.any() or np.linalg.matrix_rank(b.to_ndarray()) < b.shape[0]:
            return
        a = b.copy(deep=True)
        a.iproject(keep, 'c')
        A = a.to_ndarray()
    inp = {'mod': chinfo.mod.tolist(), 'dtype': str(np.dtype(dtype)), 'legs': [(l.qconj, l.slices.tolist(), l.charges.tolist()) for l in a.legs],
           'qtotal': a.qtotal.tolist()}
    M, N = A.shape
    rec.case(('orthogonal_columns', chinfo.mod.tobytes(), A.shape, len(a._data)), len(a._data) >= 2 and M > N)
    for new_label in (None, 'new'):
        ok, o = rec.guarded('orthogonal_columns:exception', lambda: npc.orthogonal_columns(a, new_label), dict(inp, new_label=new_label))
        if not ok:
            continue
        bad = gen.sanity(o)
        rec.check(not bad, 'orthogonal_columns:invariant', str(bad), inp)
        O = o.to_ndarray()
        rec.check(O.shape == (M, M - N), 'orthogonal_columns:shape', f'{O.shape} for input {A.shape}', inp)
        rec.check(np.allclose(O.conj().T @ O, np.eye(O.shape[1]), atol=1e-9), 'orthogonal_columns:isometry', '', inp)
        rec.check(O.shape[0] == M and np.allclose(A.conj().T @ O, 0, atol=1e-9), 'orthogonal_columns:orthogonal-to-input', '', inp)
        rec.check(o.get_leg_labels() == [a.get_leg_labels()[0], new_label if new_label is not None else a.get_leg_labels()[1]],
                  'orthogonal_columns:labels', str(o.get_leg_labels()), inp)
        ok2, _ = rec.guarded('orthogonal_columns:not-contractible-with-input', lambda: npc.tensordot(a.conj(), o, axes=[0, 0]), inp)
    rec.check(np.allclose(a.to_ndarray(), A), 'orthogonal_columns:operand-changed', '', inp)


def check_speigs(rec, rng):
    """tools.math.speigs / speigsh (used for the dense corner of sparse diagonalisation): min(k, d) eigenvalues, the extreme ones in
    the requested sense, with eigenvectors satisfying A v = w v when requested"""
    from tenpy.tools import math as tmath
    key = {'LM': lambda w: -np.abs(w), 'SM': lambda w: np.abs(w), 'LR': lambda w: -w.real, 'SR': lambda w: w.real,
           'LA': lambda w: -w.real, 'SA': lambda w: w.real}
    for herm, fn, whichs in ((False, tmath.speigs, ('LM', 'LR', 'SR')), (True, tmath.speigsh, ('LM', 'LA', 'SA'))):
        for d in (1, 2, 3, 5):
            A = rng.standard_normal((d, d)) + 1j * rng.standard_normal((d, d))
            if herm:
                A = A + A.conj().T
            ref = np.linalg.eigvalsh(A) if herm else np.linalg.eigvals(A)
            for k in range(max(1, d - 1), d + 2):          # the dense branch: k >= d - 1
                for which in whichs:
                    for ret_v in (True, False):
                        inp = {'function': fn.__name__, 'd': d, 'k': k, 'which': which, 'return_eigenvectors': ret_v, 'seed': rec.seed}
                        rec.begin(f'C05 {inp}')
                        rec.case((fn.__name__, d, k, which, ret_v), True)
                        ok, res = rec.guarded(f'{fn.__name__}:exception', lambda: fn(A, k, which=which, return_eigenvectors=ret_v), inp)
                        if not ok:
                            continue
                        w = np.asarray(res[0] if ret_v else res)
                        n = min(k, d)
                        exp = ref[np.argsort(key[which](ref), kind='stable')[:n]]
                        good = len(w) == n and np.allclose(np.sort_complex(np.asarray(w, complex)), np.sort_complex(np.asarray(exp, complex)), atol=1e-8)
                        rec.check(good, f'{fn.__name__}(return_eigenvectors={ret_v}):eigenvalues',
                                  f'{len(w)} values {w} vs the {n} extreme ones {exp}', inp)
                        if ret_v and len(w) == n:
                            V = np.asarray(res[1])
                            rec.check(V.shape == (d, n) and np.allclose(A @ V, V * w[np.newaxis, :], atol=1e-8), f'{fn.__name__}:eigenpairs', '', inp)


def run(rec):
    warnings.simplefilter('ignore')
    rng = np.random.default_rng(rec.seed + 5)
    quick = rec.tier == 'quick'
    n = 4 if quick else 60
    rec.rule = ('random rank-2 tensors over generated charge structures (rank deficient / missing / zero blocks, non-blocked '
                'legs, qtotal != 0, complex) x every option combination of svd (reduced), qr/lq, eigh/eigvalsh/eig, expm, pinv, polar (left/right), '
                'orthogonal_columns; '
                'run-time contracts: reconstruction, isometry/unitarity, S >= 0, eigenpairs, Moore-Penrose, sanity + claims of the '
                'factors, requested qtotal, contractible inner legs, inner_qconj; non-trivial = input stores >= 2 blocks')
    rec.bounds = {'matrices_per_chinfo_and_kind': n, 'block_size': '1-3', 'blocks_per_leg': '1-4'}
    for chinfo in gen.chinfos():
        for k in range(n):
            dtype = [np.float64, np.complex128][k % 2]
            for fn in (check_svd, check_qr, check_eig, check_pinv, check_polar, check_orthogonal_columns):
                rec.begin(f'C05 {fn.__name__} chinfo={chinfo.mod} k={k} seed={rec.seed}')
                rec.guarded(f'{fn.__name__}:harness', lambda: fn(rec, rng, chinfo, dtype))
    rec.guarded('check_speigs:harness', lambda: check_speigs(rec, rng))
    if rec.samples == []:
        rec.samples.append({'example': 'svd/qr/eigh/pinv of 2-leg tensors with legs like slices [0,1,3,4], charges [[1],[0],[1]] mod 3'})
