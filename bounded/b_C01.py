"""Bounded stand-in for C01: dense-numpy postcondition of every public tensor operation."""
import warnings
import numpy as np
from . import gen, tensorops


def run(rec, mode='C01'):
    warnings.simplefilter('ignore')
    rng = np.random.default_rng(rec.seed)
    quick = rec.tier == 'quick'
    n_per = 12 if quick else 250
    rec.rule = ('for every public operation in tensorops.OPS x charge structure (0-3 charges, mod 1..5, both directions, '
                'sorted/unsorted/duplicated blocks, missing and zero blocks) x dtype (float/complex/int): '
                'dense(result) == numpy(dense(operands)), labels and qtotal as documented; '
                'non-trivial = at least one operand has >= 2 stored blocks; distinct = (op, structure hash)')
    rec.bounds = {'rank': '1-4', 'blocks_per_leg': '1-4', 'block_size': '1-3', 'cases_per_op_and_chinfo': n_per}
    dtypes = [np.float64, np.complex128, np.int64]
    for op in tensorops.OPS:
        for ci, chinfo in enumerate(gen.chinfos()):
            for k in range(n_per if ci < 4 else max(2, n_per // 3)):
                dtype = dtypes[k % 3]
                rec.begin(f'{op.__name__} chinfo={chinfo.mod} dtype={np.dtype(dtype).name} seed={rec.seed} k={k}')
                ok, c = rec.guarded(f'{op.__name__}:exception', lambda: op(rng, chinfo, dtype),
                                    {'op': op.__name__, 'mod': chinfo.mod.tolist(), 'dtype': str(np.dtype(dtype))})
                if not ok or c is None:
                    continue
                pre = [gen.fingerprint(a) for a in c.operands]
                struct = tuple((tuple(a.shape), len(a._data)) for a in c.operands)
                rec.case((op.__name__, chinfo.mod.tobytes(), struct), any(len(a._data) >= 2 for a in c.operands),
                         sample={'op': c.name, 'mod': chinfo.mod.tolist(), 'shapes': [a.shape for a in c.operands],
                                 'blocks': [len(a._data) for a in c.operands]} if k == 0 and ci == 1 else None)
                inp = {'op': c.name, 'mod': chinfo.mod.tolist(), 'dtype': str(np.dtype(dtype)),
                       'legs': [[(l.qconj, l.slices.tolist(), l.charges.tolist()) for l in a.legs] for a in c.operands]}
                if mode in ('C01',):
                    for sig, det in tensorops.check_case(c, dtype):
                        rec.violation(sig, det, inp)
    zero_size_blocks(rec, rng)


ZERO_SNIPPET = r"""
import numpy as np, warnings, sys
warnings.simplefilter('ignore')
import tenpy.linalg.np_conserved as npc
from tenpy.linalg.charges import LegCharge, ChargeInfo
leg = LegCharge(ChargeInfo([1]), [0, 2, 2, 3], [[0], [1], [2]], 1)
b = npc.Array.from_func(np.ones, [leg, leg.conj()], labels=['a', 'b'])   # stores the zero-size block [1, 1]
b.test_sanity()
op = sys.argv[1]
if op == 'tensordot':
    r = npc.tensordot(b, b, axes=[1, 0]).to_ndarray()
    exp = b.to_ndarray() @ b.to_ndarray()
elif op == 'inner':
    r = npc.inner(b, b, axes='range', do_conj=True)
    exp = np.sum(b.to_ndarray() ** 2)
elif op == 'add':
    r = (b + b).to_ndarray(); exp = 2 * b.to_ndarray()
elif op == 'transpose':
    r = b.transpose().to_ndarray(); exp = b.to_ndarray().T
elif op == 'combine':
    r = b.combine_legs([[0, 1]]).split_legs([0]).to_ndarray(); exp = b.to_ndarray()
elif op == 'trace':
    r = npc.trace(b); exp = np.trace(b.to_ndarray())
print('OK' if np.allclose(r, exp) else 'MISMATCH')
"""


def zero_size_blocks(rec, rng):
    """legs with an empty charge block (slices [0,2,2,3]; 'empty' blocks are named in the statement).
    Each operation runs in its own interpreter: the compiled kernels can die with a signal here."""
    import subprocess
    import sys
    for op in ['transpose', 'add', 'combine', 'trace', 'tensordot', 'inner']:
        rec.begin(f'zero-size stored block: {op}')
        p = subprocess.run([sys.executable, '-c', ZERO_SNIPPET, op], capture_output=True, text=True, timeout=120)
        rec.case(('zero-size', op))
        inp = {'leg_slices': [0, 2, 2, 3], 'constructor': 'Array.from_func(np.ones, [leg, leg.conj()])', 'op': op}
        if p.returncode < 0:
            rec.violation(f'{op}(zero-size stored block):signal{-p.returncode}', 'interpreter killed by a signal', inp)
        elif p.returncode != 0:
            rec.violation(f'{op}(zero-size stored block):exception', p.stderr.strip().splitlines()[-1][:200], inp)
        elif 'OK' not in p.stdout:
            rec.violation(f'{op}(zero-size stored block):dense', 'differs from numpy', inp)
