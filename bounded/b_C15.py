"""Bounded stand-in for C15: truncate() against an independent statement of the option lattice by
brute-force enumeration of all cuts, over all spectra of length <= 5 on a value grid (degeneracies, zeros,
unnormalised, unsorted) x the full option grid incl. None; truncated decompositions reproduce the
matrix with squared relative error equal to the reported error."""
import itertools
import math
import warnings

import numpy as np


def spec_truncate(S, chi_max, chi_min, deg_tol, svd_min, trunc_cut):
    """independent specification: returns (number kept, sorted kept values, eps, norm_new)"""
    n = len(S)
    s = np.sort(np.where(S <= 0., 1e-100, S))          # ascending, non-positive values replaced as documented
    orig = np.sort(S)
    logs = np.log(s)

    def Pmax(c):
        return chi_max is None or n - c <= chi_max

    def Pmin(c):
        return chi_min is None or chi_min <= 1 or n - c >= chi_min

    def Pdeg(c):
        return (not deg_tol) or c == 0 or logs[c] - logs[c - 1] >= deg_tol

    def Psvd(c):
        return svd_min is None or logs[c] >= math.log(svd_min)

    def Ptc(c):
        return trunc_cut is None or np.sum(orig[np.argsort(np.where(orig <= 0., 1e-100, orig), kind='stable')][:c + 1] ** 2) > trunc_cut ** 2
    active = []
    for P in (Pmax, Pmin, Pdeg, Psvd, Ptc):
        if any(all(Q(c) for Q in active + [P]) for c in range(n)):
            active.append(P)
    cut = min(c for c in range(n) if all(Q(c) for Q in active))
    srt = np.sort(S)      # ascending by actual value (ties arbitrary)
    kept = srt[cut:]
    disc = srt[:cut]
    return n - cut, kept, float(np.sum(disc ** 2)), float(np.sqrt(np.sum(kept ** 2)))


def run(rec):
    warnings.simplefilter('ignore')
    from tenpy.linalg.truncation import truncate, svd_theta, TruncationError
    import tenpy.linalg.np_conserved as npc
    from . import gen
    rng = np.random.default_rng(rec.seed + 15)
    quick = rec.tier == 'quick'
    grid = [0.0, 0.1, 0.3, 0.3, 0.5, 0.8]
    maxlen = 4 if quick else 5
    opt_grid = {
        'chi_max': [None, 1, 2, 3],
        'chi_min': [None, 1, 2, 3],
        'degeneracy_tol': [None, 1e-6, 0.6],
        'svd_min': [None, 1e-14, 0.2, 0.45],
        'trunc_cut': [None, 1e-14, 0.35, 0.6],
    }
    rec.rule = ('all multisets of values from the grid {0, .1, .3, .3, .5, .8} (exact degeneracies, zeros, unnormalised) of length '
                f'1..{maxlen} in a random order x the full option grid (chi_max, chi_min, degeneracy_tol, svd_min, trunc_cut incl. None): '
                'number kept, kept multiset, norm_new and err.eps equal the brute-force specification (constraints in documented priority, '
                'unsatisfiable constraints ignored, keep as many as allowed); T1: no discarded value exceeds a kept one; '
                'non-trivial = at least one value is discarded')
    rec.bounds = {'spectrum_length': maxlen, 'value_grid': sorted(set(grid)), 'option_grid': {k: [str(x) for x in v] for k, v in opt_grid.items()}}
    rec.exhaustive = True
    keys = list(opt_grid)
    combos = list(itertools.product(*[opt_grid[k] for k in keys]))
    if quick:
        combos = [combos[i] for i in rng.choice(len(combos), size=160, replace=False)]
        rec.exhaustive = False
    vals = sorted(set(grid))
    for n in range(1, maxlen + 1):
        for multi in itertools.combinations_with_replacement(vals, n):
            S = np.array(multi, dtype=float)
            if not np.any(S > 0):
                continue
            S = S[rng.permutation(n)]
            for combo in combos:
                opts = dict(zip(keys, combo))
                inp = {'S': S.tolist(), 'options': {k: v for k, v in opts.items()}}
                rec.begin(f'C15 truncate {inp}')
                try:
                    mask, norm_new, err = truncate(S.copy(), dict(opts))
                except Exception as e:
                    rec.violation('truncate:exception:' + type(e).__name__, str(e)[:150], inp)
                    continue
                nk, kept, eps, nn = spec_truncate(S, opts['chi_max'], opts['chi_min'], opts['degeneracy_tol'], opts['svd_min'], opts['trunc_cut'])
                got_kept = np.sort(S[mask])
                rec.case((tuple(S.tolist()), combo), nk < n, sample=inp if n == 3 and combo == combos[0] and multi == (0.1, 0.3, 0.5) else None)
                if int(np.sum(mask)) != nk or not np.allclose(got_kept, kept):
                    rec.violation('truncate:constraints', f'kept {got_kept.tolist()}, specification keeps {kept.tolist()}', inp)
                    continue
                disc = S[~mask]
                if len(disc) and len(got_kept) and disc.max() > got_kept.min() + 1e-15:
                    rec.violation('truncate:discards-larger-value', f'discarded {disc.max()} kept {got_kept.min()}', inp)
                if abs(norm_new - nn) > 1e-12 or abs(err.eps - eps) > 1e-12 or abs(err.ov - (1 - 2 * eps)) > 1e-12:
                    rec.violation('truncate:reported-error', f'norm_new {norm_new} (spec {nn}), eps {err.eps} (spec {eps}), ov {err.ov}', inp)
    # --- truncated decompositions: squared relative error == reported error, using the renormalization factor
    for chinfo in gen.chinfos()[:5]:
        for k in range(4 if quick else 40):
            l0, l1 = gen.random_leg(rng, chinfo, max_size=3), gen.random_leg(rng, chinfo, max_size=3)
            a = gen.random_array(rng, [l0, l1], [np.float64, np.complex128][k % 2], labels=['vL', 'vR'], drop_blocks=0.1, zero_blocks=0.)
            A = a.to_ndarray()
            if not np.any(A):
                continue
            for tp in ({'chi_max': 2, 'svd_min': 1e-14}, {'chi_max': 100, 'svd_min': 0.3}, {'chi_max': 3, 'trunc_cut': 0.4, 'svd_min': None},
                       {'chi_max': 100, 'svd_min': None, 'trunc_cut': None}):
                inp = {'mod': chinfo.mod.tolist(), 'shape': A.shape, 'trunc_par': tp}
                rec.begin(f'C15 svd_theta {inp}')
                ok, res = rec.guarded('svd_theta:exception', lambda: svd_theta(a, dict(tp)), inp)
                rec.case(('svd_theta', chinfo.mod.tobytes(), k, str(tp)), True)
                if not ok:
                    continue
                U, S, VH, err, ren = res
                rec.check(abs(np.linalg.norm(S) - 1) < 1e-12, 'svd_theta:S-not-normalized', str(np.linalg.norm(S)), inp)
                approx = ren * (U.to_ndarray() * S[np.newaxis, :]) @ VH.to_ndarray()
                rel2 = np.linalg.norm(A - approx) ** 2 / np.linalg.norm(A) ** 2
                rec.check(abs(rel2 - err.eps) < 1e-10, 'svd_theta:error-not-exact', f'squared relative error {rel2}, reported eps {err.eps}', inp)
                sfull = np.linalg.svd(A, compute_uv=False)
                rec.check(abs(ren - np.linalg.norm(sfull) * np.sqrt(max(0., 1 - err.eps))) < 1e-10, 'svd_theta:renormalization',
                          f'{ren}', inp)
    eigh_rho_checks(rec, rng, quick)
    qr_based_checks(rec, rng, quick)


def eigh_rho_checks(rec, rng, quick):
    """truncated eigen-decomposition of a (not normalised) positive matrix: kept pairs are eigenpairs, the kept eigenvalues are the
    original ones rescaled by exactly 1 / (1 - eps) (so that the trace is kept), eps is the discarded fraction of the trace"""
    import tenpy.linalg.np_conserved as npc
    from tenpy.linalg.truncation import eigh_rho
    from . import gen
    for chinfo in gen.chinfos()[:5]:
        for k in range(3 if quick else 30):
            leg = gen.random_leg(rng, chinfo, max_size=3)
            dtype = [np.float64, np.complex128][k % 2]
            x = gen.random_array(rng, [leg, gen.random_leg(rng, chinfo, max_size=3)], dtype, labels=['a', 'b'], drop_blocks=0.1, zero_blocks=0.)
            rho = npc.tensordot(x, x.conj(), axes=['b', 'b*']) * float(rng.uniform(0.3, 3.))      # positive, trace != 1
            R = rho.to_ndarray()
            tr = np.trace(R).real
            if tr < 1e-8:
                continue
            lam_all = np.linalg.eigvalsh(R)
            for tp in ({'chi_max': 2, 'svd_min': 1e-14}, {'chi_max': 100, 'svd_min': 0.35}, {'chi_max': 100, 'svd_min': None, 'trunc_cut': None}):
                inp = {'mod': chinfo.mod.tolist(), 'shape': R.shape, 'trace': tr, 'trunc_par': tp}
                rec.begin(f'C15 eigh_rho {inp}')
                ok, res = rec.guarded('eigh_rho:exception', lambda: eigh_rho(rho, dict(tp)), inp)
                rec.case(('eigh_rho', chinfo.mod.tobytes(), k, str(tp)), True)
                if not ok:
                    continue
                W, V, err = res
                Vd = V.to_ndarray()
                rec.check(np.allclose(Vd.conj().T @ Vd, np.eye(Vd.shape[1]), atol=1e-10), 'eigh_rho:V-not-isometric', '', inp)
                lam = np.einsum('ij,ij->j', Vd.conj(), R @ Vd).real                 # Rayleigh quotients of the kept vectors
                rec.check(np.allclose(R @ Vd, Vd * lam[np.newaxis, :], atol=1e-9 * max(1, tr)), 'eigh_rho:not-eigenvectors', '', inp)
                eps = 1. - np.sum(lam) / tr
                rec.check(abs(eps - err.eps) < 1e-10, 'eigh_rho:error-not-exact', f'discarded fraction of the trace {eps}, reported eps {err.eps}', inp)
                rec.check(abs(np.sum(W) - tr) < 1e-10 * max(1, tr), 'eigh_rho:trace-not-kept', f'sum(W) = {np.sum(W)}, trace(rho) = {tr}', inp)
                rec.check(np.allclose(W * (1 - err.eps), lam, atol=1e-10 * max(1, tr)), 'eigh_rho:eigenvalues-not-rescaled-by-1/(1-eps)',
                          f'W = {W}, kept eigenvalues {lam}, eps {err.eps}', inp)
                approx = (Vd * W[np.newaxis, :]) @ Vd.conj().T
                full = (Vd * lam[np.newaxis, :]) @ Vd.conj().T
                rec.check(np.allclose(approx, full / (1 - err.eps), atol=1e-9 * max(1, tr)), 'eigh_rho:reconstruction', '', inp)


def qr_based_checks(rec, rng, quick):
    """decompose_theta_qr_based (the truncation step of QR-based TEBD): theta ~= renormalization * T_L S T_R with the reported error equal
    to the squared relative reconstruction error - also when the projection onto the (slightly expanded) old bond itself loses weight
    (old bond much smaller than the rank of theta, small `expand`), with and without charges, both directions, both SVD variants"""
    import tenpy.linalg.np_conserved as npc
    from tenpy.linalg import truncation
    for conserve in (False, True):
        for k in range(2 if quick else 12):
            chi_out, d = int(rng.integers(4, 8)), 2
            if conserve:
                chinfo = npc.ChargeInfo([1])
                p = npc.LegCharge.from_qflat(chinfo, [[0], [1]])
                v_out = npc.LegCharge.from_qflat(chinfo, [[0]] * (chi_out // 2) + [[1]] * (chi_out - chi_out // 2))
                v_old = npc.LegCharge.from_qflat(chinfo, [[0], [1]])
            else:
                chinfo = npc.ChargeInfo()
                p = npc.LegCharge.from_trivial(d, chinfo)
                v_out = npc.LegCharge.from_trivial(chi_out, chinfo)
                v_old = npc.LegCharge.from_trivial(int(rng.integers(1, 3)), chinfo)
            theta = npc.Array.from_func(rng.normal, [v_out, p, p.conj(), v_out.conj()], shape_kw='size', labels=['vL', 'p0', 'p1', 'vR'])
            theta = (theta * float(rng.uniform(0.5, 2.))).combine_legs([['vL', 'p0'], ['p1', 'vR']])
            if npc.norm(theta) < 1e-12:
                continue
            q0 = chinfo.make_valid()
            for move_right in (True, False):
                for use_eig in (False, True):
                    for chi_max in (None, 2, 3):
                        inp = {'charges': conserve, 'chi_out': chi_out, 'old_bond': v_old.ind_len, 'move_right': move_right, 'use_eig_based_svd': use_eig,
                               'chi_max': chi_max, 'seed': rec.seed, 'k': k}
                        rec.begin(f'C15 decompose_theta_qr_based {inp}')
                        rec.case(('qr-based', conserve, k, move_right, use_eig, chi_max), True)
                        ok, res = rec.guarded('decompose_theta_qr_based:exception', lambda: truncation.decompose_theta_qr_based(
                            old_qtotal_L=q0, old_qtotal_R=q0, old_bond_leg=v_old, theta=theta, move_right=move_right, expand=0.1, min_block_increase=1,
                            use_eig_based_svd=use_eig, trunc_params={'chi_max': chi_max, 'svd_min': 1e-12}, compute_err=True, return_both_T=True), inp)
                        if not ok:
                            continue
                        T_L, S, T_R, form, err, renorm = res
                        T_L = T_L.replace_label('(vL.p)', '(vL.p0)')
                        T_R = T_R.replace_label('(p.vR)', '(p1.vR)')
                        approx = renorm * npc.tensordot(T_L.scale_axis(S, 'vR') if list(form) == ['A', 'B'] else T_L, T_R, ['vR', 'vL'])
                        actual = float((npc.norm(theta - approx) / npc.norm(theta)) ** 2)
                        tol_ = 1e-9 if not use_eig else 1e-6        # (the eigen-decomposition based SVD is documented as less accurate)
                        rec.check(abs(actual - err.eps) <= tol_ * max(1., actual), 'decompose_theta_qr_based:reported-error',
                                  f'reported eps {err.eps}, squared relative reconstruction error {actual}', inp)
                        rec.check(abs(np.linalg.norm(S) - 1) < 1e-9 and (chi_max is None or len(S) <= chi_max), 'decompose_theta_qr_based:S',
                                  f'|S| = {np.linalg.norm(S)}, {len(S)} values for chi_max {chi_max}', inp)
