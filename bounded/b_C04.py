"""Bounded stand-in for C04: the same operation programs executed under both configurations
(extension rebuilt from the current .pyx  vs  TENPY_NO_CYTHON=1) in two interpreter processes;
results compared: legs, labels, total charge, block structure, values to 1e-12, or the same class of error.
Also checks that the 'compiled' process really runs compiled kernels and the other one does not."""
import json
import os
import subprocess
import sys
import tempfile
import warnings

import numpy as np

from . import gen, tensorops


def _num(x):
    x = np.asarray(x)
    # precision class of the values (single precision results differ by summation order at the 1e-7 relative level;
    # "equal up to floating-point tolerance" is judged in the precision the values were computed in)
    single = x.dtype.kind in 'fc' and x.dtype.itemsize // (2 if x.dtype.kind == 'c' else 1) < 8
    x = x.astype(complex)
    return {'__num__': [list(x.shape), x.real.ravel().tolist(), x.imag.ravel().tolist()], 'single': bool(single)}


def _same(u, v):
    if isinstance(u, dict) and '__num__' in u:
        if not (isinstance(v, dict) and '__num__' in v):
            return False
        a, b = u['__num__'], v['__num__']
        rtol, atol = (1e-4, 1e-4) if (u.get('single') or v.get('single')) else (1e-9, 1e-10)
        scale = max([1.] + [abs(t) for t in a[1]] + [abs(t) for t in a[2]])
        return a[0] == b[0] and np.allclose(a[1], b[1], rtol=rtol, atol=atol * scale) and np.allclose(a[2], b[2], rtol=rtol, atol=atol * scale)
    if isinstance(u, list) and isinstance(v, list) and len(u) == len(v) and u and isinstance(u[0], dict):
        return all(_same(x, y) for x, y in zip(u, v))
    return u == v


def digest_case(c):
    import tenpy.linalg.np_conserved as npc
    if hasattr(c, 'error_classes'):
        return {'err': str(c.error_classes[0])}
    r = c.result
    if isinstance(r, npc.Array):
        rs = r.copy(deep=True)
        rs.isort_qdata()
        return {'dense': _num(r.to_ndarray()),
                'labels': list(r.get_leg_labels()), 'qtotal': r.qtotal.tolist(),   # dtype is not part of C04's statement
               
                'qdata': rs._qdata.tolist(), 'legs': [(l.qconj, l.slices.tolist(), l.charges.tolist()) for l in r.legs],
                'operands': [_num(a.to_ndarray()) for a in c.operands]}
    return {'scalar': _num(np.asarray(r))}


def compute(seed, n_per, dtypes):
    warnings.simplefilter('ignore')
    rng = np.random.default_rng(seed + 4)
    out = {}
    for op in tensorops.OPS:
        for ci, chinfo in enumerate(gen.chinfos()):
            for k in range(n_per if ci < 4 else max(1, n_per // 3)):
                dtype = dtypes[k % len(dtypes)]
                key = f'{op.__name__}|{ci}|{k}'
                state = rng.bit_generator.state
                try:
                    c = op(rng, chinfo, dtype)
                    out[key] = digest_case(c) if c is not None else {'skip': True}
                except Exception as e:
                    out[key] = {'exc': type(e).__name__}
                    # re-synchronise the generator so that later cases stay comparable
                    rng.bit_generator.state = state
                    rng.integers(0, 10, size=7)
    return out


def special_cases():
    """corner inputs of the kernels that exist in both implementations (outcome digests, compared like the programs)"""
    from tenpy.linalg import charges
    out = {}

    def attempt(f):
        try:
            r = f()
            return r.tolist() if hasattr(r, 'tolist') else (list(map(lambda t: t.tolist() if hasattr(t, 'tolist') else str(type(t).__name__), r))
                                                            if isinstance(r, tuple) else r)
        except Exception as e:
            return 'raises ' + type(e).__name__
    for qn in (1, 2):
        ch = charges.ChargeInfo([1] * qn)
        for n in (0, 1, 3):
            q = np.zeros((n, qn), dtype=np.int64)
            leg = charges.LegCharge.from_qflat(ch, q)
            out[f'leg_with_{n}_indices_{qn}_charges|0|0'] = {
                'find_row_differences': attempt(lambda: charges._find_row_differences(q)),
                'is_bunched': attempt(lambda: bool(leg.is_bunched())), 'is_sorted': attempt(lambda: bool(leg.is_sorted())),
                'bunch': attempt(lambda: leg.bunch()[0]), 'sort': attempt(lambda: leg.sort()[0]),
                'map_blocks': attempt(lambda: charges._map_blocks(np.array([0] * n, dtype=np.intp))),
                'make_stride': attempt(lambda: charges._make_stride([2] * max(n, 1), True))}
    # "or the same class of error": charge values outside [0, mod) on a Z_N charge
    for mod, vals in (([3], [0, 1, 2, 3]), ([3], [-1, 0]), ([2, 1], [[2, 5], [0, -7]]), ([4], [4])):
        chm = charges.ChargeInfo(mod)
        q = np.array(vals, dtype=np.int64).reshape(-1, len(mod))
        out[f'invalid_charges_mod{mod}_{np.ravel(vals).tolist()}|0|0'] = {
            'check_valid': attempt(lambda: bool(chm.check_valid(q))),
            'LegCharge.from_qflat': attempt(lambda: (charges.LegCharge.from_qflat(chm, q).test_sanity(), 'ok')[1]),
            'LegCharge.from_qind': attempt(lambda: (charges.LegCharge.from_qind(chm, np.arange(len(q) + 1), q).test_sanity(), 'ok')[1]),
            'check_valid(make_valid)': attempt(lambda: bool(chm.check_valid(chm.make_valid(q))))}
    return out


def which_config():
    import tenpy.linalg.np_conserved as npc
    from tenpy.tools import optimization
    return 'compiled' if type(npc.Array.itranspose).__name__ == 'cython_function_or_method' else 'python'


DT = {'float64': np.float64, 'complex128': np.complex128, 'int64': np.int64, 'float32': np.float32, 'complex64': np.complex64}

if __name__ == '__main__':
    seed, n_per, outfile = int(sys.argv[1]), int(sys.argv[2]), sys.argv[3]
    dts = [DT[x] for x in sys.argv[4].split(',')]
    cases = compute(seed, n_per, dts)
    cases.update(special_cases())
    res = {'config': which_config(), 'cases': cases}
    with open(outfile, 'w') as f:
        json.dump(res, f)
    sys.exit(0)


def run(rec):
    if os.environ.get('VERIF_CONFIG') == 'python':
        return
    quick = rec.tier == 'quick'
    n_per = 16 if quick else 150
    dnames = 'float64,complex128,int64' if quick else 'float64,complex128,int64,float32,complex64'
    rec.rule = ('every operation of tensorops.OPS over generated structures, executed with identical seeds in two interpreter '
                'processes (compiled extension rebuilt from the current .pyx / pure Python); compared: dense values (1e-10), labels, '
                'qtotal, dtype, sorted block structure, legs, or exception class; non-trivial = case produced a tensor result')
    rec.bounds = {'cases_per_op_and_chinfo': n_per, 'dtypes': dnames}
    res = {}
    for cfg in ('compiled', 'python'):
        env = dict(os.environ)
        env.pop('TENPY_NO_CYTHON', None)
        if cfg == 'python':
            env['TENPY_NO_CYTHON'] = '1'
        fd, fn = tempfile.mkstemp(suffix='.json')
        os.close(fd)
        rec.begin(f'C04 differential run, config {cfg}')
        p = subprocess.run([sys.executable, '-m', 'bounded.b_C04', str(rec.seed), str(n_per), fn, dnames], env=env,
                           capture_output=True, text=True, timeout=3600)
        if p.returncode != 0:
            rec.violation(f'differential:{cfg}-process-died', f'rc={p.returncode} {p.stderr[-300:]}')
            os.unlink(fn)
            return
        with open(fn) as f:
            res[cfg] = json.load(f)
        os.unlink(fn)
        rec.check(res[cfg]['config'] == cfg, f'configuration:{cfg}-not-active',
                  f'process started as {cfg} reports itself as {res[cfg]["config"]}')
    a, b = res['compiled']['cases'], res['python']['cases']
    for key in a:
        da, db = a[key], b.get(key)
        nontriv = 'dense' in da
        rec.case(key, nontriv, sample={'case': key, 'compiled': {k: v for k, v in da.items() if k in ('labels', 'qtotal', 'qdata', 'exc', 'err')}}
                 if key.endswith('|1|0') and key.startswith('op_tensordot') else None)
        diff = [k for k in set(da) | set(db or {}) if not _same(da.get(k), (db or {}).get(k))]
        if diff:
            if diff == ['operands'] or 'operands' in diff and len(diff) > 0 and da.get('operands') != (db or {}).get('operands'):
                # operand generation itself differs between the configurations (generators use tenpy functions)
                rec.violation(f'{key.split("|")[0]}:operands-differ', f'case {key}: generated operands differ between configurations')
            else:
                rec.violation(f'{key.split("|")[0]}:configs-differ', f'case {key}: fields {diff} differ: compiled '
                              f'{ {k: str(da.get(k))[:120] for k in diff} } python { {k: str((db or {}).get(k))[:120] for k in diff} }')
