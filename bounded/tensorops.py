"""Run-time contracts of the public tensor operations against dense numpy (shared by C01-C04).

Each case builds real operands over an enumerated/generated charge structure, runs the real tenpy
operation, and returns what the contract needs: the result, the numpy expectation, expected labels /
total charge, and the operands (for the frame conditions of C03).
"""
import numpy as np

from . import gen


def _legs(rng, chinfo, rank, **kw):
    return [gen.random_leg(rng, chinfo, **kw) for _ in range(rank)]


def _labels(rank, prefix='a'):
    return [f'{prefix}{i}' for i in range(rank)]


class Case:
    def __init__(self, name, operands, result, expected, labels=None, qtotal=None, inplace_on=None, note=''):
        self.name, self.operands, self.result, self.expected = name, operands, result, expected
        self.labels, self.qtotal, self.inplace_on, self.note = labels, qtotal, inplace_on, note


def op_tensordot(rng, chinfo, dtype):
    import tenpy.linalg.np_conserved as npc
    ra, rb, nc = rng.integers(1, 4), rng.integers(1, 4), None
    nc = rng.integers(0, min(ra, rb) + 1)
    la = _legs(rng, chinfo, ra)
    a = gen.random_array(rng, la, dtype, labels=_labels(ra, 'a'))
    ax_a = list(rng.permutation(ra)[:nc])
    lb = _legs(rng, chinfo, rb)
    ax_b = list(rng.permutation(rb)[:nc])
    for i, j in zip(ax_a, ax_b):
        lb[j] = la[i].conj()
    b = gen.random_array(rng, lb, dtype, labels=_labels(rb, 'b'))
    r = npc.tensordot(a, b, axes=(ax_a, ax_b))
    exp = np.tensordot(a.to_ndarray(), b.to_ndarray(), axes=(ax_a, ax_b))
    labs = [l for i, l in enumerate(_labels(ra, 'a')) if i not in ax_a] + [l for i, l in enumerate(_labels(rb, 'b')) if i not in ax_b]
    qt = chinfo.make_valid(a.qtotal + b.qtotal)
    return Case('tensordot', [a, b], r, exp, labs if ra + rb - 2 * nc > 0 else None, qt if ra + rb - 2 * nc > 0 else None)


def op_outer(rng, chinfo, dtype):
    import tenpy.linalg.np_conserved as npc
    ra, rb = rng.integers(1, 3), rng.integers(1, 3)
    a = gen.random_array(rng, _legs(rng, chinfo, ra, max_size=2), dtype, labels=_labels(ra, 'a'))
    b = gen.random_array(rng, _legs(rng, chinfo, rb, max_size=2), dtype, labels=_labels(rb, 'b'))
    r = npc.outer(a, b)
    exp = np.multiply.outer(a.to_ndarray(), b.to_ndarray())
    return Case('outer', [a, b], r, exp, _labels(ra, 'a') + _labels(rb, 'b'), chinfo.make_valid(a.qtotal + b.qtotal))


def op_inner(rng, chinfo, dtype):
    import tenpy.linalg.np_conserved as npc
    rk = rng.integers(1, 4)
    la = _legs(rng, chinfo, rk)
    a = gen.random_array(rng, la, dtype, labels=_labels(rk))
    do_conj = bool(rng.integers(0, 2))
    if do_conj:
        b = gen.random_array(rng, la, dtype, qtotal=a.qtotal, labels=_labels(rk))
    else:
        b = gen.random_array(rng, [l.conj() for l in la], dtype, qtotal=chinfo.make_valid(-a.qtotal), labels=_labels(rk))
    perm = list(rng.permutation(rk))
    b2 = b.transpose(perm)
    axes = [list(range(rk)), [perm.index(i) for i in range(rk)]]
    r = npc.inner(a, b2, axes=axes, do_conj=do_conj)
    ad = a.to_ndarray().conj() if do_conj else a.to_ndarray()
    exp = np.tensordot(ad, b2.to_ndarray(), axes=axes)
    return Case(f'inner(do_conj={do_conj})', [a, b2], r, exp)


def op_trace(rng, chinfo, dtype):
    import tenpy.linalg.np_conserved as npc
    rk = rng.integers(2, 5)
    legs = _legs(rng, chinfo, rk)
    i, j = sorted(rng.permutation(rk)[:2])
    legs[j] = legs[i].conj()
    a = gen.random_array(rng, legs, dtype, labels=_labels(rk))
    r = npc.trace(a, i, j)
    exp = np.trace(a.to_ndarray(), axis1=i, axis2=j)
    labs = [l for k, l in enumerate(_labels(rk)) if k not in (i, j)]
    return Case('trace', [a], r, exp, labs if rk > 2 else None, a.qtotal.copy() if rk > 2 else None)


def op_transpose(rng, chinfo, dtype):
    rk = rng.integers(1, 5)
    a = gen.random_array(rng, _legs(rng, chinfo, rk), dtype, labels=_labels(rk))
    perm = list(rng.permutation(rk))
    r = a.transpose(perm)
    return Case('transpose', [a], r, a.to_ndarray().transpose(perm), [_labels(rk)[p] for p in perm], a.qtotal.copy())


def op_conj(rng, chinfo, dtype):
    rk = rng.integers(1, 4)
    a = gen.random_array(rng, _legs(rng, chinfo, rk), dtype, labels=_labels(rk))
    r = a.conj()
    return Case('conj', [a], r, a.to_ndarray().conj(), [l + '*' for l in _labels(rk)], chinfo.make_valid(-a.qtotal))


def op_lincomb(rng, chinfo, dtype):
    rk = rng.integers(1, 4)
    legs = _legs(rng, chinfo, rk)
    a = gen.random_array(rng, legs, dtype, labels=_labels(rk))
    b = gen.random_array(rng, legs, dtype, qtotal=a.qtotal, labels=_labels(rk))
    if np.issubdtype(np.dtype(dtype), np.integer):
        al, be = int(rng.integers(-2, 3)), int(rng.integers(-2, 3))
    else:
        al, be = float(rng.standard_normal()), float(rng.standard_normal())
    variant = rng.integers(0, 7)
    if variant == 0:
        r = al * a + be * b
        name = 'alpha*a+beta*b'
    elif variant == 1:
        r = a - b * be
        al, be = 1, -be
        name = 'a-b*beta'
    elif variant in (2, 4, 5, 6):
        # second operand with the same labels in a different order: binary operations must align by labels
        # (and must do so on a copy: the operand itself keeps its leg order)
        perm = list(rng.permutation(rk))
        bt = gen.note_operand(b.transpose(perm))
        if variant == 2:
            r, exp, name = a + bt, a.to_ndarray() + b.to_ndarray(), 'a+b.transpose(labels)'
        elif variant == 4:
            r, exp, name = a - bt, a.to_ndarray() - b.to_ndarray(), 'a-b.transpose(labels)'
        elif variant == 5:
            r = a.copy(deep=True)
            r.iadd_prefactor_other(be, bt)
            exp, name = a.to_ndarray() + be * b.to_ndarray(), 'iadd_prefactor_other(b.transpose(labels))'
        else:
            r = a.binary_blockwise(np.subtract, bt)
            exp, name = a.to_ndarray() - b.to_ndarray(), 'binary_blockwise(b.transpose(labels))'
        c = Case(name, [a, bt], r, exp, _labels(rk), a.qtotal.copy())
        c.kept_labels = (bt, [_labels(rk)[p] for p in perm])
        return c
    else:
        r = a.copy(deep=True)
        r.iadd_prefactor_other(be, b)
        al = 1
        name = 'iadd_prefactor_other'
    return Case(name, [a, b], r, al * a.to_ndarray() + be * b.to_ndarray(), _labels(rk), a.qtotal.copy())


def op_combine_split(rng, chinfo, dtype):
    rk = rng.integers(2, 5)
    a = gen.random_array(rng, _legs(rng, chinfo, rk, max_size=2), dtype, labels=_labels(rk))
    k = rng.integers(1, rk + 1)
    axes = sorted(rng.permutation(rk)[:k].tolist()) if rng.random() < 0.5 else rng.permutation(rk)[:k].tolist()
    qconj = int(rng.choice([1, -1]))
    others = [i for i in range(rk) if i not in axes]
    pos = sum(1 for i in others if i < min(axes))     # requested position of the pipe in the result
    r = a.combine_legs([axes], new_axes=[pos], qconj=qconj)
    # dense oracle: transpose so that the combined axes are adjacent at `pos`, reshape in C order
    order = others[:pos] + list(axes) + others[pos:]
    d = a.to_ndarray().transpose(order)
    shp = [a.shape[i] for i in others[:pos]] + [int(np.prod([a.shape[i] for i in axes]))] + [a.shape[i] for i in others[pos:]]
    d = d.reshape(shp)
    pipe = r.legs[pos]
    # the pipe sorts/bunches charges: compare through the pipe's index map
    idx = np.empty(pipe.ind_len, dtype=np.intp)
    shape_in = [a.shape[i] for i in axes]
    for flat_in, multi in enumerate(np.ndindex(*shape_in)):
        idx[flat_in] = pipe.map_incoming_flat(list(multi))
    exp = np.empty_like(d)
    sl = [slice(None)] * len(shp)
    dd = np.moveaxis(d, pos, 0)
    ee = np.moveaxis(exp, pos, 0)
    ee[idx] = dd
    back = r.split_legs([pos])
    back_order = [order.index(i) for i in range(rk)]
    back = back.transpose(back_order)
    c = Case('combine_legs', [a], r, exp, None, a.qtotal.copy())
    c.roundtrip = (back, a.to_ndarray(), _labels(rk))
    return c


def op_take_slice(rng, chinfo, dtype):
    rk = rng.integers(2, 5)
    a = gen.random_array(rng, _legs(rng, chinfo, rk), dtype, labels=_labels(rk))
    ax = int(rng.integers(0, rk))
    i = int(rng.integers(0, a.shape[ax]))
    r = a.take_slice(i, ax)
    qt = a.chinfo.make_valid(a.qtotal - a.legs[ax].get_charge(a.legs[ax].get_qindex(i)[0]))
    return Case('take_slice', [a], r, np.take(a.to_ndarray(), i, axis=ax), [l for k, l in enumerate(_labels(rk)) if k != ax], qt)


def op_getitem(rng, chinfo, dtype):
    rk = rng.integers(1, 4)
    a = gen.random_array(rng, _legs(rng, chinfo, rk), dtype, labels=_labels(rk))
    idx = tuple(int(rng.integers(-s, s)) for s in a.shape)
    r = a[idx]
    return Case('getitem(int...)', [a], r, a.to_ndarray()[idx])


def op_getitem_oob(rng, chinfo, dtype):
    """same class of error as numpy for an out-of-range integer index"""
    rk = rng.integers(1, 4)
    a = gen.random_array(rng, _legs(rng, chinfo, rk), dtype, labels=_labels(rk))
    ax = int(rng.integers(0, rk))
    idx = [int(rng.integers(0, s)) for s in a.shape]
    idx[ax] = a.shape[ax] if rng.random() < 0.5 else -a.shape[ax] - 1
    try:
        a.to_ndarray()[tuple(idx)]
        exp = None
    except IndexError:
        exp = IndexError
    try:
        a[tuple(idx)]
        got = None
    except IndexError:
        got = IndexError
    except Exception as e:
        got = type(e)
    c = Case('getitem(out-of-range)', [a], np.array(0.), np.array(0.))
    c.error_classes = (got, exp, tuple(idx), a.shape)
    return c


def op_setitem(rng, chinfo, dtype):
    rk = rng.integers(1, 4)
    a = gen.random_array(rng, _legs(rng, chinfo, rk), dtype, labels=_labels(rk))
    if len(a._data) == 0:
        return None
    # pick an index inside a stored block (allowed by charge)
    b = int(rng.integers(0, len(a._data)))
    q = a._qdata[b]
    idx = tuple(int(l.slices[qi] + rng.integers(0, l.slices[qi + 1] - l.slices[qi])) for l, qi in zip(a.legs, q))
    r = a.copy(deep=True)
    val = 3 if np.issubdtype(np.dtype(dtype), np.integer) else 2.5
    r[idx] = val
    exp = a.to_ndarray().copy()
    exp[idx] = val
    return Case('setitem(int...)', [a], r, exp, _labels(rk), a.qtotal.copy())


def op_slice_getitem(rng, chinfo, dtype):
    rk = rng.integers(1, 4)
    a = gen.random_array(rng, _legs(rng, chinfo, rk), dtype, labels=_labels(rk))
    idx = []
    for s in a.shape:
        kind = rng.integers(0, 3)
        if kind == 0 or s == 0:
            idx.append(slice(None))
        elif kind == 1:
            lo = int(rng.integers(0, s))
            hi = int(rng.integers(lo, s + 1))
            idx.append(slice(lo, hi))
        else:
            m = rng.random(s) < 0.6
            idx.append(m)
    r = a[tuple(idx)]
    d = a.to_ndarray()
    for ax, ix in enumerate(idx):
        if isinstance(ix, slice):
            d = d[(slice(None),) * ax + (ix,)]
        else:
            d = np.compress(ix, d, axis=ax)
    return Case('getitem(slices/masks)', [a], r, d, _labels(rk), a.qtotal.copy())


def op_setitem_slices(rng, chinfo, dtype):
    """a[slices/masks] = b  with an npc Array b that may lack blocks stored in a[slices/masks] (and vice versa)"""
    rk = rng.integers(1, 4)
    a = gen.random_array(rng, _legs(rng, chinfo, rk), dtype, labels=_labels(rk), drop_blocks=0.2, zero_blocks=0.)
    idx = []
    for s_ in a.shape:
        kind = rng.integers(0, 3)
        if kind == 0:
            idx.append(slice(None))
        elif kind == 1:
            lo = int(rng.integers(0, s_))
            hi = int(rng.integers(lo + 1, s_ + 1))
            idx.append(slice(lo, hi))
        else:
            m = rng.random(s_) < 0.7
            if not m.any():
                m[0] = True
            idx.append(m)
    part = a[tuple(idx)]
    b = gen.random_array(rng, part.legs, dtype, qtotal=part.qtotal, labels=_labels(rk), drop_blocks=0.5, zero_blocks=0.)
    r = a.copy(deep=True)
    r[tuple(idx)] = b
    exp = a.to_ndarray().copy()
    sel = [np.arange(n)[ix] for n, ix in zip(a.shape, idx)]
    exp[np.ix_(*sel)] = b.to_ndarray()
    return Case('setitem(slices/masks)=Array', [a, b], r, exp, _labels(rk), a.qtotal.copy())


def op_concatenate(rng, chinfo, dtype):
    import tenpy.linalg.np_conserved as npc
    rk = rng.integers(1, 4)
    legs = _legs(rng, chinfo, rk)
    ax = int(rng.integers(0, rk))
    a = gen.random_array(rng, legs, dtype, labels=_labels(rk))
    # further operands: the leg that is stacked may point either way ("either direction of each leg"); 2 or 3 operands
    ops = [a]
    for _ in range(int(rng.integers(1, 3))):
        legs2 = list(legs)
        legs2[ax] = gen.random_leg(rng, chinfo, qconj=int(rng.choice([1, -1])))
        ops.append(gen.random_array(rng, legs2, dtype, qtotal=a.qtotal, labels=_labels(rk)))
    r = npc.concatenate(ops, axis=ax)
    flipped = any(o.legs[ax].qconj != a.legs[ax].qconj for o in ops[1:])
    return Case('concatenate' + ('[mixed leg directions]' if flipped else ''), ops, r, np.concatenate([o.to_ndarray() for o in ops], axis=ax),
                _labels(rk), a.qtotal.copy())


def op_scale_axis(rng, chinfo, dtype):
    rk = rng.integers(1, 4)
    a = gen.random_array(rng, _legs(rng, chinfo, rk), dtype, labels=_labels(rk))
    if np.issubdtype(np.dtype(dtype), np.integer):
        return None
    ax = int(rng.integers(0, rk))
    s = rng.standard_normal(a.shape[ax])
    r = a.scale_axis(s, ax)
    shp = [1] * rk
    shp[ax] = -1
    return Case('scale_axis', [a], r, a.to_ndarray() * s.reshape(shp), _labels(rk), a.qtotal.copy())


def op_permute(rng, chinfo, dtype):
    rk = rng.integers(1, 4)
    a = gen.random_array(rng, _legs(rng, chinfo, rk), dtype, labels=_labels(rk))
    ax = int(rng.integers(0, rk))
    perm = rng.permutation(a.shape[ax])
    r = a.permute(perm, ax)
    return Case('permute', [a], r, np.take(a.to_ndarray(), perm, axis=ax), _labels(rk), a.qtotal.copy())


def op_sort_legcharge(rng, chinfo, dtype):
    rk = rng.integers(1, 4)
    a = gen.random_array(rng, _legs(rng, chinfo, rk, kind='unsorted'), dtype, labels=_labels(rk))
    sort = [bool(rng.integers(0, 2)) for _ in range(rk)]
    bunch = bool(rng.integers(0, 2))
    if not bunch and not any(sort):
        sort[0] = True    # (observation, not demanded by C01: sort=False, bunch=False for all legs raises IndexError)
    perms, r = a.sort_legcharge(sort=sort, bunch=bunch)
    d = a.to_ndarray()
    for ax, p in enumerate(perms):
        d = np.take(d, p, axis=ax)
    return Case('sort_legcharge', [a], r, d, _labels(rk), a.qtotal.copy())


def op_squeeze_addleg(rng, chinfo, dtype):
    rk = rng.integers(1, 3)
    a = gen.random_array(rng, _legs(rng, chinfo, rk), dtype, labels=_labels(rk))
    pos = int(rng.integers(0, rk + 1))
    r = a.add_trivial_leg(pos, label='triv', qconj=int(rng.choice([1, -1])))
    exp = np.expand_dims(a.to_ndarray(), pos)
    labs = _labels(rk)
    labs.insert(pos, 'triv')
    c = Case('add_trivial_leg', [a], r, exp, labs, a.qtotal.copy())
    r2 = r.squeeze(pos)
    c.roundtrip = (r2, a.to_ndarray(), _labels(rk))
    return c


def op_norm(rng, chinfo, dtype):
    import tenpy.linalg.np_conserved as npc
    rk = rng.integers(1, 4)
    a = gen.random_array(rng, _legs(rng, chinfo, rk), dtype, labels=_labels(rk))
    return Case('norm', [a], np.array(npc.norm(a)), np.array(np.linalg.norm(a.to_ndarray().astype(complex).ravel())))


def op_binary_scalar(rng, chinfo, dtype):
    rk = rng.integers(1, 3)
    a = gen.random_array(rng, _legs(rng, chinfo, rk), dtype, labels=_labels(rk))
    if np.issubdtype(np.dtype(dtype), np.integer):
        return None
    r = a / 2.0
    c = Case('a/2', [a], r, a.to_ndarray() / 2.0, _labels(rk), a.qtotal.copy())
    return c


def op_chain(rng, chinfo, dtype):
    """two-step programs: the result of one operation is an operand of the next one.  Stale bookkeeping of an intermediate
    (block order flags, leg flags) does not show in its own dense form, only in what is computed from it."""
    import tenpy.linalg.np_conserved as npc
    if np.issubdtype(np.dtype(dtype), np.integer):
        return None
    first = int(rng.integers(-2, 6))
    if first <= 0:
        # outer of operands whose blocks are stored in different orders (sorted x shuffled, shuffled x sorted, any x any)
        ra, rb = int(rng.integers(1, 3)), int(rng.integers(1, 3))
        st = [('sorted', 'shuffled'), ('shuffled', 'sorted'), (None, None)][first + 2]
        a = gen.random_array(rng, _legs(rng, chinfo, ra, max_size=2), dtype, labels=_labels(ra, 'a'), storage=st[0])
        b = gen.random_array(rng, _legs(rng, chinfo, rb, max_size=2), dtype, labels=_labels(rb, 'b'), storage=st[1])
        t, n1, ops = npc.outer(a, b), 'outer', [a, b]
    elif first == 1:
        rk = int(rng.integers(2, 4))
        a = gen.random_array(rng, _legs(rng, chinfo, rk), dtype, labels=_labels(rk))
        t, n1, ops = a.transpose([int(x) for x in rng.permutation(rk)]), 'transpose', [a]
    elif first == 2:
        rk = int(rng.integers(3, 5))
        a = gen.random_array(rng, _legs(rng, chinfo, rk, max_size=2), dtype, labels=_labels(rk))
        grp = [int(x) for x in rng.permutation(rk)[:2]]
        t, n1, ops = a.combine_legs([grp]).split_legs(), 'combine+split', [a]
    elif first == 3:
        rk = int(rng.integers(1, 3))
        legs = _legs(rng, chinfo, rk)
        ax = int(rng.integers(0, rk))
        a = gen.random_array(rng, legs, dtype, labels=_labels(rk))
        legs2 = list(legs)
        legs2[ax] = gen.random_leg(rng, chinfo, qconj=legs[ax].qconj)
        b = gen.random_array(rng, legs2, dtype, qtotal=a.qtotal, labels=_labels(rk))
        t, n1, ops = npc.concatenate([a, b], axis=ax), 'concatenate', [a, b]
    elif first == 4:
        rk = int(rng.integers(2, 4))
        a = gen.random_array(rng, _legs(rng, chinfo, rk), dtype, labels=_labels(rk))
        ax = int(rng.integers(0, rk))
        t, n1, ops = a.take_slice(int(rng.integers(0, a.shape[ax])), ax), 'take_slice', [a]
    else:
        rk = int(rng.integers(1, 4))
        a = gen.random_array(rng, _legs(rng, chinfo, rk), dtype, labels=_labels(rk))
        t, n1, ops = a.conj().iconj() if rng.random() < 0.5 else (a * 2.0), 'conj.iconj|scale', [a]
    if t.rank == 0 or not isinstance(t, npc.Array):
        return None
    td = t.to_ndarray().copy()
    u = gen.random_array(rng, list(t.legs), dtype, qtotal=t.qtotal, labels=list(t.get_leg_labels()))
    ud = u.to_ndarray()
    second = int(rng.integers(0, 4))
    if second == 0:
        r, exp, n2 = t + u, td + ud, 'add'
    elif second == 1:
        r, exp, n2 = u - t, ud - td, 'rsub'
    elif second == 2:
        r, exp, n2 = np.array(npc.inner(u, t, axes='range', do_conj=True)), np.array(np.vdot(ud, td)), 'inner'
    else:
        axes = list(range(t.rank))
        r, exp, n2 = np.array(npc.tensordot(t, u.conj(), axes=[axes, axes])), np.array(np.tensordot(td, ud.conj(), axes=[axes, axes])), 'tensordot(full)'
    c = Case(f'chain[{n1} -> {n2}]', ops + [u], r, exp, list(t.get_leg_labels()) if isinstance(r, npc.Array) else None,
             t.qtotal.copy() if isinstance(r, npc.Array) else None)
    return c


def op_multi_combine_split(rng, chinfo, dtype):
    """several pipes at once, then all of them split again - for tensors with random entries, one stored block, no stored block"""
    import tenpy.linalg.np_conserved as npc
    rank = int(rng.integers(3, 6))
    legs = _legs(rng, chinfo, rank, max_size=2)
    labels = _labels(rank, 'l')
    order = [int(x) for x in rng.permutation(rank)]
    cut = int(rng.integers(1, rank - 1)) if rank > 2 else 1
    groups = [g for g in (order[:cut], order[cut:cut + 2]) if g]
    fill = ['random', 'zeros', 'one-block'][int(rng.integers(0, 3))]
    if fill == 'zeros':
        a = gen.note_operand(npc.zeros(legs, dtype=dtype, labels=labels))
    else:
        a = gen.random_array(rng, legs, dtype, labels=labels)
        if fill == 'one-block' and len(a._data) > 1:
            b = a.copy(deep=True)             # (truncate a copy: the drawn operand itself is watched by the C03 harness)
            b._data, b._qdata = b._data[:1], b._qdata[:1]
            a = gen.note_operand(b)
    c = a.combine_legs([[labels[i] for i in g] for g in groups])
    names = []
    for lbl in c.get_leg_labels():
        names.extend(lbl.strip('()').split('.'))
    back = c.split_legs()
    ref = a.to_ndarray().transpose([labels.index(n) for n in names])
    case = Case(f'combine_legs(several pipes)+split_legs[{fill}]', [a], back, ref, names, a.qtotal.copy())
    return case


def op_combine_given_pipes(rng, chinfo, dtype):
    """combine_legs with a pipe supplied by the caller - made for this tensor, for its conjugate (opposite orientation: the documented
    behaviour is to conjugate the pipe), or for a tensor with other labels; the result must be what the automatic pipe gives"""
    import tenpy.linalg.np_conserved as npc
    rank = int(rng.integers(2, 5))
    legs = _legs(rng, chinfo, rank, max_size=2)
    labels = _labels(rank, 'g')
    a = gen.random_array(rng, legs, dtype, labels=labels)
    axes = [int(x) for x in rng.permutation(rank)[:2]]
    qc = int(rng.choice([1, -1]))
    pipe = a.make_pipe(axes, qconj=qc)
    variant = ['same', 'pipe-of-the-conjugate', 'conjugated-pipe'][int(rng.integers(0, 3))]
    if variant == 'same':
        x, given, qc_res = a, pipe, qc
    elif variant == 'pipe-of-the-conjugate':
        x, given, qc_res = gen.note_operand(a.conj()), pipe, -qc          # pipe oriented opposite to the legs of x
    else:
        x, given, qc_res = a, pipe.conj(), qc                             # a.legs are opposite to the legs of the given pipe
    r = x.combine_legs([axes], pipes=[given])
    ref = x.combine_legs([axes], qconj=qc_res)                           # automatic pipe with the orientation the result must have
    c = Case(f'combine_legs(pipes=[{variant}])', [x], r, ref.to_ndarray(), ref.get_leg_labels(), x.qtotal.copy())
    pl = [l for l in r.legs if hasattr(l, 'legs')]
    if len(pl) != 1 or pl[0].qconj != qc_res or any(pa.qconj != xa.qconj for pa, xa in zip(pl[0].legs, [x.legs[i] for i in axes])):
        c.note = 'pipe orientation'
        c.expected = None
    return c


def op_factorize(rng, chinfo, dtype):
    """a factorisation with random options, multiplied back: the product is the input (C01), the factors are valid tensors (C02) and
    the input - its legs included - is left alone (C03); legs already blocked by charge (no hidden pipe) are drawn on purpose"""
    import tenpy.linalg.np_conserved as npc
    from .b_C05 import _matrix
    a = gen.note_operand(_matrix(rng, chinfo, dtype if np.issubdtype(np.dtype(dtype), np.inexact) else np.float64))
    which = ['qr', 'lq', 'svd'][int(rng.integers(0, 3))]
    if which == 'svd' and not np.any(a.to_ndarray()):
        which = 'qr'          # svd of an all-zero matrix is a documented error
    iq = int(rng.choice([1, -1]))
    if which in ('qr', 'lq'):
        mode = ['reduced', 'complete'][int(rng.integers(0, 2))]
        pos = bool(rng.integers(0, 2))
        if which == 'qr':
            x, y = npc.qr(a, mode=mode, inner_labels=['i', 'i*'], pos_diag_R=pos, inner_qconj=iq)
        else:
            x, y = npc.lq(a, mode=mode, inner_labels=['i', 'i*'], pos_diag_L=pos, inner_qconj=iq)
        name = f'{which}(mode={mode},pos_diag={pos},inner_qconj={iq})'
        prod = npc.tensordot(x, y, axes=['i', 'i*'])
    else:
        U, S, VH = npc.svd(a, inner_labels=['i', 'i*'], inner_qconj=iq)
        name = f'svd(inner_qconj={iq})'
        prod = npc.tensordot(U.scale_axis(S, 'i'), VH, axes=['i', 'i*'])
    return Case(name + ':product', [a], prod, a.to_ndarray(), ['r', 'c'], a.qtotal.copy())


def op_gauge_total_charge(rng, chinfo, dtype):
    """move total charge into a leg (optionally flipping its direction): same entries, new qtotal, consistent charges"""
    rk = int(rng.integers(1, 4))
    a = gen.random_array(rng, _legs(rng, chinfo, rk), dtype, labels=_labels(rk))
    ax = int(rng.integers(0, rk))
    newq = chinfo.make_valid(rng.integers(-2, 3, size=chinfo.qnumber))
    new_qconj = [None, 1, -1][int(rng.integers(0, 3))]
    r = a.gauge_total_charge(ax, newq, new_qconj)
    c = Case(f'gauge_total_charge(new_qconj={new_qconj})', [a], r, a.to_ndarray(), _labels(rk), newq)
    if new_qconj is not None and r.legs[ax].qconj != new_qconj:
        c.note = 'qconj'
        c.expected = None
    return c


def op_misc_elementwise(rng, chinfo, dtype):
    """iswapaxes, unary_blockwise, complex_conj, ibinary_blockwise"""
    import tenpy.linalg.np_conserved as npc
    if np.issubdtype(np.dtype(dtype), np.integer):
        return None
    rk = int(rng.integers(2, 4))
    legs = _legs(rng, chinfo, rk)
    a = gen.random_array(rng, legs, dtype, labels=_labels(rk))
    v = int(rng.integers(0, 5))
    if v == 0:
        i, j = [int(x) for x in rng.permutation(rk)[:2]]
        r = a.copy(deep=True).iswapaxes(i, j)
        labs = _labels(rk)
        labs[i], labs[j] = labs[j], labs[i]
        return Case('iswapaxes', [a], r, np.swapaxes(a.to_ndarray(), i, j), labs, a.qtotal.copy())
    if v == 1:
        f = [np.real, np.imag, np.negative][int(rng.integers(0, 3))]
        return Case(f'unary_blockwise({f.__name__})', [a], a.unary_blockwise(f), f(a.to_ndarray()), _labels(rk), a.qtotal.copy())
    if v == 2:
        return Case('complex_conj', [a], a.complex_conj(), a.to_ndarray().conj(), _labels(rk), a.qtotal.copy())
    b = gen.random_array(rng, legs, dtype, qtotal=a.qtotal, labels=_labels(rk))
    if v == 3:
        r = a.copy(deep=True).ibinary_blockwise(np.add, b)
        return Case('ibinary_blockwise(np.add)', [a, b], r, a.to_ndarray() + b.to_ndarray(), _labels(rk), a.qtotal.copy())
    r = a.copy(deep=True).ibinary_blockwise(np.subtract, b)
    return Case('ibinary_blockwise(np.subtract)', [a, b], r, a.to_ndarray() - b.to_ndarray(), _labels(rk), a.qtotal.copy())


def op_add_leg_eye_block(rng, chinfo, dtype):
    """add_leg (inverse of take_slice), eye_like, get_block, drop_charge"""
    import tenpy.linalg.np_conserved as npc
    rk = int(rng.integers(1, 4))
    a = gen.random_array(rng, _legs(rng, chinfo, rk), dtype, labels=_labels(rk))
    v = int(rng.integers(0, 4))
    if v == 0:
        leg = gen.random_leg(rng, chinfo)
        i = int(rng.integers(0, leg.ind_len))
        ax = int(rng.integers(0, rk + 1)) if rk else 0
        if ax == rk:
            return None      # (the new leg is inserted *before* an existing axis)
        r = a.add_leg(leg, i, ax, 'new')
        shp = list(a.shape)
        shp.insert(ax, leg.ind_len)
        exp = np.zeros(shp, dtype=a.to_ndarray().dtype)
        sl = [slice(None)] * len(shp)
        sl[ax] = i
        exp[tuple(sl)] = a.to_ndarray()
        labs = _labels(rk)
        labs.insert(ax, 'new')
        c = Case('add_leg', [a], r, exp, labs, chinfo.make_valid(a.qtotal + leg.get_charge(leg.get_qindex(i)[0])))
        c.roundtrip = (r.take_slice(i, ax), a.to_ndarray(), _labels(rk))
        return c
    if v == 1:
        ax = int(rng.integers(0, rk))
        r = npc.eye_like(a, ax, labels=['x', 'y'])
        return Case('eye_like', [a], r, np.eye(a.shape[ax]), ['x', 'y'], chinfo.make_valid())
    if v == 2:
        if not len(a._data):
            return None
        k = int(rng.integers(0, len(a._data)))
        qi = a._qdata[k].copy()
        blk = a.get_block(qi)
        sl = tuple(slice(l.slices[q], l.slices[q + 1]) for l, q in zip(a.legs, qi))
        return Case('get_block', [a], np.array(blk), a.to_ndarray()[sl])
    if chinfo.qnumber == 0:
        return None
    which = int(rng.integers(0, chinfo.qnumber))
    r = a.drop_charge(which)
    c = Case('drop_charge', [a], r, a.to_ndarray(), _labels(rk), None)
    return c


def op_grid_outer(rng, chinfo, dtype):
    """grid_outer: a grid of Arrays (None = zero) becomes one Array with res[idx] == grid[idx]"""
    import tenpy.linalg.np_conserved as npc
    from tenpy.linalg.charges import LegCharge
    if np.issubdtype(np.dtype(dtype), np.integer):
        return None
    p = gen.random_leg(rng, chinfo, max_size=2)
    n0, n1 = int(rng.integers(1, 4)), int(rng.integers(1, 4))
    # entries of total charge zero; grid legs with trivial charges (one block per grid index)
    triv0 = LegCharge.from_qflat(chinfo, np.zeros((n0, chinfo.qnumber), dtype=int), 1)
    triv1 = LegCharge.from_qflat(chinfo, np.zeros((n1, chinfo.qnumber), dtype=int), -1)
    grid = [[None] * n1 for _ in range(n0)]
    exp = np.zeros((n0, n1, p.ind_len, p.ind_len), dtype=np.dtype(dtype))
    ops = []
    for i in range(n0):
        for j in range(n1):
            if rng.random() < 0.6:
                g = gen.random_array(rng, [p, p.conj()], dtype, qtotal=chinfo.make_valid(), labels=['p', 'p*'])
                grid[i][j] = g
                ops.append(g)
                exp[i, j] = g.to_ndarray()
    if not ops:
        return None
    r = npc.grid_outer(grid, [triv0, triv1], grid_labels=['wL', 'wR'])
    return Case('grid_outer', ops, r, exp, ['wL', 'wR', 'p', 'p*'], chinfo.make_valid())


def op_nothing_to_do(rng, chinfo, dtype):
    """operations in their 'nothing to do' corner still return the tensor - as an independent object (C03 mutates the result)"""
    import tenpy.linalg.np_conserved as npc
    rk = int(rng.integers(1, 4))
    a = gen.random_array(rng, _legs(rng, chinfo, rk), dtype, labels=_labels(rk))
    v = int(rng.integers(0, 7))
    name, r = [('split_legs() without pipes', lambda: a.split_legs()),
               ('split_legs([])', lambda: a.split_legs([])),
               ('combine_legs([])', lambda: a.combine_legs([])),
               ('transpose(identity)', lambda: a.transpose(list(range(rk)))),
               ('astype(same dtype)', lambda: a.astype(a.dtype)),
               ('squeeze() without trivial legs', lambda: a.squeeze() if not any(l.ind_len == 1 for l in a.legs) else None),
               ('sort_legcharge(False, False)', lambda: a.sort_legcharge(False, False)[1] if chinfo.qnumber > 0 else None)][v]
    try:
        res = r()
    except (ValueError, IndexError):
        return None          # (some corners are documented errors: not the subject here)
    if res is None or not isinstance(res, npc.Array):
        return None
    c = Case(f'nothing-to-do: {name}', [a], res, a.to_ndarray(), _labels(rk), a.qtotal.copy())
    return c


OPS = [op_chain, op_nothing_to_do, op_multi_combine_split, op_combine_given_pipes, op_factorize, op_gauge_total_charge, op_misc_elementwise, op_add_leg_eye_block, op_grid_outer, op_tensordot, op_outer, op_inner, op_trace, op_transpose, op_conj, op_lincomb, op_combine_split, op_take_slice,
       op_getitem, op_getitem_oob, op_setitem, op_slice_getitem, op_setitem_slices, op_concatenate, op_scale_axis, op_permute,
       op_sort_legcharge, op_squeeze_addleg, op_norm, op_binary_scalar]


def tol_for(dtype):
    return 1e-9 if np.dtype(dtype).itemsize >= 8 and not np.issubdtype(np.dtype(dtype), np.integer) else (1e-4 if np.dtype(dtype).itemsize < 8 and not np.issubdtype(np.dtype(dtype), np.integer) else 0)


def check_case(c, dtype):
    """-> list of (signature, detail) contract violations of one case."""
    import tenpy.linalg.np_conserved as npc
    bad = []
    if hasattr(c, 'error_classes'):
        got, exp, idx, shape = c.error_classes
        if got is not exp:
            bad.append((f'{c.name}:error-class', f'index {idx} into shape {shape}: tenpy {got}, numpy {exp}'))
        return bad
    r = c.result
    rd = r.to_ndarray() if isinstance(r, npc.Array) else np.asarray(r)
    exp = np.asarray(c.expected)
    if rd.shape != exp.shape:
        bad.append((f'{c.name}:shape', f'{rd.shape} != numpy {exp.shape}'))
        return bad
    tol = 1e-9 * (1 + np.max(np.abs(exp)) if exp.size else 1)
    if exp.size and not np.allclose(rd, exp, rtol=1e-9, atol=tol):
        bad.append((f'{c.name}:dense', f'max deviation from numpy {np.max(np.abs(rd - exp)):.3g}'))
    if isinstance(r, npc.Array):
        if c.labels is not None and list(r.get_leg_labels()) != list(c.labels):
            bad.append((f'{c.name}:labels', f'{r.get_leg_labels()} != documented {c.labels}'))
        if c.qtotal is not None and np.any(r.qtotal != c.qtotal):
            bad.append((f'{c.name}:qtotal', f'{r.qtotal} != documented {c.qtotal}'))
    if hasattr(c, 'kept_labels'):
        arr, labs = c.kept_labels
        if list(arr.get_leg_labels()) != list(labs):
            bad.append((f'{c.name}:operand-leg-order', f'operand labels now {arr.get_leg_labels()}, were {labs}'))
    if hasattr(c, 'roundtrip'):
        back, orig, labs = c.roundtrip
        if back.to_ndarray().shape != orig.shape or not np.array_equal(back.to_ndarray(), orig):
            bad.append((f'{c.name}:roundtrip', 'split/squeeze does not restore the original exactly'))
        elif list(back.get_leg_labels()) != list(labs):
            bad.append((f'{c.name}:roundtrip-labels', f'{back.get_leg_labels()} != {labs}'))
    return bad
