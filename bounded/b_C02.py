"""Bounded stand-in for C02: after every step of a history of public operations the result passes
test_sanity and every cached claim (sorted/bunched/_qdata_sorted), recomputed, is truthful."""
import warnings
import numpy as np
from . import gen, tensorops


def run(rec):
    warnings.simplefilter('ignore')
    rng = np.random.default_rng(rec.seed + 2)
    quick = rec.tier == 'quick'
    n_per = 10 if quick else 200
    rec.rule = ('every operation of tensorops.OPS over generated charge structures, followed by 0-2 further in-place/'
                'copy steps (isort_qdata, itranspose, shallow copy + iscale_prefactor, element assignment); after each '
                'step test_sanity() and a recomputation of every claim; non-trivial = result stores >= 2 blocks')
    rec.bounds = {'history_length': '1-3', 'cases_per_op_and_chinfo': n_per}
    import tenpy.linalg.np_conserved as npc
    for op in tensorops.OPS:
        for ci, chinfo in enumerate(gen.chinfos()):
            for k in range(n_per if ci < 4 else max(2, n_per // 3)):
                dtype = [np.float64, np.complex128][k % 2]
                rec.begin(f'C02 {op.__name__} chinfo={chinfo.mod} k={k}')
                ok, c = rec.guarded(f'{op.__name__}:exception', lambda: op(rng, chinfo, dtype), {'op': op.__name__})
                if not ok or c is None or hasattr(c, 'error_classes'):
                    continue
                objs = [c.result] + list(c.operands)
                if hasattr(c, 'roundtrip'):
                    objs.append(c.roundtrip[0])
                inp = {'op': c.name, 'mod': chinfo.mod.tolist(),
                       'legs': [[(l.qconj, l.slices.tolist(), l.charges.tolist()) for l in a.legs] for a in c.operands]}
                for o in objs:
                    if not isinstance(o, npc.Array):
                        continue
                    for msg in gen.sanity(o):
                        rec.violation(f'{c.name}:invariant', msg, inp)
                    # further history steps
                    h = o.copy(deep=False)
                    steps = []
                    for _ in range(rng.integers(0, 3)):
                        s = rng.integers(0, 4)
                        if s == 0:
                            h.isort_qdata(); steps.append('isort_qdata')
                        elif s == 1 and h.rank > 1:
                            h.itranspose(list(rng.permutation(h.rank))); steps.append('itranspose')
                        elif s == 2:
                            h = h.copy(deep=False); h.iscale_prefactor(2); steps.append('copy+iscale_prefactor')
                        elif s == 3:
                            h = h.copy(deep=True); h.iscale_prefactor(0); steps.append('iscale_prefactor(0)')
                        for msg in gen.sanity(h):
                            rec.violation(f'{c.name}+{"+".join(steps)}:invariant', msg, inp)
                r = c.result
                rec.case((op.__name__, chinfo.mod.tobytes(), k), isinstance(r, npc.Array) and len(r._data) >= 2,
                         sample={'op': c.name, 'steps_after': 'random'} if k == 0 and ci == 1 else None)
    leg_constructors(rec, rng)
    factorizations(rec, rng)
    # every live tensor stays valid: restructuring one Array in place (projection that removes a charge block, transposition, sorting
    # of blocks, relabelling) must leave its shallow copies - which share the block table on creation - valid tensors
    from .b_C03 import shallow_copy_structure
    shallow_copy_structure(rec, rng)


def leg_constructors(rec, rng):
    """claims of LegCharge constructors / transformations"""
    from tenpy.linalg.charges import LegCharge, ChargeInfo, LegPipe
    for chinfo in gen.chinfos():
        for k in range(20 if rec.tier == 'quick' else 300):
            rec.begin(f'C02 leg constructors chinfo={chinfo.mod} k={k}')
            leg = gen.random_leg(rng, chinfo)
            cands = {'conj': leg.conj(), 'flip': leg.flip_charges_qconj(), 'sort': leg.sort(bunch=False)[1],
                     'sort+bunch': leg.sort(bunch=True)[1], 'bunch': leg.bunch()[1], 'copy': leg.copy(),
                     'from_qflat': LegCharge.from_qflat(chinfo, leg.to_qflat(), leg.qconj),
                     'from_qind': LegCharge.from_qind(chinfo, leg.slices, leg.charges, leg.qconj)}
            # from_qdict with blocks given in arbitrary order
            if chinfo.qnumber > 0 and leg.block_number > 0:
                _, bl = leg.sort(bunch=True)
                qd = bl.to_qdict()
                items = list(qd.items())
                order = rng.permutation(len(items))
                # relabel slices so that dict order and charge order differ
                start = 0
                qd2 = {}
                for j in order:
                    ch, sl = items[j]
                    n = sl.stop - sl.start
                    qd2[ch] = slice(start, start + n)
                    start += n
                cands['from_qdict'] = LegCharge.from_qdict(chinfo, qd2, leg.qconj)
            mask = rng.random(leg.ind_len) < 0.6
            cands['project'] = leg.project(mask)[2]
            leg2 = gen.random_leg(rng, chinfo, qconj=leg.qconj)
            cands['extend'] = leg.extend(leg2)
            pipe = LegPipe([leg, gen.random_leg(rng, chinfo)], qconj=int(rng.choice([1, -1])))
            cands['pipe'] = pipe
            cands['pipe.conj'] = pipe.conj()
            cands['pipe.outer_conj'] = pipe.outer_conj()
            cands['pipe.to_LegCharge'] = pipe.to_LegCharge()
            for name, l in cands.items():
                bad = []
                try:
                    l.test_sanity()
                except Exception as e:
                    bad.append(f'test_sanity: {e}')
                if l.sorted and not gen.spec_sorted(l.charges):
                    bad.append('claims sorted')
                if l.bunched and not gen.spec_bunched(l.charges):
                    bad.append('claims bunched')
                for b in bad:
                    rec.violation(f'LegCharge.{name}:claims', b, {'mod': chinfo.mod.tolist(), 'slices': leg.slices.tolist(),
                                                                'charges': leg.charges.tolist(), 'qconj': leg.qconj})
            rec.case(('legs', chinfo.mod.tobytes(), k), leg.block_number >= 2)


def factorizations(rec, rng):
    """every Array returned by the factorisations (all modes / options, requested total charges, both inner directions)
    satisfies the invariant and makes only truthful claims - in particular the new inner legs"""
    import itertools
    import tenpy.linalg.np_conserved as npc
    from .b_C05 import _matrix
    quick = rec.tier == 'quick'
    for ci, chinfo in enumerate(gen.chinfos()):
        for k in range(4 if quick else 60):
            dtype = [np.float64, np.complex128][k % 2]
            a = _matrix(rng, chinfo, dtype, deficient=rng.random() < 0.3)
            h = _matrix(rng, chinfo, dtype, square=True, hermitian=True)
            inp = {'mod': chinfo.mod.tolist(), 'legs': [(l.qconj, l.slices.tolist(), l.charges.tolist()) for l in a.legs], 'qtotal': a.qtotal.tolist()}
            calls = []
            for mode, iq, lq, setq in itertools.product(['reduced', 'complete'], [+1, -1], [False, True], [False, True]):
                qQ = chinfo.make_valid(rng.integers(-1, 2, size=chinfo.qnumber)) if setq else None
                fn = npc.lq if lq else npc.qr
                calls.append((f'{"lq" if lq else "qr"}(mode={mode},inner_qconj={iq},qtotal_Q={"set" if setq else None})',
                              lambda fn=fn, mode=mode, iq=iq, qQ=qQ: fn(a, mode=mode, inner_qconj=iq, qtotal_Q=qQ)))
            for iq, setq in itertools.product([+1, -1], [False, True]):
                qLR = [chinfo.make_valid(rng.integers(-1, 2, size=chinfo.qnumber)), None] if setq else [None, None]
                calls.append((f'svd(inner_qconj={iq},qtotal_LR={"set" if setq else None})',
                              lambda iq=iq, qLR=qLR: [x for x in npc.svd(a, inner_qconj=iq, qtotal_LR=qLR) if isinstance(x, npc.Array)]))
            calls.append(('eigh', lambda: [npc.eigh(h)[1]]))
            calls.append(('eig', lambda: [npc.eig(h)[1]]))
            calls.append(('expm', lambda: [npc.expm(h)]))
            calls.append(('pinv', lambda: [npc.pinv(a)]))
            for sig, call in calls:
                rec.begin(f'C02 factorization {sig} chinfo={chinfo.mod} k={k}')
                if not np.any(a.to_ndarray()) and sig.startswith(('svd', 'pinv')):
                    continue       # documented RuntimeError for an all-zero matrix
                ok, res = rec.guarded(f'{sig}:exception', call, inp)
                rec.case(('fact', ci, k, sig), len(a._data) >= 2)
                if not ok:
                    continue
                for j, t in enumerate(res):
                    if isinstance(t, npc.Array):
                        for msg in gen.sanity(t):
                            rec.violation(f'{sig}:output{j}-invariant', msg, inp)
