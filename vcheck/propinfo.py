"""Per-property static text for the evidence (level, explanation, assumptions, unverified parts)."""
A_INT = 'A-INT: Python/numpy integers treated as mathematical integers (no 64-bit overflow)'
A_REAL = 'A-REAL: floats treated as exact reals (machine arithmetic treated as mathematical)'
A_ENGINE = ('pyvc (own AST->z3 VC generator) is trusted; mitigated by engine-vs-CPython differential runs and the '
            'seeded-change corpus under /verif/seeded')
A_PRIMS = 'numpy/stdlib primitives enter as assumed contracts (listed in coverage.trusted_base)'

INFO = {}


def info(pid, explanation, unverified, assumptions=(), level='other'):
    INFO[pid] = {'level': level, 'explanation': explanation, 'unverified': list(unverified),
                 'assumptions': [A_INT, A_REAL, A_ENGINE, A_PRIMS] + list(assumptions)}
