"""Per-property static text for the evidence (level, explanation, assumptions, unverified parts)."""
A_INT = 'A-INT: Python/numpy integers treated as mathematical integers (no 64-bit overflow)'
A_REAL = 'A-REAL: floats treated as exact reals (machine arithmetic treated as mathematical)'
A_ENGINE = ('pyvc (own AST->z3 VC generator) is trusted; mitigated by engine-vs-CPython differential runs and the '
            'seeded-change corpus under /verif/seeded')
A_PRIMS = 'numpy/stdlib primitives enter as assumed contracts (listed in coverage.trusted_base)'

INFO = {}


def info(pid, explanation, unverified, assumptions=(), level='other', configs=('compiled',)):
    INFO[pid] = {'level': level, 'explanation': explanation, 'unverified': list(unverified), 'configs': list(configs),
                 'assumptions': [A_INT, A_REAL, A_ENGINE, A_PRIMS] + list(assumptions)}

info('C20',
     'P: EventHandler (connect, disconnect, copy, _prepare_emit, emit, emit_until_result) and DictCache over the in-memory '
     'Storage (__setitem__, __getitem__, get, __delitem__, __contains__, set_short_term_keys, preload, create_subcache) are '
     'verified from the real source against an abstract view plus representation invariant, from an arbitrary state '
     'satisfying the invariant, so the sequential specification holds for every finite history by induction. '
     'B (bounded, not proof): the real CacheFile with every storage class, with and without the worker thread, and the real '
     'EventHandler on random histories against dict/list models, every call under a deadline; a three-level tree of sub-caches with names '
     'reused across levels, per storage class; the worker with deterministic schedules. '
     'P also: Worker.join_tasks over a ghost worker/queue state: WorkerDied iff the worker was dead on entry or died while waiting; '
     'Queue.join() is only reached in a state where it can return (no hang on a dead worker) (contracts/c_thread.py).',
     ['thread interleavings inside a task and the memory model: this family is silent on concurrency; ThreadedStorage is '
      'exercised with the real thread only boundedly (schedules are whatever the OS produced)',
      'PickleStorage/Hdf5Storage file mapping: bounded only'],
     ['sorted() returns a stable permutation (assumed contract)', 'dict.keys() enumerates exactly the key set (assumed)',
      'callbacks are opaque: calling one is logged in a ghost call log and returns apply(callback, extra_kwargs)'])

info('C14',
     'P: (1) suzuki_trotter_decomposition + suzuki_trotter_time_steps: for every order in {1,2,4,"4_opt"} and every N_steps >= 0 '
     'the step weights sum to exactly N_steps on both bond parities (list repetition by a symbolic count handled as segment list). '
     '(2) accounting: run_evolution of TEBDEngine, RandomUnitaryEvolution, ExpMPOEvolution, TwoSiteTDVPEngine and the '
     'time-dependent drivers (TimeDependentTEBD/ExpMPO/TwoSiteTDVP/SingleSiteTDVP), plus SingleSiteTDVPEngine and QRBasedTEBDEngine, verified from the real source, with the leaf updates '
     '(evolve_step, sweep, prepare_evolve) abstract and a ghost accumulator `performed`: '
     'trunc_err.eps == old + performed and evolved_time == old + N_steps*dt for every N_steps; a static frame obligation '
     '(AST scan) shows no other function assigns self.trunc_err/self.evolved_time. TruncationError.__add__/copy/from_norm. '
     'TEBDEngine.evolve with a prepared step whose time tau is independent of |dt| (imaginary time): evolved_time advances by N_steps * tau. '
     '(3) reinit_model of TimeDependentHAlgorithm and of the two time-dependent TDVP drivers: the model is H(evolved_time) afterwards, cached '
     'propagators are invalidated, TDVP environments are rebuilt with the current model. '
     'B (bounded, not proof): engines against exact diagonalisation on 6 sites (order of convergence, charge, norm, energy, '
     'evolved_time for split runs, trunc_err accounting with real truncations); imaginary steps of the ExpMPO engines against exp(-tau H); '
     'the four TimeDependent* drivers on H(t) against the time-ordered exponential (documented first order in dt, model rebuilt at evolved_time).',
     ['exp(-iHt) numerics, order of convergence, norm/energy conservation: bounded only',
      'complex (imaginary-time) dt: dt is modelled as a real number in the deductive part',
      'purification engines (PurificationTEBD / PurificationApplyMPO): accounting inherited from TEBDEngine.run_evolution, own '
      'update methods bounded only'],
     ['leaf updates (evolve_step/update_bond/sweep) are abstract: they return some TruncationError and do not assign '
      'self.trunc_err/self.evolved_time (the latter is checked syntactically on every run)',
      'lemma sum(xs*n) == n*sum(xs) for list repetition is built into seg_weight',
      'consistency_check(max_trunc_err) assumed not to raise'])

BOTH = ('compiled', 'python')
A_BUILD = ('compiled configuration = extension rebuilt from the current tenpy/linalg/_npc_helper.pyx in a scratch copy '
           '(never the prebuilt .so); python configuration = TENPY_NO_CYTHON=1')

info('C01',
     'P: _iter_common_sorted (all matches, in order; loop invariant, termination), LegCharge.get_qindex (block/offset of a flat index; '
     'IndexError iff out of range), Array.get_leg_index; label bookkeeping: Array.ireplace_label, idrop_labels, iset_leg_labels (exactly the '
     'addressed entries change, on a new list; duplicates refused before anything changes) (contracts/c_labels.py). '
     'B (bounded, not proof): dense-numpy postcondition (values, labels, qtotal, error class) of every public operation over '
     'generated charge structures in both configurations; zero-size stored blocks in separate interpreters.',
     ['dense equality of tensordot/combine/split/svd workers for unbounded structures (BLAS numerics): bounded only',
      'ibinary_blockwise merge loop: bounded only so far'],
     [A_BUILD], configs=BOTH)
info('C02',
     'P: shared obligations of C01 (_iter_common_sorted precondition/postcondition); LegCharge.bunch / sort / extend and the conj / flip / '
     'outer_conj family: the flags `sorted` / `bunched` that a leg-returning method sets or keeps are true of the charges it returns '
     '(contracts/c_legs.py). '
     'B (bounded, not proof): after every step of generated operation histories (incl. in-place methods, shallow copies) '
     'test_sanity() passes and every cached claim (sorted, bunched, _qdata_sorted), recomputed from its definition, is truthful - also for the '
     'shallow copies of a tensor that is restructured in place; '
     'all LegCharge constructors/transformations; qtotal is the documented function; both configurations.',
     ['flag protocol: under contract for LegCharge.bunch / sort / extend / conj / flip_charges_qconj and LegPipe.conj / outer_conj; project, '
      'from_qflat / from_qind / from_qdict, LegPipe construction and the `_qdata_sorted` claims of Array: bounded only',
      'assumed for those contracts: np.lexsort returns an ordering permutation, np.cumsum / np.append / slice assignment, the contract of '
      '_find_row_differences as proved for the compiled kernel; ind_len of a sorted leg (sum over a permutation) is not discharged'],
     [A_BUILD], configs=BOTH)
info('C03',
     'P: frame and freshness of the leg-returning methods, real source on a symbolic leg / pipe over two incoming legs: LegCharge.copy, '
     'conj, flip_charges_qconj and LegPipe.copy, conj, outer_conj leave every attribute of self (and of the incoming legs) as on entry, '
     'return an object that is not self (conjugated incoming legs are fresh, too), flip qconj, keep or negate-and-reduce the charges, '
     'and never carry a `sorted` claim over to negated charges (contracts/c_legs.py). '
     'B (bounded, not proof): fingerprints (dense values, leg identity and content incl. flags, labels, qtotal) of every operand '
     'unchanged after every non-in-place operation, including derived operands (same labels in another order for +, -, '
     'iadd_prefactor_other, binary_blockwise; qr/lq/svd with random options; combine_legs with supplied pipes), compared with value '
     'snapshots taken before the operation (a deep copy shares the LegCharge objects and cannot serve as reference); results of '
     'non-in-place operations are written into and the operands re-read; in-place methods on a deep copy never change the source; '
     'MPS-level frames; structural in-place methods (projection that removes a charge block, transposition, relabelling) on one of several '
     'shallow copies; tensors stored in an MPS / MPO with charges that shift under translation (DipolarChargeInfo) under every read accessor; '
     'ChargeInfo.make_valid leaves its argument alone; both configurations.',
     ['frame conditions of the tensor-level operations (np_conserved.Array methods, 5000 lines of numpy code): bounded only; '
      'in-place numpy updates of an opaque attribute leave the verified subset instead of being modelled',
      'MPS/MPO level aliasing: bounded only'],
     [A_BUILD], configs=BOTH)
info('C04',
     'P: one specification, two implementations: the pure-Python fallback _make_stride (both styles; shared with C06) and, cut out '
     'of the current tenpy/linalg/_npc_helper.pyx on every run by a mechanical line-based extraction (pyvc/pyx.py: C types, cdef '
     'declarations, casts, decorators dropped; cdivision(True) honoured by C semantics of % and //, wraparound(False) by treating '
     'negative indices as errors), the compiled kernels _make_stride (both styles), _iter_common_sorted_push (same sound/ordered/'
     'complete clauses as np_conserved._iter_common_sorted, proved under C01), _make_valid_charges_1D (C remainder + correction '
     '== Python/numpy modulo; nonlinear lemma proved by cvc5 in the same run), _map_blocks (blocks tile the result; monotonicity '
     'lemma proved by induction in the same run), _find_row_differences (2-D buffer as ghost container, every access inside the buffer; '
     'exactly the places where consecutive rows differ, [0, L] without columns, [0] without rows). A failing obligation starts a witness hunt on the freshly compiled extension. '
     'B (bounded, not proof): every operation program of C01 executed with identical seeds in two interpreter processes '
     '(extension rebuilt from the current _npc_helper.pyx / TENPY_NO_CYTHON=1), results compared field by field; both processes '
     'report which implementation is active. The compiled side of C01/C02/C03/C05/C06 is likewise always a fresh build.',
     ['Cython kernels with pointers, BLAS calls, typed 2D buffers or numpy C-API calls (_tensordot_worker, _inner_worker, '
      '_combine_legs_worker, _split_legs_worker, _sliced_copy, Array_itranspose_fast): not extractable / '
      'outside the subset - bounded differential only',
      'assumed for the extracted kernels: Cython compiles the Python-like body with Python semantics; no C integer overflow; '
      'memoryview element access is plain element access; _np_empty_1D allocates n elements; vector.push_back appends a copy',
      '"a source edit changes behaviour only through a rebuild" is a statement about the build: the check always rebuilds from '
      'the current tree, which is all it can do about it',
      'algorithm-level equivalence (DMRG/TEBD in both configurations): not compared'],
     [A_BUILD])
info('C05',
     'P: the factorisations derived from svd / qr, in a free matrix algebra with svd / qr / tensordot abstract: polar (both sides), pinv and lq '
     'return the textbook terms built from the values the leaves returned, options and inner labels passed through, input unmodified; '
     'in-place operations on a factor that is used again are detected (contracts/c_factor.py). '
     'B (bounded, not proof): run-time contracts of svd (reduced), qr/lq (all modes/options), eigh/eigvalsh/eig, expm, pinv, polar (left and right), '
     'orthogonal_columns, and of tools.math.speigs/speigsh in their dense branch, on '
     'generated rank-2 tensors over all enumerated charge structures incl. rank-deficient, missing and zero blocks, non-blocked '
     'legs, nonzero qtotal, complex entries: reconstruction, isometry/unitarity, S >= 0, positive diagonal, eigenpairs, '
     'Moore-Penrose identities, a = u p / a = p u with p Hermitian positive semi-definite, isometric completion orthogonal to the input, '
     'the min(k, d) extreme eigenvalues, sanity and truthful claims of the factors, requested total charges, contractible inner leg, '
     'inner_qconj; both configurations.',
     ['LAPACK numerics; svd, qr, eigh, eig, expm, orthogonal_columns themselves (charge / leg bookkeeping on 2-D numpy data): bounded only; '
      'that the terms proved for polar / pinv multiply back to the input follows on paper from the *assumed* svd contract '
      '(a = W s VH, isometric W and VH) - the bounded check tests those identities numerically',
      'svd(full_matrices=True): known finding F-25, excluded from the bounded domain'],
     [A_BUILD], configs=BOTH)
info('C06',
     'P: _make_stride (both styles, loop invariant stride = running product), LegCharge.get_qindex (block and offset of a flat '
     'index, IndexError iff out of range). '
     'B (bounded; exhaustive for the stated small-leg domain in the thorough tier): every LegPipe over all small legs '
     '(<= 3 blocks, sizes <= 2, charge window, mod 1..3), 1-2 legs exhaustively and 3-4 legs sampled, both outgoing directions, '
     'sort/bunch on/off: index map bijective, fusion rule per index, agreement with combine_legs placement, combine o split = id, '
     'truthful flags; sort/bunch/project/extend/flip/conj preserve the charge of every surviving index; several pipes at once; pipes of '
     'pipes (conjugation flips every level, splitting level by level gives the legs of the conjugate, contraction with the conjugate); '
     'both configurations. P also: LegCharge/LegPipe copy, conj, flip_charges_qconj, outer_conj incl. LegPipe.conj on a nested pipe '
     '(contracts/c_legs.py), inverse_permutation; LegCharge.bunch / sort / extend: every index keeps its charge (block-wise: same charge, same size, '
     'documented order).',
     ['LegPipe._init_from_legs / map_incoming_flat as deductive obligations: not built (bounded only)',
      'quick tier strides through the pair domain (every 11th pair); only the thorough tier is exhaustive'],
     [A_BUILD], configs=BOTH)
info('C07',
     'P: MPSGeometry._to_valid_site_index/_to_valid_bond_index (finite/segment/infinite, every integer index); form-exponent algebra '
     'with ghost tensors (site, nuL, nuR): MPS.get_B returns the requested exponents using the singular values of the adjacent bonds, '
     'MPS.get_theta(i,n,formL,formR) has formL/formR at the ends and exponent exactly 1 on every inner bond for every n >= 1, '
     'the loop body of convert_form (real get_B + set_B) re-establishes nu(_B[i]) == form[i] and touches no other site. '
     'B (bounded, not proof): constructors (from_full, from_product_state, from_Bflat + canonical_form, from_singlets, from_product_mps_covering with random entangled local '
     'states on interleaved site sets) and random '
     'histories of form conversions/canonicalisations against the dense state, Schmidt values and entropies at every cut, the '
     'recorded norm; infinite MPS under canonical_form_infinite1/2 keep their observables; product states from labels / indices / local vectors mixed; segment MPS (boundary transformations accumulated over repeated canonicalisations) cut out of finite and infinite '
     'states; ExactDiag.full_to_mps / mps_to_full in both directions; project_onto_charge_sector against the dense projector.',
     ['numerical canonicalisation: bounded only',
      'segment MPS, ExactDiag conversions (complex states in a charge sector), project_onto_charge_sector, '
      'from_product_mps_covering with unsorted index maps: bounded only'],
     [])
info('C08',
     'P: BaseEnvironment.get_LP / get_RP, real source, finite and infinite, every L, store on/off: the environment is built from the nearest stored one by absorbing exactly the sites in between, in order (abstract leaf _contract_LP/_contract_RP with that obligation), translated by whole unit cells where needed; the cache keeps its representation invariant (a stored LP[j] covers exactly the sites < j), loses nothing, the other family is untouched, LP[i] is stored afterwards (store=True) or the cache is unchanged (store=False); ValueError iff no stored environment lies within one unit cell (contracts/c_env.py). ' 
     'B (bounded, not proof): every measurement function named in the statement on random finite MPS of one charge sector for all '
     'site families, against the dense state vector and kron operators with explicit Jordan-Wigner strings: expectation_value, '
     'expectation_value_term(s_sum), correlation_function (all i<j, i=j, i>j; fermionic; operator strings), overlap, '
     'MPSEnvironment with bra != ket, get_rho_segment, average_charge/charge_variance, sample_measurements weights.',
     ['the measured numbers themselves are numerical: the deductive part covers the environment bookkeeping (which sites are '
      'absorbed, cache invariant) only; _term_to_ops_list is bounded only; infinite states are compared only through '
      'translation invariance and finite windows'],
     [])
info('C09',
     'P: MPS.permute_sites, real source, every L and every permutation: with the swap as abstract leaf (ghost array content[k] = original '
     'index of the site now at k; swap_sites exchanges two neighbours and is called in range) the site that was at i ends at perm[i], '
     'the argument is not modified, the returned truncation error is the sum over the swaps performed (termination of the sort is not '
     'proved); MPS.compress_svd, finite and infinite, every L, with the tensor operations abstract: the returned error is the sum of the '
     'truncations performed with the given parameters, each bond exactly once, norm updated by exactly their renormalisation factors '
     '(contracts/c_compress.py); index normalisation and the form-exponent algebra of get_B/get_theta/convert_form (shared with C07). '
     'B (bounded, not proof): apply_local_op/apply_product_op (incl. fermionic operators with JW strings, norm tracked), swap_sites, '
     'apply_product_op also with a unitary first factor (canonical form and tracked norm of the result), permute_sites (dense permutation with fermionic signs: old site i moves to perm[i] - the docstring said the inverse, F-45, corrected), '
     'add, group_sites+group_split, enlarge_chi, compress_svd (infidelity <= 2*reported eps), spatial_inversion (reversal, involution) '
     'on random finite MPS of all site families against the dense state; infinite MPS in forms A/B/C: roll/enlarge unit cell and '
     'spatial inversion leave observables unchanged up to relabelling; compress / compress_svd of infinite MPS with non-uniform bond '
     'dimensions: infidelity per unit cell <= 2 * reported error, reported error >= weight discarded on any single bond.',
     ['swap_sites itself (two-site SVD with fermionic swap gate), compression numerics: bounded only'],
     [])
info('C10',
     'P: order_combine_term, real source, any number of factors: the nested loops sort the factors by site and '
     'overall_sign * opval(sorted) == opval(original) in an uninterpreted Z2-graded operator algebra, using only explicit instances '
     'of its defining exchange law (contracts/c_terms.py, shared with C12); '
     'MultiCouplingTerms.multi_coupling_term_handle_JW, real source, any number of factors on any sites, any unit cell length: a JW string right of factor x, and a JW multiplied onto factor x from the right, iff the number of JW-needing factors among 0..x is odd; ValueError iff the total is odd; all sites move by one common shift; CouplingTerms.coupling_term_handle_JW (two factors): string and JW factor iff both need one, ValueError iff exactly one does (contracts/c_terms_jw.py). '
     'B (bounded, not proof): random coupling models (onsite, two-site of any range/sign, 3-site, exponentially decaying; complex '
     'strengths; plus_hc; explicit_plus_hc) on finite open/periodic chains for every site family: dense MPO, term list -> MPO, '
     'bond operators, MPO from bonds, ExactDiag, get_numpy_Hamiltonian (both sources), get_scipy_sparse_Hamiltonian, sorted MPO '
     'legs and grouped sites all equal the dense operator built from the specification with explicit Jordan-Wigner strings; on infinite '
     'chains: segments of the MPO (also after enlarging the unit cell) for uniform couplings and for single local terms; '
     'NearestNeighborModel.group_sites for every L and group size 2 / 3 '
     '(add_local_term, plus_hc, reaching over the unit cell); '
     'Hermiticity.',
     ['MPOGraph path semantics (protocol-level invariant): bounded only', 'ladders/2D lattices and infinite boundaries: '
      'covered only through C19 (pairs) and C11/C13 models, not in this harness', 'predefined models over their parameter space: '
      'not enumerated'],
     [])
info('C12',
     'P: fermionic sign algebra of order_combine_term (bubble sort by site with sign bookkeeping, any length; shared with C10); '
     'MultiCouplingTerms.multi_coupling_term_handle_JW, real source, any number of factors on any sites, any unit cell length: a JW string right of factor x, and a JW multiplied onto factor x from the right, iff the number of JW-needing factors among 0..x is odd; ValueError iff the total is odd; all sites move by one common shift; CouplingTerms.coupling_term_handle_JW (two factors): string and JW factor iff both need one, ValueError iff exactly one does (contracts/c_terms_jw.py); Site.rename_op keeps matrix and JW flag of the renamed operator and touches no other name (contracts/c_site.py). '
     'B (bounded; the site part is a complete enumeration of the stated finite domain): every predefined site class over S <= 3, '
     'Nmax <= 4, q <= 5, fillings and every conserve option: operators equal up to perm across options, spin / fermion / boson / clock '
     'algebra, declared h.c. pairs, operator charges consistent with the connected states, product names; grouped sites of 2-3 '
     'heterogeneous sites with each charge policy; rename_op / add_op / remove_op keep matrix, JW flag and h.c. partner; canonical anticommutation relations for all pairs of fermionic operators on chains '
     '<= 5 through term -> MPO and correlation functions, sampled quadruples through expectation_value_term.',
     ['grouped-site combinations and quadruples are sampled, not exhaustive'],
     [])
info('C19',
     'P: Lattice.mps2lat_idx and Lattice.lat2mps_idx, real source, bc_MPS finite / infinite / segment, dimension 1 and 2, any order: '
     'for i == q*N_sites + r the result is order[r] with x_0 shifted by q*N_rings, and lat2mps_idx of exactly that row returns '
     'q*N_sites + r (postcondition of the one = precondition of the other: the composition is the identity on every integer index); '
     'order and the argument are not written to; uniqueness of division with remainder is proved in the same run (cvc5). The '
     'shared inverse_permutation contract (tools/misc.py). '
     'B (bounded; exhaustive for the stated finite domain in the thorough tier): every lattice class, sizes up to 4x4, orderings '
     '(named and custom permutation), every open/periodic/shifted x finite/infinite combination, all displacement vectors up to the '
     'lattice size and all sublattice pairs: index maps mutually inverse and injective (infinite: on [-2N,3N) and periodic), '
     'mps2lat_values placement, possible_couplings equal to a brute-force enumeration over coordinate pairs, unit-cell assignment of '
     'boundary couplings; neighbour lists against Euclidean distances; irregular, multi-species (positions, pairs), helical lattices; '
     'mps2lat_values_masked for index sets left of / inside / right of the unit cell and every order; helical lattices: couplings against '
     'the enumeration along the helix, with and without a strength.',
     ['assumed, not proved: the representation invariant that the `order` setter establishes with np.lexsort (evaluated on real '
      'lattices by the CPython cross-check); np.mod / np.sum / np.take / a[..., k] on 1-D rows; the composition mps2lat_idx(lat2mps_idx(x)) '
      '== x follows by counting and is not a discharged obligation',
      'possible_couplings, mps2lat_values(_masked), neighbour lists, derived lattice classes: not under contract - the finite domain '
      'named in the property is enumerated instead', 'quick tier samples 40 displacement vectors per lattice and four orderings on sizes <= 3x2',
      'known findings F-15 (open x with shifted y, |dx0| >= Lx), F-35 (NLegLadder nearest_neighbors)'],
     [])
info('C15',
     'P: TruncationError.__add__/copy/from_norm (contracts/c_timeevol.py); _combine_constraints, the priority rule by which truncate() drops a '
     'constraint that would leave no admissible cut (contracts/c_truncation.py). '
     'B (bounded; exhaustive over the stated grid in the thorough tier): truncate() against an independent brute-force statement of '
     'the option lattice (all cuts enumerated) for all spectra of length <= 5 over a value grid with exact degeneracies, zeros, '
     'unnormalised and unsorted input x the full option grid incl. None: kept multiset, T1, norm and discarded weight; svd_theta: '
     'squared relative reconstruction error equals the reported error with the reported renormalization.',
     ['truncate() as an unbounded deductive obligation over symbolic spectra: not built in this round (bounded only)',
      'eigh_rho and decompose_theta_qr_based: bounded only (trace, kept weight, reported error against the reconstruction)'],
     [])
info('C16',
     'P: KrylovBased._to_cache (FIFO of size N_cache) and _calc_result_full (every coefficient vf[j] is paired exactly once with the '
     'Krylov vector q(j), for every N_cache >= 2 and every Krylov dimension N >= 2, across rebuilds of the evicted vectors) '
     '; LanczosEvolution.run: which vector is returned for every normalize / exponent combination (contracts/c_krylov.py). '
     'B (bounded, not proof): LanczosGroundState over N_cache in {2,3,N_max} x reortho x E_shift on random Hermitian block-sparse '
     'operators (normalised vector, E0 = Rayleigh quotient >= minimum of the sector, exact at full Krylov dimension, independent of '
     'N_cache), orthogonal projection, Shift/Sum operator wrappers, Lanczos/Arnoldi evolution vs expm (norm preserving for '
     'anti-Hermitian exponents; the normalize option and its documented defaults), Arnoldi Ritz pairs ordered by `which`, gram_schmidt (also for nearly dependent vectors), GMRES residual.',
     ['Lanczos numerics and convergence: bounded only', 'Arnoldi / GMRES / evolution classes: bounded only; known finding F-36 (GMRES breakdown)'],
     [])
info('C17',
     'P: relational save -> load symbolic execution over an abstract store (ghost path/attribute dictionaries) of the real '
     'save_hdf5/from_hdf5 pairs of ChargeInfo, DipolarChargeInfo, LegCharge [blocks], LegPipe [blocks, compact, flat], Array and the generic '
     'Hdf5Exportable __dict__ export (TruncationError): key agreement (every path/attribute read was written in that format), well-formed '
     'calls, field-by-field equality. '
     'B (bounded, not proof): real HDF5 round trip in every LegCharge format (blocks, compact, flat) and pickle round trip of instances '
     'of every Hdf5Exportable class found by reflection (uncovered classes are listed in coverage.bounded.bounds), of nested containers, '
     'shared references and self-referential containers; MPS with mixed tensor dtypes / norm != 1 / mixed forms, infinite and segment MPS, segment lattices and models; '
     'recursive observational equality and test_sanity() of the loaded object.',
     ['the relational execution covers the small classes only; Site, MPS, MPO, lattices, models, term containers, Hdf5Saver/Loader dispatch '
      'pairs and pickle (__getstate__/__setstate__) are bounded only', 'h5py and pickle themselves'],
     [])
info('C18',
     'P: crash invariant of Simulation.save_results over the full finite file-state domain (ghost states absent/partial/complete(old)/'
     'complete(new) of output and backup; POSIX contracts for exists/unlink/rename; _save_to_file interruptible): an obligation at every '
     'crash point, plus the normal-exit state; the real control flow of save_results is executed symbolically; '
     'Simulation.fix_output_filenames on a resume never destroys a complete file. '
     'IterativeSweeps.run: checkpoints (where simulations save and measure) are emitted exactly between two iterations of the same '
     'run() call - a resumed engine does not repeat the checkpoint it was resumed from. '
     'B (bounded, labelled fault enumeration): the same on the real file system (pickle and HDF5, byte prefixes), and resume from every '
     'early checkpoint of a TEBD time evolution and a two-site DMRG ground-state search compared with the uninterrupted run.',
     ['whole-run equality (resume == uninterrupted) is a history property: bounded only',
      'resumed boundedly: TEBD time evolution, two-site DMRG (with/without mixer, default min_sweeps, measurements at algorithm '
      'checkpoints, a chi_list schedule), TimeDependentCorrelation / bra-ket / spectral-function simulations; other simulation classes are not resumed'],
     ['Path.exists/unlink/rename and _save_to_file obey their POSIX ghost contracts (rename is an atomic replace)'])
info('C11',
     'P: BaseEnvironment.get_LP / get_RP, real source, finite and infinite, every L, store on/off: the environment is built from the nearest stored one by absorbing exactly the sites in between, in order (abstract leaf _contract_LP/_contract_RP with that obligation), translated by whole unit cells where needed; the cache keeps its representation invariant (a stored LP[j] covers exactly the sites < j), loses nothing, the other family is untouched, LP[i] is stored afterwards (store=True) or the cache is unchanged (store=False); ValueError iff no stored environment lies within one unit cell (contracts/c_env.py). ' 
     'MPO.overlap argument handling for infinite MPOs: raises nothing for max_range in {None, inf, n} and contracts '
     'max(L + 2 r, L\' + 2 r\') sites with L substituted for an unknown range; MPO.is_equal: the window of sites compared (argument, own '
     'max_range, or L) and the documented comparison of the three overlaps (contracts/c_mpo.py). '
     'B (bounded, not proof): finite MPOs from random term lists for every site family against dense operators: expectation value, '
     'variance, sum, dagger, is_hermitian, is_equal (false positives and negatives), overlap, distance, to_TermList/from_term_list, '
     'plus_identity, to_TermList with start sites in any order, apply by every compression method within the reported error (also to an '
     'unnormalised state and twice), error order of make_U_I/II for real- and '
     'imaginary-time steps (and the Hamiltonian is unchanged by building them); infinite MPOs: is_equal / is_hermitian / overlap on windows.',
     ['MPO numerics: bounded only; infinite MPOs: is_equal / is_hermitian / overlap on windows with default and explicit max_range '
      'are bounded only; W tensors without identity markers: not covered'],
     [])
info('C13',
     'P (mechanism only, does not decide energies): BaseEnvironment.get_LP / get_RP, real source, finite and infinite, every L, store on/off: the environment is built from the nearest stored one by absorbing exactly the sites in between, in order (abstract leaf _contract_LP/_contract_RP with that obligation), translated by whole unit cells where needed; the cache keeps its representation invariant (a stored LP[j] covers exactly the sites < j), loses nothing, the other family is untouched, LP[i] is stored afterwards (store=True) or the cache is unchanged (store=False); ValueError iff no stored environment lies within one unit cell (contracts/c_env.py). ' 
     'Sweep.get_sweep_schedule for every L, n in {1,2}, finite and infinite: equal '
     'lengths, each step moves by +-1 as announced incl. the wrap to the first entry, every position visited in both directions, the '
     'environment read next is updated; IterativeSweeps.run: checkpoints exactly between iterations of one call; DMRGEngine.post_run_cleanup: '
     'mixer_cleanup, mixer off, final canonicalisation, once each and in this order (contracts/c_sweeps.py). '
     'B (bounded, not proof): run() postconditions of two-site / single-site DMRG x mixers x diag_method x chi limits on chains of '
     '3-8 sites against exact diagonalisation in the charge sector of the initial state: normalised, canonical, same sector, reported '
     'E = <H> within truncation, E >= E_exact, untruncated two-site DMRG with mixer exact in energy and state; every relation of mixer_params.disable_after to the '
     'number of sweeps (mixer switched off before / in / after the last sweep), finite (also with a truncated bond dimension) and infinite: 1D Schmidt '
     'values of norm one, canonical, <psi|psi> = 1; Lanczos options (E_shift), models with explicit_plus_hc; VUMPS engines on the '
     'infinite transverse-field Ising chain against the analytic energy per site.',
     ['convergence in general: this family cannot decide it', 'the deductive contribution to C13 is the sweep schedule and the environment bookkeeping of get_LP/get_RP; the effective '
      'Hamiltonians, mixers and the update of the state are bounded only',
      'known finding F-51 (single-site DMRG + SubspaceExpansion + explicit_plus_hc)'],
     [])
