"""Child process running the bounded stand-in of one property (real tenpy code, may crash)."""
import importlib
import json
import os
import sys
import time
import traceback


class Recorder:
    def __init__(self, journal, tier, seed):
        self.journal = journal
        self.tier, self.seed = tier, seed
        self.evaluations = 0
        self.nontrivial = set()
        self.samples = []
        self.violations = []
        self.errors = []
        self.rule = ''
        self.bounds = {}
        self.exhaustive = False
        self.t0 = time.time()
        self._sig_seen = set()

    def begin(self, desc):
        """Journal the next case before running it (crash attribution)."""
        with open(self.journal, 'w') as f:
            f.write(desc)

    def case(self, key=None, nontrivial=True, sample=None):
        self.evaluations += 1
        if nontrivial and key is not None:
            self.nontrivial.add(key if isinstance(key, (str, int, tuple)) else repr(key))
        if sample is not None and len(self.samples) < 5:
            self.samples.append(sample)

    def violation(self, signature, detail, inputs=None):
        if signature in self._sig_seen and len(self.violations) > 20:
            return
        self._sig_seen.add(signature)
        self.violations.append({'signature': signature, 'detail': detail, 'input': inputs})

    def check(self, cond, signature, detail='', inputs=None):
        if not cond:
            self.violation(signature, detail, inputs)
        return cond

    def guarded(self, signature, fn, inputs=None, expect=None):
        """Run fn(); an unexpected exception is a violation of the contract `raises nothing`."""
        try:
            return True, fn()
        except Exception as e:
            if expect is not None and isinstance(e, expect):
                return False, e
            self.violation(signature + ':' + type(e).__name__, ''.join(traceback.format_exception_only(type(e), e))[-400:], inputs)
            return False, e

    def time_left(self, budget):
        return budget - (time.time() - self.t0)


def main():
    prop, tier, seed, out, journal = sys.argv[1:6]
    seed = int(seed)
    rec = Recorder(journal, tier, seed)
    # library code that draws from the *global* generators (MPS.from_desired_bond_dimension, perturb, RandomUnitaryEvolution ...)
    # must not make a run depend on anything but (property, tier, seed)
    import random as _random
    import numpy as _np
    _np.random.seed(1000 * seed + int(prop[1:]))
    _random.seed(1000 * seed + int(prop[1:]))
    try:
        mod = importlib.import_module(f'bounded.b_{prop}')
        mod.run(rec)
    except Exception:
        rec.errors.append(traceback.format_exc()[-1500:])
    data = {'evaluations': rec.evaluations, 'distinct_nontrivial': len(rec.nontrivial), 'rule': rec.rule,
            'bounds': rec.bounds, 'samples': rec.samples, 'violations': rec.violations, 'errors': rec.errors,
            'exhaustive': rec.exhaustive}
    with open(out, 'w') as f:
        json.dump(data, f, default=str)
    if os.path.exists(journal):
        os.unlink(journal)


if __name__ == '__main__':
    main()
