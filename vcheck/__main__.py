"""./check <property> --tier quick|thorough : decide one property on the current /repo working tree.

exit 0  property held on everything explored (KNOWN-FINDING lines possible)
exit 1  VIOLATION property=<id> replay=<path>   (a failed named obligation or a failing bounded case)
exit 3  the checker itself is broken (never reported as a violation)
"""
import argparse
import glob
import importlib
import json
import os
import re
import subprocess
import sys
import time
import traceback

ROOT = os.path.dirname(os.path.dirname(os.path.abspath(__file__)))
sys.path.insert(0, ROOT)
os.chdir(ROOT)

from pyvc import contract as pc, solve, source   # noqa: E402


def load_contracts():
    for f in sorted(glob.glob(os.path.join(ROOT, 'contracts', 'c_*.py'))):
        importlib.import_module('contracts.' + os.path.basename(f)[:-3])
    return pc.REGISTRY


def load_known():
    with open(os.path.join(ROOT, 'known_findings.json')) as f:
        return json.load(f).get('findings', [])


def match_known(known, prop, signature):
    for k in known:
        if k.get('status') != 'finding' or k.get('property') != prop:
            continue
        if re.search(k['signature'], signature):
            return k
    return None


class ModelView:
    """Read concrete values of the symbolic pre-state out of a z3 model."""

    def __init__(self, model):
        self.m = model
        import z3
        self.z3 = z3

    def _eval(self, t):
        return self.m.eval(t, model_completion=True)

    def int(self, name):
        return self._eval(self.z3.Int(name)).as_long()

    def bool(self, name):
        return self.z3.is_true(self._eval(self.z3.Bool(name)))

    def real(self, name):
        v = self._eval(self.z3.Real(name))
        from fractions import Fraction
        return float(Fraction(v.numerator_as_long(), v.denominator_as_long()))

    def arr(self, name, n=None, lenname=None, cap=12):
        z3 = self.z3
        if n is None:
            n = self.int(lenname or f'len({name})')
        n = max(0, min(n, cap))
        a = z3.Array(name, z3.IntSort(), z3.IntSort())
        return [self._eval(z3.Select(a, i)).as_long() for i in range(n)]

    def rarr(self, name, n=None, lenname=None, cap=12):
        z3 = self.z3
        from fractions import Fraction
        if n is None:
            n = self.int(lenname or f'len({name})')
        n = max(0, min(n, cap))
        a = z3.Array(name, z3.IntSort(), z3.RealSort())
        out = []
        for i in range(n):
            v = self._eval(z3.Select(a, i))
            out.append(float(Fraction(v.numerator_as_long(), v.denominator_as_long())))
        return out


def write_replay(prop, name, payload):
    os.makedirs(os.path.join(ROOT, 'replay'), exist_ok=True)
    safe = re.sub(r'[^A-Za-z0-9_.-]+', '_', name)[:100]
    path = os.path.join('replay', f'{prop}_{safe}.json')
    with open(os.path.join(ROOT, path), 'w') as f:
        json.dump(payload, f, indent=1, default=str)
    return path


def run_deductive(prop, tier, ev, known):
    """Returns (violations [(signature, replay_path, suffix)], known_hits [str])."""
    contracts = [c for c in load_contracts() if prop in c.props]
    violations, known_hits = [], []
    tot_ob = tot_dis = 0
    z3s = cvs = 0.0
    funcs = []
    samples = []
    trusted = set()
    downgraded = []
    kf_obligations = 0
    seen_sig = set()
    xcheck_fail = {}
    for c in contracts:
        rep, obs = pc.generate(c)
        entry = {'contract': c.name, 'target': c.target, 'ast_sha256': rep.ast_hash, 'dropped_constructs': rep.dropped,
                 'paths': rep.paths, 'outcomes': rep.outcomes, 'gen_s': round(rep.gen_secs, 2)}
        if rep.error:
            # structural: obligations could not be generated -> not a failed obligation
            print(f'PROOF-NOT-REESTABLISHED {c.name}: {rep.error}')
            entry['status'] = 'not-reestablished: ' + rep.error
            downgraded.append({'contract': c.name, 'reason': rep.error})
            funcs.append(entry)
            continue
        if rep.unsupported_paths:
            msg = f'{len(rep.unsupported_paths)} path(s) outside the verified subset: {rep.unsupported_paths[0]}'
            print(f'PROOF-NOT-REESTABLISHED {c.name}: {msg}')
            entry['status'] = 'partial: ' + msg
            downgraded.append({'contract': c.name, 'reason': msg})
        if rep.vacuous:
            print(f'CHECK-ERROR {c.name}: precondition unsatisfiable (vacuous contract)')
            ev['errors'].append(f'{c.name}: vacuous precondition')
            continue
        if not obs and rep.unsupported_paths:
            funcs.append(entry)
            continue
        if not obs:
            print(f'CHECK-ERROR {c.name}: zero obligations generated')
            ev['errors'].append(f'{c.name}: zero obligations')
            continue
        # de-duplicate identical obligations reached along different paths
        uniq = {}
        order = []
        for I, ob, dec in obs:
            key = (ob.name, solve.ob_to_smt2(ob)) if False else None
            order.append((I, ob, dec))
        results = solve.discharge([ob for _, ob, _ in order])
        trusted |= rep.trusted
        n_ok = 0
        failed_here = []
        for (I, ob, dec), r in zip(order, results):
            st, zs, cs, backend, reason = r
            z3s += zs
            cvs += cs
            tot_ob += 1
            if st == 'unsat':
                tot_dis += 1
                n_ok += 1
                if len(samples) < 6 and ob.kind.startswith(('post', 'raises', 'L')):
                    samples.append({'obligation': ob.name, 'clause': ob.info.get('clause'), 'status': 'discharged',
                                    'backend': backend, 'secs': round(zs + cs, 3)})
            else:
                failed_here.append((I, ob, dec, st, reason))
        entry['obligations'] = len(order)
        entry['discharged'] = n_ok
        if c.sampler is not None:
            # engine-vs-CPython differential: the clause text that was just proved, evaluated on real runs of the real function
            try:
                from pyvc import runtime
                done, skipped, fails = runtime.crosscheck(c, 60 if tier == 'quick' else 1500, ev.get('seed', 0))
                entry['cpython_crosscheck'] = {'evaluated': done, 'precondition_false': skipped, 'failures': fails}
                if done == 0:
                    ev['errors'].append(f'{c.name}: CPython cross-check evaluated nothing (sampler never meets the precondition)')
                if fails and not failed_here:
                    print(f'CHECK-ERROR {c.name}: all obligations discharged but the real function violates the clause on a real input: '
                          f'{fails[0]} (verifier unsound or contract not evaluable)')
                    ev['errors'].append(f'{c.name}: CPython cross-check disagrees with the proof: {fails[0]}')
                xcheck_fail[c.name] = fails
            except Exception as e:
                ev['errors'].append(f'{c.name}: CPython cross-check crashed: {e!r}')
        funcs.append(entry)
        # group failures by obligation name (several paths may fail the same named obligation)
        by_name = {}
        for item in failed_here:
            by_name.setdefault(item[1].name, []).append(item)
        for oname, items in by_name.items():
            sig = oname
            confirmed = None
            solver_out = []
            for I, ob, dec, st, reason in items:
                solver_out.append({'path': dec, 'status': st, 'reason': reason, 'clause': ob.info.get('clause')})
                if confirmed is None and st == 'sat' and c.replay is not None:
                    try:
                        m = solve.get_model(ob)
                        if m is not None:
                            rr = c.replay(ModelView(m), I.ghost)
                            if rr is not None:
                                ok, detail = rr['run']()
                                if not ok:
                                    confirmed = {'input': rr['input'], 'observed': detail}
                    except Exception as e:   # replay harness problem: stay with no-failing-input-found
                        solver_out.append({'replay_error': repr(e)})
            if confirmed is None and xcheck_fail.get(c.name):
                confirmed = xcheck_fail[c.name][0]
            if confirmed is None and c.hunt is not None:
                try:
                    confirmed = c.hunt()
                except Exception as e:
                    solver_out.append({'hunt_error': repr(e)})
            k = match_known(known, prop, sig + (' ' + json.dumps(confirmed['input'], default=str) if confirmed else ''))
            if k is not None:
                kf_obligations += len(items)
                tot_ob -= len(items)
                if k['what'] not in known_hits:
                    known_hits.append(k['what'])
                continue
            payload = {'property': prop, 'failed_obligation': oname, 'contract': c.name, 'target': c.target,
                       'clause': items[0][1].info.get('clause'), 'solver_output': solver_out,
                       'confirmed_on_real_code': confirmed,
                       'how_to_replay': f'./check {prop} --replay <this file>'}
            path = write_replay(prop, oname, payload)
            violations.append((sig, path, '' if confirmed else ' no-failing-input-found'))
    if any('.pyx::' in f['target'] for f in funcs):
        ev.setdefault('assumptions', []).append(
            'extracted Cython kernels (pyvc/pyx.py): Cython compiles the Python-like body with Python semantics; C integers do not '
            'overflow; typed memoryview/buffer access is plain element access; _np_empty_1D(n, .) has n elements; '
            'std::vector.push_back appends a copy; cdivision(True) and wraparound(False) are modelled, everything else listed under '
            'dropped_constructs of the function')
    cov = ev['coverage']
    cov['obligations'] = tot_ob
    cov['discharged'] = tot_dis
    cov['known_finding_obligations'] = kf_obligations
    cov['functions_under_contract'] = funcs
    cov['solver_time_s'] = {'z3': round(z3s, 2), 'cvc5': round(cvs, 2)}
    cov['trusted_base'] = sorted(trusted | {'CPython ast', 'pyvc symbolic interpreter', 'z3 4.x/5.x', 'cvc5 (fallback)'})
    cov['downgraded'] = downgraded
    cov['samples'] = samples
    return violations, known_hits


def run_bounded(prop, tier, seed, ev, known):
    modpath = os.path.join(ROOT, 'bounded', f'b_{prop}.py')
    violations, known_hits = [], []
    if not os.path.exists(modpath):
        ev['coverage']['bounded'] = None
        return violations, known_hits
    from vcheck import overlay, propinfo
    import shutil
    configs = propinfo.INFO.get(prop, {}).get('configs', ['compiled'])
    ov = overlay.make_overlay()      # current /repo sources + extension rebuilt from the current .pyx
    merged = {'evaluations': 0, 'distinct_nontrivial': 0, 'samples': [], 'per_config': {}}
    t0 = time.time()
    try:
        for cfg in configs:
            out = os.path.join(ROOT, 'replay', f'.bounded_{prop}_{cfg}_{os.getpid()}.json')
            journal = out + '.journal'
            cmd = [sys.executable, '-m', 'vcheck.bounded_child', prop, tier, str(seed), out, journal]
            env = dict(os.environ)
            env['PYTHONPATH'] = ov + os.pathsep + ROOT
            env['VERIF_OVERLAY'] = ov
            env['VERIF_CONFIG'] = cfg
            env.pop('TENPY_NO_CYTHON', None)
            if cfg == 'python':
                env['TENPY_NO_CYTHON'] = '1'
            limit = 1200 if tier == 'quick' else 4 * 3600
            try:
                p = subprocess.run(cmd, env=env, timeout=limit, capture_output=True, text=True)
                rc, err = p.returncode, p.stderr[-2000:]
            except subprocess.TimeoutExpired:
                rc, err = -999, 'bounded child timed out'
            data = None
            if os.path.exists(out):
                with open(out) as f:
                    data = json.load(f)
                os.unlink(out)
            last = None
            if os.path.exists(journal):
                with open(journal) as f:
                    last = f.read()
                os.unlink(journal)
            pre = f'bounded[{cfg}]:'
            if data is None:
                if rc < 0 and rc != -999:
                    # abnormal termination (signal) of the interpreter running real tenpy code
                    sig = f'{pre}abnormal-termination signal={-rc} during: {last}'
                    k = match_known(known, prop, sig)
                    if k:
                        if k['what'] not in known_hits:
                            known_hits.append(k['what'])
                    else:
                        path = write_replay(prop, f'bounded_{cfg}_crash', {'property': prop, 'config': cfg, 'signal': -rc,
                                                                          'last_case': last, 'stderr': err})
                        violations.append((sig, path, ''))
                    merged['per_config'][cfg] = {'evaluations': 0, 'crashed': True}
                    continue
                ev['errors'].append(f'bounded child [{cfg}] failed rc={rc}: {err[-500:]}')
                merged['per_config'][cfg] = {'evaluations': 0, 'error': err[-300:]}
                continue
            for v in data['violations']:
                sig = pre + v['signature']
                k = match_known(known, prop, sig)
                if k:
                    if k['what'] not in known_hits:
                        known_hits.append(k['what'])
                    continue
                path = write_replay(prop, f'bounded_{cfg}_' + v['signature'], {'property': prop, 'config': cfg, **v})
                violations.append((sig, path, ''))
            for e in data.get('errors', []):
                ev['errors'].append(f'bounded[{cfg}]: ' + e)
            merged['evaluations'] += data['evaluations']
            merged['distinct_nontrivial'] += data['distinct_nontrivial']
            merged['per_config'][cfg] = {'evaluations': data['evaluations'], 'distinct_nontrivial': data['distinct_nontrivial']}
            for k in ('rule', 'bounds', 'exhaustive'):
                if k in data:
                    merged[k] = data[k]
            if not merged['samples']:
                merged['samples'] = data.get('samples', [])
    finally:
        shutil.rmtree(ov, ignore_errors=True)
    merged['wall_s'] = round(time.time() - t0, 1)
    merged['configurations'] = configs
    merged['extension_build'] = 'rebuilt from the current _npc_helper.pyx, content hash ' + overlay.pyx_hash()
    merged['label'] = 'bounded stand-in (run-time contracts on the real functions); never counted as proved'
    ev['coverage']['bounded'] = merged
    return violations, known_hits


def main():
    ap = argparse.ArgumentParser()
    ap.add_argument('prop')
    ap.add_argument('--tier', default=os.environ.get('VERIF_TIER', 'quick'), choices=['quick', 'thorough'])
    ap.add_argument('--replay')
    ap.add_argument('--only', choices=['deductive', 'bounded'])
    a = ap.parse_args()
    prop = a.prop
    seed = int(os.environ.get('VERIF_SEED', '0'))
    if a.replay:
        with open(a.replay) as f:
            print(f.read())
        a.only = None
    t0 = time.time()
    from vcheck import propinfo
    info = propinfo.INFO.get(prop, {})
    ev = {'property_id': prop, 'tier': a.tier, 'seed': seed, 'level': info.get('level', 'other'),
          'coverage': {'explanation': info.get('explanation', ''),
                       'checker_cmd': f'./check {prop} --tier {a.tier}'},
          'assumptions': list(info.get('assumptions', [])), 'errors': [], 'wall_s': 0.0, 'violations': 0}
    known = load_known()
    violations, hits = [], []
    if not a.replay:
        for f in glob.glob(os.path.join(ROOT, 'replay', f'{prop}_*.json')):
            os.unlink(f)       # replay files are per run
    try:
        if a.only in (None, 'deductive'):
            source.clear_cache()
            v, h = run_deductive(prop, a.tier, ev, known)
            violations += v
            hits += h
        if a.only in (None, 'bounded'):
            v, h = run_bounded(prop, a.tier, seed, ev, known)
            violations += v
            hits += h
    except Exception:
        traceback.print_exc()
        print('CHECK-ERROR: checker crashed (not a violation)')
        sys.exit(3)
    cov = ev['coverage']
    b = cov.get('bounded') or {}
    cov['evaluations'] = int(b.get('evaluations', 0)) + int(cov.get('obligations', 0))
    cov['distinct_nontrivial'] = int(b.get('distinct_nontrivial', 0)) + int(cov.get('discharged', 0))
    cov['rule'] = ('deductive: one evaluation per generated proof obligation, non-trivial = discharged by a solver '
                   '(not by the simplifier alone counts too); bounded: ' + str(b.get('rule', 'n/a')))
    if not cov.get('samples'):
        cov['samples'] = (b.get('samples') or [])[:3] or ['(none)']
    cov['unverified'] = info.get('unverified', [])
    ev['violations'] = len(violations)
    ev['violation_signatures'] = [v[0] for v in violations][:200]
    ev['known_findings_reported'] = hits
    ev['wall_s'] = round(time.time() - t0, 2)
    os.makedirs(os.path.join(ROOT, 'evidence'), exist_ok=True)
    with open(os.path.join(ROOT, 'evidence', f'{prop}.json'), 'w') as f:
        json.dump(ev, f, indent=1, default=str)
    for h in hits:
        print(f'KNOWN-FINDING: property={prop} {h}')
    for n, (sig, path, suffix) in enumerate(violations):
        if n == 25:
            print(f'  ... {len(violations) - 25} more violations (all listed in the evidence/replay files)')
            break
        print(f'  failed: {sig}')
        print(f'VIOLATION property={prop} replay={path}{suffix}')
    print(f'{prop}: obligations={cov.get("obligations", 0)} discharged={cov.get("discharged", 0)} '
          f'bounded_evaluations={b.get("evaluations", 0)} violations={len(violations)} wall={ev["wall_s"]}s')
    if ev['errors']:
        for e in ev['errors']:
            print('CHECK-ERROR:', e)
        if not violations:
            sys.exit(3)
    if cov.get('obligations', 0) == 0 and not b.get('evaluations'):
        print('CHECK-ERROR: nothing was checked')
        sys.exit(3)
    sys.exit(1 if violations else 0)


if __name__ == '__main__':
    main()
