"""Rebuild discipline for the compiled configuration (C04: 'only through a rebuild from the current tree').

Bounded checks never trust a prebuilt _npc_helper*.so lying in /repo: the extension is rebuilt from the
current tenpy/linalg/_npc_helper.pyx (cached by content hash under /verif/.cache), and the checks
import tenpy from an overlay = copy of /repo/tenpy (current working tree .py files) + that build.
Scratch directories live under $TMPDIR outside /repo and /verif and are removed after use.
"""
import fcntl
import glob
import hashlib
import os
import shutil
import subprocess
import sys
import tempfile

ROOT = os.path.dirname(os.path.dirname(os.path.abspath(__file__)))
REPO = os.environ.get('VERIF_REPO_ROOT', '/repo')
CACHE = os.path.join(ROOT, '.cache', 'npc')
PY = '/venv/bin/python'


def tenpy_src():
    r = os.environ.get('VERIF_REPO')
    if r:   # mutation self-test: a scratch copy containing tenpy/
        return os.path.join(r, 'tenpy')
    return os.path.join(REPO, 'tenpy')


def pyx_hash():
    h = hashlib.sha256()
    for p in (os.path.join(tenpy_src(), 'linalg', '_npc_helper.pyx'), os.path.join(REPO, 'setup.py')):
        with open(p, 'rb') as f:
            h.update(f.read())
    return h.hexdigest()[:20]


def ensure_so():
    """-> path of the compiled extension built from the current .pyx (build if not cached)."""
    h = pyx_hash()
    d = os.path.join(CACHE, h)
    os.makedirs(CACHE, exist_ok=True)
    with open(os.path.join(CACHE, '.lock'), 'w') as lock:
        fcntl.flock(lock, fcntl.LOCK_EX)
        found = glob.glob(os.path.join(d, '_npc_helper*.so'))
        if found:
            return found[0]
        scratch = tempfile.mkdtemp(prefix='tenpy_build_')
        try:
            shutil.copytree(tenpy_src(), os.path.join(scratch, 'tenpy'),
                            ignore=shutil.ignore_patterns('__pycache__', '*.so', '*.c', '*.cpp'))
            for f in ('setup.py', 'pyproject.toml', 'README.rst'):
                if os.path.exists(os.path.join(REPO, f)):
                    shutil.copy(os.path.join(REPO, f), scratch)
            p = subprocess.run([PY, 'setup.py', 'build_ext', '--inplace'], cwd=scratch, capture_output=True, text=True)
            built = glob.glob(os.path.join(scratch, 'tenpy', 'linalg', '_npc_helper*.so'))
            if p.returncode != 0 or not built:
                raise RuntimeError('build of _npc_helper.pyx failed:\n' + p.stdout[-1500:] + p.stderr[-1500:])
            os.makedirs(d, exist_ok=True)
            shutil.copy(built[0], d)
            # keep the cache small: drop other hashes
            for other in glob.glob(os.path.join(CACHE, '*')):
                if os.path.isdir(other) and other != d and len(glob.glob(os.path.join(CACHE, '*'))) > 4:
                    shutil.rmtree(other, ignore_errors=True)
            return glob.glob(os.path.join(d, '_npc_helper*.so'))[0]
        finally:
            shutil.rmtree(scratch, ignore_errors=True)


def make_overlay():
    """-> directory containing tenpy/ = current working-tree sources + freshly built extension."""
    so = ensure_so()
    d = tempfile.mkdtemp(prefix='tenpy_overlay_')
    shutil.copytree(tenpy_src(), os.path.join(d, 'tenpy'), ignore=shutil.ignore_patterns('__pycache__', '*.so', '*.c', '*.cpp'))
    shutil.copy(so, os.path.join(d, 'tenpy', 'linalg'))
    return d


if __name__ == '__main__':
    print(ensure_so())
