#!/usr/bin/env python3
"""stability sweep: solve every obligation of every registered contract, list the slow / undecided ones.
usage: tools/slow_obs.py [threshold_seconds] [contract-name-substring]"""
import sys, glob, os, importlib, time
sys.path.insert(0, '/verif')
import z3
from pyvc import contract as C, solve
thr = float(sys.argv[1]) if len(sys.argv) > 1 else 1.0
sub = sys.argv[2] if len(sys.argv) > 2 else ''
for f in sorted(glob.glob('/verif/contracts/c_*.py')):
    importlib.import_module('contracts.' + os.path.basename(f)[:-3])
rows = []
for c in C.REGISTRY:
    if sub not in c.name:
        continue
    t0 = time.time()
    rep, obs = C.generate(c)
    res = solve.discharge([ob for _, ob, _ in obs])
    for (_, ob, dec), (st, zs, cs, be, reason) in zip(obs, res):
        if st != 'unsat' or zs + cs > thr:
            rows.append((round(zs + cs, 1), st, be, ob.name, dec))
    print(f'{c.name}: {len(obs)} obligations, gen {rep.gen_secs:.1f}s, total {time.time() - t0:.1f}s', flush=True)
print('--- slow or undecided')
for r in sorted(rows, reverse=True):
    print(r)
