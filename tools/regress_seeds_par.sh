#!/bin/sh
# tools/regress_seeds_par.sh [jobs]  - tools/regress_seeds.sh, one process per property (checks of one property never run concurrently:
# they share evidence/<id>.json and replay/), [jobs] properties at a time.  Output: /tmp/regress_<id>.log, summary on stdout.
cd /verif
J=${1:-4}
ls seeded | sed 's/-.*//' | sort -u | xargs -P $J -I{} sh -c 'tools/regress_seeds.sh {}- > /tmp/regress_{}.log 2>&1'
cat /tmp/regress_C*.log | sort
