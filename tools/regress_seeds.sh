#!/bin/sh
# tools/regress_seeds.sh [pattern]  - every kept seeded change must still be caught by the check of its property
# (scratch copy + VERIF_REPO; /repo is not touched).  Prints one line per seed: CAUGHT / MISSED.
cd /verif
for d in seeded/*${1}*/; do
  id=$(basename $d)
  P=$(python3 -c "import json;print(json.load(open('$d/meta.json'))['property'])")
  O=$(python3 -c "import json;print(json.load(open('$d/meta.json')).get('obsolete_after',''))")
  if [ -n "$O" ]; then echo "$id OBSOLETE ($O)"; continue; fi
  S=$(mktemp -d /tmp/seedreg_XXXXXX)
  cp -r /repo/tenpy $S/tenpy
  if ! (cd $S && patch -p1 -s --no-backup-if-mismatch < /verif/$d/patch.diff >/dev/null 2>&1); then echo "$id PATCH-DOES-NOT-APPLY"; rm -rf $S; continue; fi
  out=$(VERIF_REPO=$S PYTHONPATH=$S ./check $P 2>&1); rc=$?
  n=$(echo "$out" | grep -c "^VIOLATION")
  if [ $rc -eq 1 ] && [ $n -gt 0 ]; then echo "$id CAUGHT ($n violation lines)"; else echo "$id MISSED rc=$rc"; fi
  rm -rf $S
done
