#!/usr/bin/env python3
"""Self-test helper: apply a textual mutation to a scratch copy of /repo/tenpy and run a check on it.
usage: tools/mutate.py <prop> <relpath> <old> <new> [--bounded]"""
import os, shutil, subprocess, sys, tempfile
prop, rel, old, new = sys.argv[1:5]
both = '--bounded' in sys.argv
d = tempfile.mkdtemp(prefix='pyvcmut_')
try:
    shutil.copytree('/repo/tenpy', os.path.join(d, 'tenpy'), ignore=shutil.ignore_patterns('__pycache__'))
    p = os.path.join(d, rel)
    s = open(p).read()
    assert s.count(old) >= 1, 'pattern not found'
    open(p, 'w').write(s.replace(old, new, 1))
    env = dict(os.environ, VERIF_REPO=d, PYTHONPATH=d)
    cmd = ['/verif/check', prop] + ([] if both else ['--only', 'deductive'])
    r = subprocess.run(cmd, env=env, capture_output=True, text=True)
    print(r.stdout[-1500:], r.stderr[-500:])
    print('exit', r.returncode)
finally:
    shutil.rmtree(d)
