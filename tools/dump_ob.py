#!/usr/bin/env python3
"""debug aid: tools/dump_ob.py <contract name> <obligation substring>  -> prints the path condition and goal (SMT2 via z3)"""
import sys, glob, os, importlib
sys.path.insert(0, '/verif')
import z3
from pyvc import contract as C
for f in sorted(glob.glob('/verif/contracts/c_*.py')):
    importlib.import_module('contracts.' + os.path.basename(f)[:-3])
c = [c for c in C.REGISTRY if c.name == sys.argv[1]][0]
rep, obs = C.generate(c)
print('error:', rep.error, 'paths', rep.paths, 'unsupported', rep.unsupported_paths)
for I, ob, dec in obs:
    if sys.argv[2] in ob.name:
        s = z3.Solver()
        for p in ob.pc:
            s.add(p)
        s.add(z3.Not(ob.goal))
        if 'strU' in s.sexpr():
            from pyvc.values import str_axioms
            s.add(*str_axioms())
        s.set('timeout', 10000)
        print('==', ob.name, dec, s.check())
        if len(sys.argv) > 3:
            print('\n'.join(str(z3.simplify(p)) for p in ob.pc)); print('GOAL', z3.simplify(ob.goal))
