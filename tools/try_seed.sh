#!/bin/sh
# tools/try_seed.sh <dir with patch.diff, demo.py> <property> [more properties...]
# applies the seeded change to /repo, runs the demo (must FAIL), the checks (should alarm), and reverts.
D=$1; shift
cd /repo || exit 2
git diff --quiet || { echo "/repo has uncommitted changes"; exit 2; }
echo "== demo on the unchanged tree"; PYTHONPATH=/repo /venv/bin/python $D/demo.py 2>&1 | tail -2; echo "rc=$?"
git apply $D/patch.diff || { echo "patch does not apply"; exit 2; }
echo "== demo with the change"; PYTHONPATH=/repo /venv/bin/python $D/demo.py 2>&1 | tail -2
for P in "$@"; do
  echo "== check $P with the change"; (cd /verif && ./check $P 2>&1 | grep -v Warn | grep "failed\|VIOLATION\|^$P:\|CHECK-ERROR\|PROOF-NOT" | cut -c1-220 | head -12; )
done
git checkout -- . ; git status --short | head -3
