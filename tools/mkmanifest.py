#!/usr/bin/env python3
"""Regenerate MANIFEST.json from vcheck/propinfo.py (claimed properties = those with a propinfo entry)."""
import json, os, sys
ROOT = os.path.dirname(os.path.dirname(os.path.abspath(__file__)))
sys.path.insert(0, ROOT)
from vcheck import propinfo
props = [json.loads(l) for l in open(os.path.join(ROOT, 'properties.jsonl'))]
NA = getattr(propinfo, 'NOT_APPLICABLE', {})
checks, na = [], []
for p in props:
    pid = p['id']
    if pid in propinfo.INFO:
        i = propinfo.INFO[pid]
        checks.append({
            'property_id': pid,
            'quick_cmd': f'./check {pid} --tier quick',
            'thorough_cmd': f'./check {pid} --tier thorough',
            'evidence_file': f'evidence/{pid}.json',
            'replay_cmd_template': f'./check {pid} --replay {{path}}',
            'engine': 'pyvc',
            'level_claimed': {'category': i['level'], 'text': i['explanation'], 'design_ref': f'DESIGN.md section 4 ({pid})'},
            'level_note': '; '.join(i['assumptions']) + ' || not verified: ' + '; '.join(i['unverified']),
            'technique': i.get('technique', 'contract-based deductive verification: sidecar contracts on the real /repo functions, '
                                            'VCs generated from the AST by pyvc and discharged by z3/cvc5; bounded run-time-contract '
                                            'stand-in (labelled bounded) for what is out of reach'),
        })
    else:
        na.append({'property_id': pid, 'reason': NA.get(pid, 'check not built yet (build round in progress)')})
m = {'version': 1, 'setup_cmd': './setup.sh',
     'hooks': {'guard': 'TENPY_VERIF', 'enable': 'no hooks: the verifier reads /repo source and run-time contracts wrap functions from outside',
               'baseline_off_cmd': 'cd /repo && /venv/bin/python -m pytest -ra -q -p no:cacheprovider --timeout=900 --continue-on-collection-errors',
               'source_commits': [], 'add_only': True},
     'engines': [{'name': 'pyvc', 'path': 'pyvc/', 'serves_properties': [c['property_id'] for c in checks],
                  'kind_free_text': 'AST->z3/cvc5 verification-condition generator over the real /repo source with sidecar contracts (contracts/), '
                                    'plus bounded run-time-contract harnesses (bounded/)'}],
     'checks': checks, 'not_applicable': na,
     'notes': 'fix: commits in /repo and known findings are listed in known_findings.json; DESIGN.md sections 8 and 10.4; seeded changes and which check catches them: DESIGN.md 10.5 and seeded/REGRESSION.txt.'}
json.dump(m, open(os.path.join(ROOT, 'MANIFEST.json'), 'w'), indent=1)
import jsonschema
jsonschema.validate(m, json.load(open('/root/.vp/MANIFEST.schema.json')))
for c in checks:
    f = os.path.join(ROOT, c['evidence_file'])
    if os.path.exists(f):
        jsonschema.validate(json.load(open(f)), json.load(open('/root/.vp/EVIDENCE.schema.json')))
print('manifest ok:', [c['property_id'] for c in checks])
