#!/usr/bin/env python3
"""keep a confirmed seeded change: tools/keep_seed.py <id> <src dir> '<json meta>'"""
import json, os, shutil, sys
sid, src, meta = sys.argv[1], sys.argv[2], json.loads(sys.argv[3])
d = os.path.join('/verif/seeded', sid)
os.makedirs(d, exist_ok=True)
for f in ('patch.diff', 'demo.py'):
    shutil.copy(os.path.join(src, f), d)
if os.path.exists(os.path.join(src, 'notes.md')):
    shutil.copy(os.path.join(src, 'notes.md'), os.path.join(d, 'agent_notes.md'))
json.dump(meta, open(os.path.join(d, 'meta.json'), 'w'), indent=1)
print('kept', d)
