#!/bin/sh
# tools/run_all.sh [quick|thorough] [ids...] - run the registered check of every property one after the other on /repo,
# one summary line per property (rc, seconds, the check's own summary) on stdout and in run_all_<tier>.log (scratch, not committed)
cd "$(dirname "$0")/.."
T=${1:-quick}; shift
IDS=${@:-"C01 C02 C03 C04 C05 C06 C07 C08 C09 C10 C11 C12 C13 C14 C15 C16 C17 C18 C19 C20"}
: > run_all_$T.log
for p in $IDS; do
  s=$(date +%s)
  out=$(./check $p --tier $T 2>&1); rc=$?
  e=$(date +%s)
  line="$p rc=$rc $((e - s))s $(echo "$out" | grep "^$p:" | tail -1) $(echo "$out" | grep -c '^VIOLATION') violation-lines $(echo "$out" | grep -c '^KNOWN-FINDING') known"
  echo "$line" | tee -a run_all_$T.log
  echo "$out" | grep "CHECK-ERROR\|PROOF-NOT\|failed:" | sort -u | head -5 | tee -a run_all_$T.log
done
