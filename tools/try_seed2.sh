#!/bin/sh
# tools/try_seed2.sh <dir with patch.diff, demo.py> <property> [more properties...]
# like try_seed.sh, but on a scratch copy of /repo/tenpy (VERIF_REPO), so that checks running on /repo at the same time are not disturbed
D=$1; shift
S=$(mktemp -d /tmp/seedtry_XXXXXX)
cp -r /repo/tenpy $S/tenpy
find $S -name __pycache__ -type d -prune -exec rm -rf {} + 2>/dev/null
echo "== demo on the unchanged copy"; PYTHONPATH=$S /venv/bin/python $D/demo.py 2>&1 | tail -1
(cd $S && patch -p1 -s < $D/patch.diff) || { echo "patch does not apply"; rm -rf $S; exit 2; }
echo "== demo with the change"; PYTHONPATH=$S /venv/bin/python $D/demo.py 2>&1 | tail -1
for P in "$@"; do
  echo "== check $P with the change"; (cd /verif && VERIF_REPO=$S PYTHONPATH=$S ./check $P ${ONLY:+--only $ONLY} 2>&1 | grep -v Warn | grep "failed\|VIOLATION\|^$P:\|CHECK-ERROR\|PROOF-NOT" | cut -c1-220 | head -10; )
done
rm -rf $S
