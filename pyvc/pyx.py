"""Mechanical extraction of the Python-like Cython kernels of a .pyx file into the verified Python subset.

The extraction is line-based and runs on every check over the current .pyx text (never a stored copy):

* a top-level ``def`` / ``cdef`` / ``cpdef`` function is cut out by indentation;
* its signature loses the C return type, ``inline``, ``noexcept``, ``nogil``, ``except *`` and the C types of
  the parameters (``intp_t[::1] a`` -> ``a``, ``bint cstyle=1`` -> ``cstyle=1``, ``vector[idx_tuple]& out`` -> ``out``);
* ``cdef T x, y = e`` declarations become the assignments of their initialised declarators (``y = e``); a declarator
  without initialiser of a scalar C type is dropped (reading it before assignment is then an error of the symbolic run),
  one of a struct type ``T`` becomes ``x = _cstruct()`` (an object with assignable fields);
* C casts ``<T>e`` are removed; ``with nogil:`` becomes ``if True:``;
* the decorators are dropped but ``cdivision(True)`` and ``wraparound(False)`` are *honoured*:
  with cdivision every ``%`` / ``//`` of the body is rewritten to ``c_mod`` / ``c_div`` (C truncation semantics),
  with wraparound(False) a negative index is an error instead of wrapping (together with the index-range obligations
  of the symbolic run this covers boundscheck(False): no access outside the buffer).

What this does **not** model (listed as assumptions in the evidence): fixed-width integers (treated as mathematical
integers: no overflow), that Cython compiles the remaining Python-like body with Python semantics, typed memoryview /
buffer access being plain element access, the GIL.  A function containing any other Cython-only construct (pointers,
address-of, ``for .. from``, ``cdef`` inside expressions, fused types) is reported as not extractable.
"""
import ast
import re

SCALAR_TYPES = {'int', 'long', 'bint', 'intp_t', 'QTYPE_t', 'double', 'float', 'size_t', 'Py_ssize_t', 'char',
                'float64_t', 'complex128_t', 'npy_intp', 'int64_t'}


class NotExtractable(Exception):
    pass


def split_top(s, sep=','):
    out, depth, cur, q = [], 0, '', None
    for ch in s:
        if q:
            cur += ch
            if ch == q:
                q = None
            continue
        if ch in '\'"':
            q = ch
            cur += ch
            continue
        if ch in '([{':
            depth += 1
        elif ch in ')]}':
            depth -= 1
        if ch == sep and depth == 0:
            out.append(cur)
            cur = ''
        else:
            cur += ch
    out.append(cur)
    return out


def _split_default(p):
    """'T x = e' -> ('T x', 'e' or None) at the first top-level '=' that is not part of ==, <=, >=, !="""
    depth, q = 0, None
    for k, ch in enumerate(p):
        if q:
            if ch == q:
                q = None
            continue
        if ch in '\'"':
            q = ch
        elif ch in '([{':
            depth += 1
        elif ch in ')]}':
            depth -= 1
        elif ch == '=' and depth == 0 and p[k + 1:k + 2] != '=' and p[k - 1:k] not in ('=', '<', '>', '!'):
            return p[:k], p[k + 1:]
    return p, None


def strip_param(p):
    decl, default = _split_default(p.strip())
    m = re.search(r'([A-Za-z_]\w*)\s*$', decl.strip())
    if not m or '*' in decl.replace('**', ''):
        if decl.strip().startswith('*'):
            return p.strip()
        raise NotExtractable(f'parameter {p.strip()!r}')
    return m.group(1) + ('=' + default.strip() if default is not None else '')


def _read_type(s):
    """read a C type at the start of s -> (type text, rest)"""
    s = s.lstrip()
    m = re.match(r'(?:unsigned\s+|const\s+)?[A-Za-z_][\w\.]*', s)
    if not m:
        raise NotExtractable(f'type in {s!r}')
    k = m.end()
    if k < len(s) and s[k] == '[':
        depth = 0
        for j in range(k, len(s)):
            if s[j] == '[':
                depth += 1
            elif s[j] == ']':
                depth -= 1
                if depth == 0:
                    k = j + 1
                    break
    return s[:k], s[k:]


def translate_cdef_line(body, dropped):
    """'TYPE a, b = e, c' -> list of python statements"""
    typ, rest = _read_type(body)
    if rest.lstrip().startswith(('*', '&')) or '(' in typ:
        raise NotExtractable(f'pointer/function declaration {body!r}')
    out = []
    base = re.sub(r'\[.*', '', typ).split('.')[-1].split()[-1]
    for d in split_top(rest):
        name, init = _split_default(d.strip())
        name = name.strip()
        if not re.fullmatch(r'[A-Za-z_]\w*', name):
            raise NotExtractable(f'declarator {d.strip()!r}')
        if init is not None:
            out.append(f'{name} = {init.strip()}')
        elif base in SCALAR_TYPES or '[' in typ or base == 'ndarray':
            dropped.add('uninitialised C declarations')
        else:
            out.append(f'{name} = _cstruct()')
            dropped.add(f'struct type {base} (fields become attributes)')
    dropped.add('C types of local declarations')
    return out


_SIG = re.compile(r'^(cpdef|cdef|def)\s+(.*)$')


def extract_functions(text):
    """-> {name: {'src': python text, 'flags': {...}, 'dropped': [...], 'lineno': n}}, {name: reason not extractable}"""
    lines = text.split('\n')
    funcs, failed = {}, {}
    i = 0
    while i < len(lines):
        line = lines[i]
        m = _SIG.match(line)
        if not m or line.startswith('cdef class') or '(' not in line or line.startswith(('cdef extern', 'cdef struct')):
            i += 1
            continue
        # decorators directly above
        flags, d = {}, i - 1
        while d >= 0 and lines[d].startswith('@'):
            dm = re.match(r'@cython\.(\w+)\((\w+)\)', lines[d])
            if dm:
                flags[dm.group(1)] = dm.group(2) == 'True'
            d -= 1
        # signature (possibly several lines)
        sig, j = line, i
        while sig.count('(') > sig.count(')') or not sig.rstrip().endswith(':'):
            j += 1
            if j >= len(lines):
                break
            sig += ' ' + lines[j].strip()
        # body
        k = j + 1
        while k < len(lines) and (lines[k].strip() == '' or lines[k][0] in ' \t'):
            k += 1
        body = lines[j + 1:k]
        start = i
        i = k
        head = sig[:sig.index('(')]
        name = re.search(r'([A-Za-z_]\w*)\s*$', head).group(1)
        dropped = set()
        try:
            close = _matching_paren(sig, sig.index('('))
            params = sig[sig.index('(') + 1:close]
            tail = sig[close + 1:]
            if not re.fullmatch(r'\s*(noexcept)?\s*(nogil)?\s*(except\s*[\*\?\-\w]*)?\s*(nogil)?\s*:\s*', tail):
                raise NotExtractable(f'signature tail {tail!r}')
            if m.group(1) != 'def' or re.search(r'\b(noexcept|nogil|except)\b', tail):
                dropped.add('C return type / inline / noexcept / nogil / except clause')
            plist = [strip_param(p) for p in split_top(params) if p.strip()]
            if any(p.strip() != q for p, q in zip([x for x in split_top(params) if x.strip()], plist)):
                dropped.add('C types of parameters')
            out = [f'def {name}({", ".join(plist)}):']
            for bl in body:
                out.extend(_translate_body_line(bl, dropped))
            if flags:
                dropped.add('decorators ' + ', '.join(f'{k}({v})' for k, v in sorted(flags.items())) +
                            ' (cdivision / wraparound honoured by rewriting)')
            src = '\n'.join(out) + '\n'
            tree = ast.parse(src)
            funcs[name] = {'src': src, 'flags': flags, 'dropped': sorted(dropped), 'lineno': start + 1}
        except (NotExtractable, SyntaxError, ValueError, AttributeError) as e:
            failed[name] = f'{type(e).__name__}: {e}'
    return funcs, failed


def _matching_paren(s, k):
    depth = 0
    for j in range(k, len(s)):
        if s[j] == '(':
            depth += 1
        elif s[j] == ')':
            depth -= 1
            if depth == 0:
                return j
    raise NotExtractable('unbalanced signature')


_CAST = re.compile(r'<\s*(?:unsigned\s+)?[A-Za-z_][\w\.]*(?:\[[^\]]*\])?\s*\*?\s*>(?=\s*[\w\(])')


def _translate_body_line(bl, dropped):
    stripped = bl.strip()
    indent = bl[:len(bl) - len(bl.lstrip())]
    if stripped.startswith('cdef '):
        return [indent + s for s in translate_cdef_line(stripped[5:], dropped)] or [indent + 'pass']
    if re.match(r'with\s+(no)?gil\s*:', stripped):
        dropped.add('with nogil')
        return [indent + 'if True:']
    if re.search(r'\bfor\s+\w+\s+from\b', stripped) or re.search(r'(^|[=(,\s])&\w', stripped) or '.data' in stripped and '<' in stripped:
        raise NotExtractable(f'Cython-only construct in {stripped!r}')
    code = bl.split('#')[0] if "'" not in bl and '"' not in bl else bl
    if _CAST.search(code):
        dropped.add('C casts <T>e')
        bl = _CAST.sub('', bl)
    return [bl]


class _CDiv(ast.NodeTransformer):
    def visit_BinOp(self, node):
        self.generic_visit(node)
        if isinstance(node.op, ast.Mod):
            return ast.copy_location(ast.Call(ast.Name('c_mod', ast.Load()), [node.left, node.right], []), node)
        if isinstance(node.op, ast.FloorDiv):
            return ast.copy_location(ast.Call(ast.Name('c_div', ast.Load()), [node.left, node.right], []), node)
        return node

    def visit_AugAssign(self, node):
        self.generic_visit(node)
        if isinstance(node.op, (ast.Mod, ast.FloorDiv)):
            raise NotExtractable('augmented %= / //= under cdivision')
        return node


def module_ast(text):
    """python `ast.Module` holding every extractable function of the .pyx text; info per function."""
    funcs, failed = extract_functions(text)
    body, info = [], {}
    for name, f in funcs.items():
        node = ast.parse(f['src']).body[0]
        try:
            if f['flags'].get('cdivision'):
                node = ast.fix_missing_locations(_CDiv().visit(node))
        except NotExtractable as e:
            failed[name] = str(e)
            continue
        node._pyx_flags = f['flags']
        node._pyx_dropped = ['pyx: ' + d for d in f['dropped']]
        for sub in ast.walk(node):
            if hasattr(sub, 'lineno'):
                sub.lineno += f['lineno'] - 1
        body.append(node)
        info[name] = {'flags': f['flags'], 'dropped': f['dropped'], 'python': f['src']}
    return ast.Module(body=body, type_ignores=[]), info, failed


if __name__ == '__main__':
    import sys
    fs, failed = extract_functions(open(sys.argv[1]).read())
    for n in sys.argv[2:]:
        print(fs[n]['src'] if n in fs else f'{n}: {failed.get(n)}')
    if len(sys.argv) == 2:
        print('extractable:', sorted(fs))
        print('not extractable:', failed)
