"""Discharge obligations: z3 (python API) in a process pool, cvc5 binary for z3's unknowns."""
import hashlib
import os
import subprocess
import tempfile
import time
from concurrent.futures import ProcessPoolExecutor

import z3

Z3_TIMEOUT_S = int(os.environ.get('PYVC_Z3_TIMEOUT', '20'))
CVC5_TIMEOUT_S = int(os.environ.get('PYVC_CVC5_TIMEOUT', '40'))
PATIENT_TIMEOUT_S = int(os.environ.get('PYVC_PATIENT_TIMEOUT', '120'))
CVC5 = '/usr/bin/cvc5'


def ob_to_smt2(ob):
    s = z3.Solver()
    for c in ob.pc:
        s.add(c)
    s.add(z3.Not(ob.goal))
    text = s.to_smt2()
    if 'strU' in text:
        from .values import str_axioms
        s.add(*str_axioms())
        text = s.to_smt2()
    return text


def _z3_check(text, timeout_s, seed=0):
    t0 = time.time()
    try:
        s = z3.Solver()
        s.set('timeout', int(timeout_s * 1000))
        if seed:
            s.set('smt.random_seed', seed)
        s.from_string(text)
        r = s.check()
        st = str(r)
        reason = s.reason_unknown() if st == 'unknown' else ''
    except z3.Z3Exception as e:   # pragma: no cover
        st, reason = 'error', str(e)[:300]
    return st, time.time() - t0, reason


def _cvc5_check(text, timeout_s):
    t0 = time.time()
    if not os.path.exists(CVC5):
        return 'unknown', 0.0, 'cvc5 not installed'
    body = text
    if '(set-logic' not in body:
        body = '(set-logic ALL)\n' + body
    with tempfile.NamedTemporaryFile('w', suffix='.smt2', delete=False) as f:
        f.write(body)
        fn = f.name
    try:
        p = subprocess.run([CVC5, '--lang=smt2', f'--tlimit={timeout_s * 1000}', fn], capture_output=True, text=True,
                           timeout=timeout_s + 10)
        out = (p.stdout or '').strip().splitlines()
        st = out[0].strip() if out else 'unknown'
        if st not in ('sat', 'unsat', 'unknown'):
            st = 'unknown'
        # cvc5 `sat` on quantified problems is not trusted as a counter-model source; we only use unsat
        return st, time.time() - t0, (p.stderr or '')[:200]
    except subprocess.TimeoutExpired:
        return 'unknown', time.time() - t0, 'cvc5 timeout'
    finally:
        os.unlink(fn)


def check_one(text):
    if text.startswith('; prefer-cvc5'):
        # nonlinear closed lemmas: z3 would burn its whole portfolio before giving up
        st2, cvsecs, reason2 = _cvc5_check(text, CVC5_TIMEOUT_S)
        if st2 == 'unsat':
            return 'unsat', 0.0, cvsecs, 'cvc5', ''
    # portfolio over random seeds: z3's quantifier instantiation is unstable on identical input, and an
    # `unsat` under any seed is a proof.  Short budgets first, the full budget last.
    z3secs = 0.0
    for seed, budget in ((0, 2), (1, 2), (2, 4), (3, Z3_TIMEOUT_S)):
        st, secs, reason = _z3_check(text, budget, seed)
        z3secs += secs
        if st in ('sat', 'unsat'):
            break
    backend = 'z3'
    cvsecs = 0.0
    if st in ('unknown', 'error'):
        st2, cvsecs, reason2 = _cvc5_check(text, CVC5_TIMEOUT_S)
        if st2 == 'unsat':
            st, backend, reason = 'unsat', 'cvc5', ''
        else:
            # last resort before giving up: one patient z3 run.  The budgets above are wall-clock; when every core is busy (all
            # checks of a `vp check` at once, a thorough run next to it) an obligation that needs 3 s of CPU can miss all of them.
            st3, secs3, reason3 = _z3_check(text, PATIENT_TIMEOUT_S, 4)
            z3secs += secs3
            if st3 in ('sat', 'unsat'):
                st, reason = st3, ''
            else:
                reason = f'z3: {reason}; cvc5: {st2} {reason2}; z3 (patient): {reason3}'
                st = 'unknown'
    return st, z3secs, cvsecs, backend, reason


_pool = None


def pool():
    global _pool
    if _pool is None:
        n = int(os.environ.get('PYVC_JOBS', str(min(16, os.cpu_count() or 4))))
        _pool = ProcessPoolExecutor(max_workers=n)
    return _pool


def discharge(obs):
    """obs: list of Obligation. Returns list of (status, z3secs, cvc5secs, backend, reason) in order."""
    texts = []
    trivial = {}
    for i, ob in enumerate(obs):
        g = z3.simplify(ob.goal)
        if z3.is_true(g):
            trivial[i] = ('unsat', 0.0, 0.0, 'simplifier', '')
            texts.append(None)
        else:
            texts.append(('; prefer-cvc5\n' if ob.info.get('prefer') == 'cvc5' else '') + ob_to_smt2(ob))
    cache = {}
    futs = {}
    for i, t in enumerate(texts):
        if t is None:
            continue
        h = hashlib.sha1(t.encode()).hexdigest()
        if h not in cache:
            cache[h] = pool().submit(check_one, t)
        futs[i] = cache[h]
    out = []
    for i in range(len(obs)):
        if i in trivial:
            out.append(trivial[i])
        else:
            out.append(futs[i].result())
    return out


def get_model(ob, timeout_s=20):
    """Re-solve a refuted obligation in-process to obtain a model over the original terms."""
    s = z3.Solver()
    s.set('timeout', timeout_s * 1000)
    for c in ob.pc:
        s.add(c)
    s.add(z3.Not(ob.goal))
    if 'strU' in s.to_smt2():
        from .values import str_axioms
        s.add(*str_axioms())       # (only where strings occur: a quantified axiom turns `sat` into `unknown` elsewhere)
    if s.check() == z3.sat:
        return s.model()
    return None
