"""Loop cutting at supplied inductive invariants (init / preserve / use), DESIGN.md section 2.1.

Invariant spec (from the contract):  {'inv': [clause, ...], 'decreases': clause|None,
                                      'as_arr': {name: kind}}   keyed by (function key, loop ordinal).
Inside clauses `_i` is the number of completed iterations of this loop.
"""
import ast

import z3

from .interp import (Unsupported, PathEnd, PyRaise, ReturnSig, BreakSig, ContinueSig, _Iter, FuncVal, Builtin,
                     ClassVal, ModuleVal, ExcClass)
from .values import (SArr, SObj, SMap, SSet, SegList, Opq, NT, is_z3, to_z3, fresh_int, fresh_real, fresh_bool,
                     fresh_U, U, kind_sort, kind_leaves, fresh_name)
from fractions import Fraction

MUTATORS = {'append', 'push_back', 'pop', 'insert', 'extend', 'sort', 'remove', 'clear', 'add', 'discard', 'update',
            'setdefault', 'reverse', 'popitem', 'fill', 'put', 'resize'}
PURE_METHODS = {'copy', 'get', 'keys', 'values', 'items', 'index', 'count', 'startswith', 'endswith', 'split', 'join',
                'format', 'any', 'all', 'sum', 'astype', 'conj', 'lower', 'upper', 'strip', 'replace'}
PURE_FUNCS = {'len', 'range', 'enumerate', 'zip', 'sorted', 'min', 'max', 'abs', 'sum', 'int', 'float', 'bool', 'str',
              'list', 'tuple', 'set', 'dict', 'isinstance', 'repr', 'reversed', 'any', 'all', 'iter', 'type', 'divmod',
              'issubclass', 'hasattr', 'getattr', 'id', 'callable', 'round', 'complex', 'frozenset', 'print'}


class Effects:
    def __init__(self):
        self.assigned = set()        # names rebound
        self.mutated = set()         # names whose object content is mutated
        self.attr_mut = set()        # (name, attr) attribute rebinding or mutation of name.attr
        self.deep = set()            # names whose reachable state may be changed arbitrarily by a call
        self.opaque_calls = False    # a callable value of unknown origin is called
        self.ghost_calls = False     # a declared opaque callable is called (ghost call log grows)


def _root_name(e):
    """Name at the root of an attribute/subscript chain, with the first attribute (or None)."""
    attr = None
    while True:
        if isinstance(e, ast.Attribute):
            attr = e.attr
            e = e.value
        elif isinstance(e, ast.Subscript):
            e = e.value
        elif isinstance(e, ast.Name):
            return e.id, attr
        else:
            return None, None


def _first_attr(e):
    """For a chain rooted at Name: (name, first attribute after the name) e.g. self.a.b[0] -> (self, a)."""
    chain = []
    while True:
        if isinstance(e, ast.Attribute):
            chain.append(e.attr)
            e = e.value
        elif isinstance(e, ast.Subscript):
            e = e.value
        elif isinstance(e, ast.Name):
            return e.id, (chain[-1] if chain else None)
        else:
            return None, None


def scan_effects(stmts, opaque_callables=()):
    ef = Effects()

    def target(t):
        if isinstance(t, ast.Name):
            ef.assigned.add(t.id)
        elif isinstance(t, (ast.Tuple, ast.List)):
            for x in t.elts:
                target(x)
        elif isinstance(t, ast.Starred):
            target(t.value)
        elif isinstance(t, (ast.Attribute, ast.Subscript)):
            name, attr = _first_attr(t)
            if name is None:
                ef.opaque_calls = True
            elif attr is None:
                ef.mutated.add(name)
            else:
                ef.attr_mut.add((name, attr))

    for st in stmts:
        for n in ast.walk(st):
            if isinstance(n, ast.Assign):
                for t in n.targets:
                    target(t)
            elif isinstance(n, (ast.AugAssign, ast.AnnAssign)):
                target(n.target)
                if isinstance(n, ast.AugAssign) and isinstance(n.target, ast.Name):
                    ef.mutated.add(n.target.id)   # `x += ...` mutates lists/arrays in place
            elif isinstance(n, (ast.For, ast.comprehension)):
                target(n.target)
            elif isinstance(n, ast.Delete):
                for t in n.targets:
                    target(t)
            elif isinstance(n, ast.With):
                for it in n.items:
                    if it.optional_vars is not None:
                        target(it.optional_vars)
            elif isinstance(n, ast.ExceptHandler) and n.name:
                ef.assigned.add(n.name)
            elif isinstance(n, (ast.FunctionDef, ast.ClassDef)):
                ef.assigned.add(n.name)
            elif isinstance(n, ast.NamedExpr):
                target(n.target)
            elif isinstance(n, ast.Call):
                f = n.func
                if isinstance(f, ast.Attribute):
                    name, attr = _first_attr(f.value) if not isinstance(f.value, ast.Name) else (f.value.id, None)
                    if f.attr in MUTATORS:
                        if name is None:
                            ef.opaque_calls = True
                        elif attr is None:
                            ef.mutated.add(name)
                        else:
                            ef.attr_mut.add((name, attr))
                    elif f.attr in PURE_METHODS or (isinstance(f.value, ast.Name) and f.value.id in
                                                    ('np', 'numpy', 'math', 'bisect', 'itertools', 'warnings', 'logger')):
                        pass
                    else:
                        # unknown method: may change its receiver and its arguments arbitrarily
                        if name is not None:
                            ef.deep.add(name)
                        else:
                            ef.opaque_calls = True
                        for a in list(n.args) + [k.value for k in n.keywords]:
                            for m in ast.walk(a):
                                if isinstance(m, ast.Name):
                                    ef.deep.add(m.id)
                elif isinstance(f, ast.Name):
                    if f.id in opaque_callables:
                        ef.ghost_calls = True
                    elif f.id not in PURE_FUNCS:
                        for a in list(n.args) + [k.value for k in n.keywords]:
                            for m in ast.walk(a):
                                if isinstance(m, ast.Name):
                                    ef.deep.add(m.id)
                        ef.deep.add(f.id)
                else:
                    ef.opaque_calls = True
    return ef


def shape(v, depth=0):
    if v is None:
        return 'none'
    if isinstance(v, bool) or (is_z3(v) and v.sort() == z3.BoolSort()):
        return 'bool'
    if isinstance(v, int) or (is_z3(v) and v.sort() == z3.IntSort()):
        return 'int'
    if isinstance(v, (Fraction, float)) or (is_z3(v) and v.sort() == z3.RealSort()):
        return 'real'
    if isinstance(v, Opq) or (is_z3(v) and v.sort() == U):
        return 'U'
    if isinstance(v, str):
        return ('str', v)
    if isinstance(v, tuple):
        return ('tuple', type(v).__name__, tuple(shape(x, depth + 1) for x in v))
    if isinstance(v, list):
        return ('list', tuple(shape(x, depth + 1) for x in v))
    if isinstance(v, SArr):
        return ('arr', repr(v.kind), v.np)
    if isinstance(v, SObj):
        return ('obj', v.cls)
    if isinstance(v, SMap):
        return ('map', v.kkind, v.vkind)
    if isinstance(v, SSet):
        return ('set', v.kkind)
    if isinstance(v, dict):
        return ('dict', tuple(sorted((repr(k), shape(x, depth + 1)) for k, x in v.items())))
    if isinstance(v, (set, frozenset)):
        return ('cset', tuple(sorted(map(repr, v))))
    return ('other', type(v).__name__, id(v) if isinstance(v, (FuncVal, Builtin, ClassVal, ModuleVal, ExcClass)) else 0)


def fresh_like(I, v, deep_seen=None):
    """A fresh unconstrained value of the same shape as v (new identity)."""
    if v is None or isinstance(v, str):
        return v
    if isinstance(v, bool) or (is_z3(v) and v.sort() == z3.BoolSort()):
        return fresh_bool('h')
    if isinstance(v, int) or (is_z3(v) and v.sort() == z3.IntSort()):
        return fresh_int('h')
    if isinstance(v, (Fraction, float)) or (is_z3(v) and v.sort() == z3.RealSort()):
        return fresh_real('h')
    if isinstance(v, Opq):
        return Opq(base='h')
    if is_z3(v) and v.sort() == U:
        return fresh_U('h')
    if isinstance(v, tuple):
        vals = [fresh_like(I, x) for x in v]
        return type(v)(vals) if isinstance(v, NT) else tuple(vals)
    if isinstance(v, list):
        return [fresh_like(I, x) for x in v]
    if isinstance(v, SArr):
        r = SArr.fresh(v.kind, 'h', v.np, n=(v.n if v.np else None))
        if not v.np:
            I.assume(r.n >= 0)
        return r
    if isinstance(v, SMap):
        return SMap.fresh(v.kkind, v.vkind, 'h')
    if isinstance(v, SSet):
        return SSet.fresh(v.kkind, 'h')
    if isinstance(v, (FuncVal, Builtin, ClassVal, ModuleVal, ExcClass)):
        return v
    if isinstance(v, SObj):
        # a rebound local holding an object: a fresh object of the same class with fresh attribute values
        r = SObj(v.cls, v.mod)
        for k, x in v.attrs.items():
            r.attrs[k] = fresh_like(I, x)
        return r
    raise Unsupported(f'cannot havoc a value of type {type(v).__name__}')


def havoc_inplace(I, v, seen=None, attrs=None):
    """Havoc the content of a mutable object, keeping its identity."""
    seen = seen if seen is not None else set()
    if id(v) in seen:
        return
    seen.add(id(v))
    if isinstance(v, SArr):
        f = fresh_like(I, v)
        v.n, v.leaves = f.n, f.leaves
    elif isinstance(v, list):
        for i, x in enumerate(v):
            if isinstance(x, (SArr, list, SObj, SMap, SSet, dict)):
                havoc_inplace(I, x, seen)
            else:
                v[i] = fresh_like(I, x)
    elif isinstance(v, dict):
        for k, x in list(v.items()):
            if isinstance(x, (SArr, list, SObj, SMap, SSet, dict)):
                havoc_inplace(I, x, seen)
            else:
                v[k] = fresh_like(I, x)
    elif isinstance(v, SMap):
        f = SMap.fresh(v.kkind, v.vkind, 'h')
        v.dom, v.val = f.dom, f.val
    elif isinstance(v, SSet):
        v.mem = SSet.fresh(v.kkind, 'h').mem
    elif isinstance(v, SObj):
        for a in (attrs if attrs is not None else list(v.attrs)):
            if a not in v.attrs:
                continue
            x = v.attrs[a]
            if isinstance(x, (SArr, list, SObj, SMap, SSet, dict)):
                # the attribute may be rebound *or* mutated: give it fresh content and keep identity
                havoc_inplace(I, x, seen)
            else:
                v.attrs[a] = fresh_like(I, x)
    elif isinstance(v, (set,)):
        raise Unsupported('havoc of concrete set')


def describe_iter(I, it):
    """-> (niter, elem(i) -> value, watched mutable object or None)."""
    if isinstance(it, _Iter):
        if it.kind == 'range':
            a, b, st = it.parts
            if st == 1:
                n = I.binop(ast.Sub(), b, a)
            elif st == -1:
                n = I.binop(ast.Sub(), a, b)
            else:
                raise Unsupported('range step other than +1/-1 with symbolic bounds')
            zn = to_z3(n)
            niter = z3.simplify(z3.If(zn < 0, 0, zn))
            return niter, (lambda i: I.binop(ast.Add(), a, I.binop(ast.Mult(), st, i))), None
        if it.kind == 'enumerate':
            n, el, w = describe_iter(I, it.parts[0])
            start = it.parts[1]
            return n, (lambda i: (I.binop(ast.Add(), i, start), el(i))), w
        if it.kind == 'zip':
            ds = [describe_iter(I, p) for p in it.parts]
            n = ds[0][0]
            for d in ds[1:]:
                zn, zm = to_z3(n), to_z3(d[0])
                n = z3.simplify(z3.If(zn <= zm, zn, zm))
            return n, (lambda i: tuple(d[1](i) for d in ds)), None
        if it.kind == 'reversed':
            n, el, w = describe_iter(I, it.parts[0])
            return n, (lambda i: el(I.binop(ast.Sub(), I.binop(ast.Sub(), n, 1), i))), w
    if isinstance(it, SArr):
        snap = it.copy()
        return snap.n, (lambda i: I.unflat_elem([z3.Select(l, to_z3(i)) for l in snap.leaves], snap.kind)), (it, snap)
    if isinstance(it, SegList):
        # schedule lists `items * count + ...`: the elements are over-approximated by arbitrary
        # tuples of integers of the same arity (sound: the body is verified for any element)
        n = I.seg_len(it)
        first = next((items[0] for items, _ in it.segs if items), None)
        if first is None:
            return 0, (lambda i: None), None
        if isinstance(first, tuple):
            return n, (lambda i: tuple(fresh_int('el') for _ in first)), None
        return n, (lambda i: fresh_int('el')), None
    if isinstance(it, (list, tuple)):
        items = list(it)
        return len(items), (lambda i: I.getitem(items, i)), None
    raise Unsupported(f'loop over {type(it).__name__} with invariant')


LEMMA_BUILTINS = {'sum_unfold', 'sum_split', 'sum_nonneg', 'mul_distrib', 'swap_val', 'cmod_python', 'sum_mono', 'sorted_perm_identity', 'mod_shift', 'mod_small', 'mod_qr'}
PROVED_LEMMAS = {'cmod_python', 'sum_mono', 'sorted_perm_identity', 'mod_shift', 'mod_small', 'mod_qr'}     # their closed statement is an obligation of the same run


def assume_lemmas(I, lemmas):
    """Add explicit instances of proved/definitional lemmas (DESIGN 2.5: lemma use is explicit)."""
    for c in lemmas or []:
        node = c['ast']
        if not (isinstance(node, ast.Call) and isinstance(node.func, ast.Name) and node.func.id in LEMMA_BUILTINS):
            raise Unsupported(f'lemma clause must be a call of a registered lemma: {c["text"]}')
        I.spec_mode += 1
        try:
            fact = I.eval(node)
        finally:
            I.spec_mode -= 1
        if node.func.id not in PROVED_LEMMAS:
            I.trusted.add('lemma instance: ' + node.func.id)
        I.assume(I.z3bool(fact))


def eval_clauses(I, clauses, label):
    out = []
    for idx, c in enumerate(clauses):
        I.spec_mode += 1
        try:
            v = I.eval(c['ast'])
        finally:
            I.spec_mode -= 1
        out.append((f'{label}#{idx}', I.z3bool(v), c['text']))
    return out


def cut_loop(I, key, inv, s, it):
    fr = I.frames[-1]
    is_for = isinstance(s, ast.For)
    ordinal = key[1]
    lname = f'L{ordinal}'
    # convert declared concrete lists into symbolic arrays (kind given by the contract)
    for name, kind in inv.get('as_arr', {}).items():
        v = fr.locals.get(name)
        if isinstance(v, list):
            fr.locals[name] = I.list_to_arr(v, kind)
    if is_for:
        niter, elem, watched = describe_iter(I, it)
    else:
        niter, elem, watched = None, None, None
    if inv.get('bind_iter'):
        fr.locals[inv['bind_iter']] = it     # ghost name for the iterated sequence
    for gname, gexpr in inv.get('ghost_pre', {}).items():
        # ghost snapshot of an expression at loop entry (not havocked: the body cannot assign it)
        I.spec_mode += 1
        try:
            gv = I.eval(ast.parse(gexpr, mode='eval').body)
        finally:
            I.spec_mode -= 1
        gv = gv.copy() if isinstance(gv, SArr) else gv
        fr.locals[gname] = gv
        I.ghost.setdefault('__env__', {})[gname] = gv     # visible to later clauses (postconditions) as well
    saved_i = fr.locals.get('_i', None)
    fr.locals['_i'] = 0
    if niter is not None:
        fr.locals['_n'] = niter
    assume_lemmas(I, inv.get('lemmas'))
    for nm, goal, text in eval_clauses(I, inv['inv'], f'{lname}-inv-init'):
        I.oblige(nm, goal, {'clause': text})
    # ---- havoc everything the body may change
    ef = scan_effects(s.body, inv.get('opaque_callables', ()))
    if ef.ghost_calls and 'calls' in I.ghost.get('__env__', {}):
        havoc_inplace(I, I.ghost['__env__']['calls'])
    if ef.opaque_calls and not inv.get('allow_opaque_calls'):
        raise Unsupported(f'loop {key}: body calls a computed callable; frame unknown')
    before_shapes = {}
    if is_for:
        tnames = set()
        for n in ast.walk(s.target):
            if isinstance(n, ast.Name):
                tnames.add(n.id)
    else:
        tnames = set()
    for name in sorted(ef.assigned | ef.mutated):
        if name in tnames and name not in fr.locals:
            continue
        if name not in fr.locals:
            continue   # first assigned inside the body; not live at loop head unless read (then lookup fails)
        v = fr.locals[name]
        if name in ef.mutated and isinstance(v, (SArr, list, SObj, SMap, SSet, dict)):
            havoc_inplace(I, v)
            if name in ef.assigned:
                pass
        else:
            fr.locals[name] = fresh_like(I, v)
        before_shapes[name] = shape(fr.locals[name])
    for name, attr in sorted(ef.attr_mut):
        v = lookup_opt(I, name)
        if isinstance(v, SObj):
            havoc_inplace(I, v, attrs=[attr])
    for name in sorted(ef.deep):
        v = lookup_opt(I, name)
        if isinstance(v, (SArr, list, SObj, SMap, SSet, dict)):
            if isinstance(v, SObj) and inv.get('frame', {}).get(name) is not None:
                havoc_inplace(I, v, attrs=inv['frame'][name])
            else:
                havoc_inplace(I, v)
    genv = I.ghost.get('__env__', {})
    for name in inv.get('ghost_mut', ()):
        if name in genv:
            if isinstance(genv[name], (SArr, list, SObj, SMap, SSet, dict)):
                havoc_inplace(I, genv[name])
            else:
                genv[name] = fresh_like(I, genv[name])
    if is_for:
        # the iterable is re-described in the havocked state: a list iterator reads the *current* list
        niter, elem, watched = describe_iter(I, it)
        fr.locals['_n'] = niter
    k = fresh_int('it')
    fr.locals['_i'] = k
    I.assume(k >= 0)
    if niter is not None:
        I.assume(k <= to_z3(niter))
    for nm, goal, text in eval_clauses(I, inv['inv'], f'{lname}-inv-use'):
        I.assume(goal)
    assume_lemmas(I, inv.get('lemmas'))
    for hname, hexpr in inv.get('head_snapshot', {}).items():
        # ghost copy of a value at the head of the (arbitrary) iteration, for two-state lemma instances
        I.spec_mode += 1
        try:
            hv = I.eval(ast.parse(hexpr, mode='eval').body)
        finally:
            I.spec_mode -= 1
        fr.locals[hname] = hv.copy() if isinstance(hv, SArr) else hv
    # ---- body or exit
    if is_for:
        cond = k < to_z3(niter)
    else:
        cond = I.eval(s.test)
    if I.branch(cond):
        if is_for:
            I.assign_target(s.target, elem(k))
        measure0 = None
        if inv.get('decreases'):
            I.spec_mode += 1
            try:
                measure0 = I.eval(inv['decreases']['ast'])
            finally:
                I.spec_mode -= 1
        try:
            I.exec_block(s.body)
        except ContinueSig:
            pass
        except BreakSig:
            _restore_i(fr, saved_i)
            return
        if watched is not None:
            obj, snap = watched
            if obj.n is not snap.n or any(a is not b for a, b in zip(obj.leaves, snap.leaves)):
                raise Unsupported(f'loop {key}: iterated list is modified and iteration continues')
        fr.locals['_i'] = k + 1
        for name, sh in before_shapes.items():
            if name in fr.locals and shape(fr.locals[name]) != sh:
                # allow list -> declared array conversion
                raise Unsupported(f'loop {key}: variable {name} changes shape in the body '
                                  f'({sh} -> {shape(fr.locals[name])})')
        assume_lemmas(I, inv.get('lemmas'))
        assume_lemmas(I, inv.get('lemmas_pres'))      # two-state instances (iteration head vs. end of the body)
        for nm, goal, text in eval_clauses(I, inv['inv'], f'{lname}-inv-pres'):
            I.oblige(nm, goal, {'clause': text})
        if measure0 is not None:
            I.spec_mode += 1
            try:
                m1 = I.eval(inv['decreases']['ast'])
            finally:
                I.spec_mode -= 1
            I.oblige(f'{lname}-decreases', z3.And(to_z3(m1) < to_z3(measure0), to_z3(measure0) > 0)
                     if True else None, {'clause': inv['decreases']['text']})
        raise PathEnd()
    # exit path
    assume_lemmas(I, inv.get('lemmas'))
    I.exec_block(s.orelse)
    _restore_i(fr, saved_i)


def _restore_i(fr, saved_i):
    if saved_i is None:
        fr.locals.pop('_i', None)
    else:
        fr.locals['_i'] = saved_i


def lookup_opt(I, name):
    try:
        return I.lookup(name)
    except (Unsupported, PyRaise):
        return None
