"""Symbolic interpreter for the stated Python subset (DESIGN.md section 2).

Executes the *real* AST of a tenpy function over symbolic values; forks at symbolic branches
(decision replay: every path re-executes from the start with a fixed decision prefix), cuts loops
with symbolic trip count at supplied invariants, and collects named proof obligations.
"""
import ast
import os
from fractions import Fraction

import z3

from . import source
from .values import (U, NONE_U, Opq, NT, make_nt_class, SObj, SArr, SMap, SSet, SegList, is_z3, is_sym, to_z3,
                     kind_of_scalar, kind_sort, kind_leaves, fresh_int, fresh_real, fresh_bool, fresh_U, fresh_name)


APPLY = z3.Function('apply!U', U, U, U)
EMPTY_DICT_U = z3.Const('emptydict!U', U)


class Unsupported(Exception):
    """Construct outside the verified subset: obligations cannot be generated (not a violation)."""


class PathEnd(Exception):
    """Current path ends here (infeasible, or cut at a loop body end)."""


class PyRaise(Exception):
    def __init__(self, cls, args=()):
        super().__init__(cls)
        self.cls = cls
        self.pyargs = args


class ReturnSig(Exception):
    def __init__(self, value):
        self.value = value


class BreakSig(Exception):
    pass


class ContinueSig(Exception):
    pass


EXC_HIERARCHY = {
    'IndexError': ['LookupError', 'Exception'], 'KeyError': ['LookupError', 'Exception'],
    'ValueError': ['Exception'], 'TypeError': ['Exception'], 'AttributeError': ['Exception'],
    'ZeroDivisionError': ['ArithmeticError', 'Exception'], 'AssertionError': ['Exception'],
    'NotImplementedError': ['RuntimeError', 'Exception'], 'RuntimeError': ['Exception'],
    'StopIteration': ['Exception'], 'KeyboardInterrupt': ['BaseException'], 'OSError': ['Exception'],
    'FileNotFoundError': ['OSError', 'Exception'], 'Exception': [],
}


def exc_matches(cls, handler_names):
    if handler_names is None:
        return True
    sup = [cls] + EXC_HIERARCHY.get(cls, ['Exception'])
    return any(h in sup or h == 'BaseException' for h in handler_names)


class ExcClass:
    def __init__(self, name):
        self.name = name


class FuncVal:
    def __init__(self, mod, node, self_obj=None, cls=None, closure=None, name=None):
        self.mod, self.node, self.self_obj, self.cls, self.closure = mod, node, self_obj, cls, closure
        self.name = name or getattr(node, 'name', '<lambda>')


class ClassVal:
    def __init__(self, mod, node):
        self.mod, self.node = mod, node
        self.name = node.name


class Builtin:
    def __init__(self, fn, name=None, pure=True):
        self.fn, self.name, self.pure = fn, name or fn.__name__, pure


class ModuleVal:
    def __init__(self, name, attrs):
        self.name, self.attrs = name, attrs


class SuperProxy:
    """value of `super()` inside a method of class `cls_name` called on `obj`"""
    def __init__(self, obj, cls_name):
        self.obj, self.cls_name = obj, cls_name


class StarredSeq:
    """`*seq` argument pack of symbolic length"""
    def __init__(self, arr):
        self.arr = arr


class Frame:
    def __init__(self, mod, locs, cls=None, closure=None, qual=''):
        self.mod, self.locals, self.cls, self.closure, self.qual = mod, locs, cls, closure, qual
        self.loop_ordinal = 0
        self.funcnode = None


class Obligation:
    def __init__(self, name, pc, goal, kind, info=None):
        self.name, self.pc, self.goal, self.kind, self.info = name, list(pc), goal, kind, info or {}


def _is_true(c):
    return c is True or (is_z3(c) and z3.is_true(c))


def _is_false(c):
    return c is False or (is_z3(c) and z3.is_false(c))


class Interp:
    FEAS_TIMEOUT_MS = 250

    def __init__(self, decisions=(), invariants=None, qual='', hooks=None, ghost=None):
        self.pc = []
        self.decisions = list(decisions)
        self.dpos = 0
        self.new_branches = []      # alternative decision prefixes discovered on this path
        self.obligs = []
        self.invariants = invariants or {}
        self.qual = qual
        self.frames = []
        self.spec_mode = 0
        self.solver = z3.Solver()
        self.solver.set('timeout', self.FEAS_TIMEOUT_MS)
        from .values import str_axioms
        self.solver.add(*str_axioms())
        self.hooks = hooks or {}    # qualified callee name -> python handler(interp, args, kwargs)
        self.ghost = ghost if ghost is not None else {}
        self.trusted = set()        # assumed primitive contracts actually used
        self.covers = []            # (label) of branch sides taken, for vacuity/cover reporting
        self.n_oblig = 0
        self.loop_labels = {}

    # ------------------------------------------------------------------ path condition
    def assume(self, c):
        if c is True or _is_true(c):
            return
        if c is False or _is_false(c):
            raise PathEnd()
        self.pc.append(c)
        self.solver.add(c)

    def feasible(self, c=None):
        if c is None:
            r = self.solver.check()
        else:
            r = self.solver.check(c)
        return r != z3.unsat

    def valid(self, c):
        """pc => c, decided quickly (unknown counts as not valid)."""
        if _is_true(c):
            return True
        if _is_false(c):
            return False
        return self.solver.check(z3.Not(c)) == z3.unsat

    def oblige(self, kind, goal, info=None):
        self.n_oblig += 1
        name = f'{self.qual}#{kind}'
        if not is_z3(goal):
            goal = z3.BoolVal(bool(goal))
        self.obligs.append(Obligation(name, self.pc, goal, kind, info))

    def choose(self, n, label=''):
        """n-way nondeterministic choice driven by the decision prefix. Returns chosen index."""
        if self.dpos < len(self.decisions):
            d = self.decisions[self.dpos]
            self.dpos += 1
            return d
        prefix = self.decisions[:self.dpos]
        for alt in range(1, n):
            self.new_branches.append(prefix + [alt])
        self.decisions.append(0)
        self.dpos += 1
        return 0

    def branch(self, cond, label=''):
        """Truth value of `cond` on this path; forks if both sides are feasible."""
        cond = self.truthy(cond)
        if isinstance(cond, bool):
            return cond
        cond = z3.simplify(cond)
        if z3.is_true(cond):
            return True
        if z3.is_false(cond):
            return False
        if self.spec_mode:
            if os.environ.get('PYVC_DEBUG'):
                import traceback
                traceback.print_stack(limit=14)
            raise Unsupported('branch on symbolic condition inside a specification clause')
        if self.dpos < len(self.decisions):
            d = self.decisions[self.dpos]
            self.dpos += 1
            self.assume(cond if d == 0 else z3.Not(cond))
            return d == 0
        ft = self.feasible(cond)
        ff = self.feasible(z3.Not(cond))
        if ft and ff:
            self.new_branches.append(self.decisions[:self.dpos] + [1])
            self.decisions.append(0)
            self.dpos += 1
            self.assume(cond)
            return True
        if ft:
            self.decisions.append(0)
            self.dpos += 1
            self.assume(cond)
            return True
        if ff:
            self.decisions.append(1)
            self.dpos += 1
            self.assume(z3.Not(cond))
            return False
        raise PathEnd()

    # ------------------------------------------------------------------ truthiness / coercions
    def truthy(self, v):
        if isinstance(v, bool):
            return v
        if v is None:
            return False
        if is_z3(v):
            s = v.sort()
            if s == z3.BoolSort():
                return v
            if s == z3.IntSort() or s == z3.RealSort():
                return v != 0
            if s == U:
                return v != NONE_U
        if isinstance(v, (int, Fraction, float)):
            return v != 0
        if isinstance(v, (str, tuple, list, dict, set, frozenset, range)):
            return len(v) > 0
        if isinstance(v, SArr):
            if v.np:
                raise Unsupported('truth value of an array')
            return self.truthy(v.n)
        if isinstance(v, SegList):
            return self.truthy(self.seg_len(v))
        if isinstance(v, SObj):
            m = self.find_method_obj(v, '__bool__')
            if m is not None:
                return self.truthy(self.call_function(m, [], {}))
            m = self.find_method_obj(v, '__len__')
            if m is not None:
                return self.truthy(self.call_function(m, [], {}))
            return True
        if isinstance(v, Opq):
            return v.t != NONE_U
        if isinstance(v, (FuncVal, Builtin, ClassVal, ModuleVal, ExcClass)):
            return True
        if isinstance(v, SMap):
            raise Unsupported('truth value of symbolic dict')
        raise Unsupported(f'truthiness of {type(v).__name__}')

    def z3bool(self, v):
        t = self.truthy(v)
        return z3.BoolVal(t) if isinstance(t, bool) else t

    # ------------------------------------------------------------------ arithmetic
    def _num(self, v):
        if isinstance(v, bool):
            return int(v)
        if isinstance(v, float):
            return Fraction(repr(v))
        if is_z3(v) and v.sort() == z3.BoolSort():
            return z3.If(v, 1, 0)
        return v

    _DUNDER = {ast.Add: 'add', ast.Sub: 'sub', ast.Mult: 'mul', ast.Div: 'truediv', ast.FloorDiv: 'floordiv',
               ast.Mod: 'mod', ast.Pow: 'pow'}

    def binop(self, op, a, b, inplace=False):
        from .values import INF
        if a is INF or b is INF:
            if isinstance(op, (ast.Add, ast.Mult)) and not (a is None or b is None):
                return INF          # (positive operands assumed: only used for ranges/lengths)
            raise Unsupported('arithmetic with inf')
        if isinstance(a, SObj) or isinstance(b, SObj):
            nm = self._DUNDER.get(type(op))
            if nm is None:
                raise Unsupported('operator on object')
            if isinstance(a, SObj) and f'__{nm}__' in a.attrs:
                return self.call(a.attrs[f'__{nm}__'], [b], {})
            if isinstance(a, SObj):
                for cand in ([f'__i{nm}__'] if inplace else []) + [f'__{nm}__']:
                    m = self.find_method_obj(a, cand)
                    if m is not None:
                        return self.call_function(m, [b], {})
            if isinstance(b, SObj):
                if f'__r{nm}__' in b.attrs:          # ghost value: reflected operator defined by the contract
                    return self.call(b.attrs[f'__r{nm}__'], [a], {})
                m = self.find_method_obj(b, f'__r{nm}__')
                if m is not None:
                    return self.call_function(m, [a], {})
            raise PyRaise('TypeError')
        # sequences
        if isinstance(op, ast.Add):
            if isinstance(a, str) and isinstance(b, str):
                return a + b
            if isinstance(a, tuple) and isinstance(b, tuple):
                return a + b
            if isinstance(a, (list, SegList)) and isinstance(b, (list, SegList)):
                if isinstance(a, list) and isinstance(b, list):
                    return a + b
                return SegList(self._segs(a) + self._segs(b))
            if isinstance(a, SArr) and isinstance(b, SArr) and not a.np and not b.np:
                return self.arr_concat(a, b)
            if isinstance(a, SArr) and not a.np and isinstance(b, list):
                return self.arr_concat(a, self.list_to_arr(b, a.kind))
            if isinstance(a, list) and isinstance(b, SArr) and not b.np:
                return self.arr_concat(self.list_to_arr(a, b.kind), b)
        if isinstance(op, ast.Mult):
            for x, y in ((a, b), (b, a)):
                if isinstance(x, (list, tuple, str)) and not isinstance(y, (list, tuple, str, SArr)):
                    y = self._num(y)
                    if isinstance(y, int):
                        return x * y
                    if isinstance(x, list) and is_z3(y):
                        return SegList([(list(x), y)])
                if isinstance(x, SegList) and not isinstance(y, (list, tuple, SegList, SArr)):
                    raise Unsupported('repetition of a segmented list')
        if isinstance(op, ast.Mod) and isinstance(a, str):
            raise Unsupported('string formatting')
        if isinstance(a, SArr) or isinstance(b, SArr):
            return self.arr_binop(op, a, b)
        if isinstance(a, (SSet, set, frozenset)) and isinstance(b, (SSet, set, frozenset)):
            return self.set_binop(op, a, b)
        a, b = self._num(a), self._num(b)
        if isinstance(a, (int, Fraction)) and isinstance(b, (int, Fraction)):
            return self._concrete_binop(op, a, b)
        if (a is None or b is None) and not self.spec_mode:
            raise PyRaise('TypeError')      # arithmetic with None
        if not (isinstance(a, (int, Fraction)) or is_z3(a)) or not (isinstance(b, (int, Fraction)) or is_z3(b)):
            raise Unsupported(f'binary {type(op).__name__} on {type(a).__name__}, {type(b).__name__}')
        real = any((is_z3(x) and x.sort() == z3.RealSort()) or isinstance(x, Fraction) for x in (a, b))
        sort = z3.RealSort() if real else z3.IntSort()
        if isinstance(op, ast.Div):
            sort = z3.RealSort()
        if isinstance(op, ast.Pow):
            return self._pow(a, b)
        za, zb = to_z3(a, sort), to_z3(b, sort)
        if isinstance(op, ast.Add):
            return za + zb
        if isinstance(op, ast.Sub):
            return za - zb
        if isinstance(op, ast.Mult):
            return za * zb
        if isinstance(op, (ast.Div, ast.FloorDiv, ast.Mod)):
            if not self.spec_mode:
                if self.branch(zb == 0):
                    raise PyRaise('ZeroDivisionError')
            if isinstance(op, ast.Div):
                return za / zb
            if sort == z3.RealSort():
                raise Unsupported('floor division / modulo on reals')
            if self.ghost.get('uninterpreted_mod') and not z3.is_int_value(zb):
                return self.umod(za, zb, div=isinstance(op, ast.FloorDiv))
            return self.floordiv(za, zb) if isinstance(op, ast.FloorDiv) else self.pymod(za, zb)
        raise Unsupported(f'operator {type(op).__name__}')

    MODU = z3.Function('pymod', z3.IntSort(), z3.IntSort(), z3.IntSort())
    DIVU = z3.Function('pyfloordiv', z3.IntSort(), z3.IntSort(), z3.IntSort())

    @classmethod
    def umod_def(cls, a, b):
        """defining property of Python's a // b, a % b (instance for the terms a, b)"""
        q, r = cls.DIVU(a, b), cls.MODU(a, b)
        return z3.And(a == b * q + r, z3.Implies(b > 0, z3.And(0 <= r, r < b)), z3.Implies(b < 0, z3.And(b < r, r <= 0)))

    def umod(self, a, b, div=False):
        """opt-in (ghost['uninterpreted_mod']): `%` / `//` with a symbolic divisor as uninterpreted functions whose defining
        property is added for each term that the *code* computes (ground instances: no nonlinear term below a quantifier).
        Inside specifications only the term is built; facts about it come from proved lemmas."""
        if not self.spec_mode:
            self.assume(self.umod_def(a, b))
        return self.DIVU(a, b) if div else self.MODU(a, b)

    @staticmethod
    def floordiv(a, b):
        """Python floor division on mathematical integers (z3 `/` on Int has a non-negative remainder)."""
        if z3.is_int_value(b):
            return a / b if b.as_long() > 0 else (-a) / (-b)
        return z3.If(b > 0, a / b, (-a) / (-b))

    @classmethod
    def pymod(cls, a, b):
        """Python modulo: result has the sign of the divisor."""
        if z3.is_int_value(b) and b.as_long() > 0:
            return a % b
        return a - b * cls.floordiv(a, b)

    def _concrete_binop(self, op, a, b):
        try:
            if isinstance(op, ast.Add):
                return a + b
            if isinstance(op, ast.Sub):
                return a - b
            if isinstance(op, ast.Mult):
                return a * b
            if isinstance(op, ast.Div):
                return Fraction(a) / Fraction(b)
            if isinstance(op, ast.FloorDiv):
                return a // b
            if isinstance(op, ast.Mod):
                return a % b
            if isinstance(op, ast.Pow):
                return self._pow(a, b)
        except ZeroDivisionError:
            raise PyRaise('ZeroDivisionError')
        raise Unsupported(f'operator {type(op).__name__}')

    def _pow(self, a, b):
        if isinstance(b, int) and not isinstance(b, bool):
            if isinstance(a, (int, Fraction)):
                if b < 0:
                    return Fraction(a) ** b
                return a ** b
            if b >= 0 and b <= 4:
                r = to_z3(1, a.sort())
                for _ in range(b):
                    r = r * a
                return r
            if b == -1:
                return 1 / z3.ToReal(a) if a.sort() == z3.IntSort() else 1 / a
        # non-integer / symbolic exponent: an uninterpreted positive real (A-REAL, value irrelevant)
        self.trusted.add('pow(x, non-integer) modelled as an unspecified real; result > 0 when the base is > 0')
        r = fresh_real('pow')
        if isinstance(a, (int, Fraction)) and isinstance(b, (int, Fraction)) and a > 1 and 0 < b < 1:
            self.assume(z3.And(r > 1, r < to_z3(Fraction(a), z3.RealSort())))   # 1 < a**b < a
        base_pos = (a > 0) if not is_z3(a) else (to_z3(a, z3.RealSort()) > 0)
        if base_pos is True:
            self.assume(r > 0)
        elif is_z3(base_pos):
            self.assume(z3.Implies(base_pos, r > 0))
        return r

    def unaryop(self, op, v):
        if isinstance(op, ast.Not):
            t = self.truthy(v)
            return (not t) if isinstance(t, bool) else z3.Not(t)
        if isinstance(v, SArr):
            return self.arr_unop(op, v)
        if isinstance(v, Opq) and isinstance(op, ast.USub):
            return Opq(z3.Function('neg!U', U, U)(v.t))        # -x of an opaque (array) value: uninterpreted
        v = self._num(v)
        if isinstance(op, ast.USub):
            return -v
        if isinstance(op, ast.UAdd):
            return v
        raise Unsupported(f'unary {type(op).__name__}')

    def compare(self, op, a, b):
        if isinstance(op, (ast.Is, ast.IsNot)):
            r = self.is_same(a, b)
            if isinstance(op, ast.IsNot):
                r = (not r) if isinstance(r, bool) else z3.Not(r)
            return r
        if isinstance(op, (ast.In, ast.NotIn)):
            r = self.contains(b, a)
            if isinstance(op, ast.NotIn):
                r = (not r) if isinstance(r, bool) else z3.Not(r)
            return r
        from .values import INF
        if a is INF or b is INF:
            if isinstance(op, (ast.Eq, ast.NotEq)):
                r = a is b
                return r if isinstance(op, ast.Eq) else not r
            if a is INF and b is not INF:
                return isinstance(op, (ast.Gt, ast.GtE))
            if b is INF and a is not INF:
                return isinstance(op, (ast.Lt, ast.LtE))
            return isinstance(op, (ast.GtE, ast.LtE))
        if isinstance(a, SArr) or isinstance(b, SArr):
            if (isinstance(a, SArr) and a.np) or (isinstance(b, SArr) and b.np):
                return self.arr_binop(op, a, b)
            raise Unsupported('comparison of symbolic lists')
        if isinstance(op, (ast.Eq, ast.NotEq)):
            r = self.equals(a, b)
            if isinstance(op, ast.NotEq):
                r = (not r) if isinstance(r, bool) else z3.Not(r)
            return r
        a, b = self._num(a), self._num(b)
        if isinstance(a, (int, Fraction, str, tuple)) and isinstance(b, (int, Fraction, str, tuple)) \
                and not (isinstance(a, tuple) and any(is_z3(x) for x in a + tuple(b))):
            try:
                if isinstance(op, ast.Lt):
                    return a < b
                if isinstance(op, ast.LtE):
                    return a <= b
                if isinstance(op, ast.Gt):
                    return a > b
                if isinstance(op, ast.GtE):
                    return a >= b
            except TypeError:
                raise PyRaise('TypeError')
        if a is None or b is None:
            if self.spec_mode:
                raise Unsupported('ordering comparison with None in a specification')
            raise PyRaise('TypeError')
        if isinstance(a, tuple) and isinstance(b, tuple):
            return self.tuple_less(op, a, b)
        real = any((is_z3(x) and x.sort() == z3.RealSort()) or isinstance(x, Fraction) for x in (a, b))
        sort = z3.RealSort() if real else z3.IntSort()
        try:
            za, zb = to_z3(a, sort), to_z3(b, sort)
        except TypeError:
            raise Unsupported(f'ordering comparison of {type(a).__name__} and {type(b).__name__}')
        if isinstance(op, ast.Lt):
            return za < zb
        if isinstance(op, ast.LtE):
            return za <= zb
        if isinstance(op, ast.Gt):
            return za > zb
        if isinstance(op, ast.GtE):
            return za >= zb
        raise Unsupported(f'comparison {type(op).__name__}')

    def tuple_less(self, op, a, b):
        if len(a) != len(b):
            raise Unsupported('ordering of tuples of different length')
        strict = isinstance(op, (ast.Lt, ast.Gt))
        lt = ast.Lt() if isinstance(op, (ast.Lt, ast.LtE)) else ast.Gt()
        res = z3.BoolVal(not strict)
        for x, y in reversed(list(zip(a, b))):
            res = z3.Or(self.z3bool(self.compare(lt, x, y)), z3.And(self.z3bool(self.equals(x, y)), res))
        return z3.simplify(res)

    def equals(self, a, b):
        from .values import INF
        if a is INF or b is INF:
            return a is b
        if a is None or b is None:
            if a is None and b is None:
                return True
            o = b if a is None else a
            if isinstance(o, Opq):
                return o.t == NONE_U
            if is_z3(o) and o.sort() == U:
                return o == NONE_U
            return False
        if isinstance(a, str) or isinstance(b, str):
            if isinstance(a, str) and isinstance(b, str):
                return a == b
            if isinstance(a, Opq) or isinstance(b, Opq) or (is_z3(a) and a.sort() == U) or (is_z3(b) and b.sort() == U):
                return to_z3(a, U) == to_z3(b, U)      # strings are injectively embedded into U (values.str_const)
            return False
        a, b = self._num(a), self._num(b)
        if isinstance(a, (int, Fraction)) and isinstance(b, (int, Fraction)):
            return a == b
        if isinstance(a, (tuple, list)) and isinstance(b, (tuple, list)):
            if isinstance(a, tuple) != isinstance(b, tuple):
                return False
            if len(a) != len(b):
                return False
            cs = [self.equals(x, y) for x, y in zip(a, b)]
            if any(c is False for c in cs):
                return False
            cs = [c for c in cs if c is not True]
            if not cs:
                return True
            return z3.And(*[self.z3bool(c) for c in cs]) if len(cs) > 1 else self.z3bool(cs[0])
        if isinstance(a, Opq) or isinstance(b, Opq) or (is_z3(a) and a.sort() == U) or (is_z3(b) and b.sort() == U):
            try:
                return to_z3(a, U) == to_z3(b, U)
            except TypeError:
                raise Unsupported('equality between opaque and non-opaque value')
        if (is_z3(a) or isinstance(a, (int, Fraction))) and (is_z3(b) or isinstance(b, (int, Fraction))):
            real = any((is_z3(x) and x.sort() == z3.RealSort()) or isinstance(x, Fraction) for x in (a, b))
            if is_z3(a) and is_z3(b) and a.sort() == z3.BoolSort() and b.sort() == z3.BoolSort():
                return a == b
            sort = z3.RealSort() if real else z3.IntSort()
            return to_z3(a, sort) == to_z3(b, sort)
        if isinstance(a, SObj) and '__eq__' in a.attrs:
            return self.call(a.attrs['__eq__'], [b], {})
        if isinstance(a, SObj) and isinstance(b, SObj):
            m = self.find_method_obj(a, '__eq__')
            if m is not None:
                return self.call_function(m, [b], {})
            return a is b
        if isinstance(a, (set, frozenset, dict)) and isinstance(b, (set, frozenset, dict)):
            return a == b
        if isinstance(a, (FuncVal, ClassVal, Builtin, ExcClass)) or isinstance(b, (FuncVal, ClassVal, Builtin, ExcClass)):
            return a is b
        if type(a) != type(b) and not is_sym(a) and not is_sym(b):
            return False
        raise Unsupported(f'equality of {type(a).__name__} and {type(b).__name__}')

    def is_same(self, a, b):
        if a is None or b is None:
            return self.equals(a, b) if (isinstance(a, Opq) or isinstance(b, Opq) or is_z3(a) or is_z3(b)) else (a is b)
        if isinstance(a, bool) or isinstance(b, bool):
            if isinstance(a, bool) and isinstance(b, bool):
                return a == b
            if is_z3(a) or is_z3(b):
                za, zb = (a, b) if is_z3(a) else (b, a)
                if za.sort() == z3.BoolSort():
                    return za == z3.BoolVal(zb)
            return False
        if isinstance(a, Opq) and isinstance(b, Opq):
            return a.t == b.t
        if isinstance(a, (SObj, SArr, SMap, SSet, list, dict, set)) or isinstance(b, (SObj, SArr, SMap, SSet, list, dict, set)):
            return a is b
        if isinstance(a, (FuncVal, ClassVal, Builtin, ExcClass, ModuleVal)):
            return a is b
        return self.equals(a, b)

    # ------------------------------------------------------------------ containers
    def _segs(self, x):
        return list(x.segs) if isinstance(x, SegList) else [(list(x), 1)]

    def seg_len(self, s):
        tot = 0
        for items, c in s.segs:
            tot = self.binop(ast.Add(), tot, self.binop(ast.Mult(), len(items), c))
        return tot

    def length(self, v):
        if isinstance(v, (str, tuple, list, dict, set, frozenset, range)):
            return len(v)
        if isinstance(v, SArr):
            return v.n
        if isinstance(v, SegList):
            return self.seg_len(v)
        if isinstance(v, Opq):
            return z3.Function('len!U', U, z3.IntSort())(v.t)       # length of an opaque sequence: uninterpreted
        if isinstance(v, SObj):
            if '__len__' in v.attrs:
                return self.call(v.attrs['__len__'], [], {})
            m = self.find_method_obj(v, '__len__')
            if m is not None:
                return self.call_function(m, [], {})
        raise Unsupported(f'len() of {type(v).__name__}')

    def contains(self, cont, x):
        if isinstance(cont, (tuple, list)):
            cs = [self.equals(e, x) for e in cont]
            if any(c is True for c in cs):
                return True
            cs = [self.z3bool(c) for c in cs if c is not False]
            return z3.Or(*cs) if cs else False
        if isinstance(cont, (set, frozenset)):
            if not is_sym(x):
                return x in cont
            return self.contains(tuple(cont), x)
        if isinstance(cont, dict):
            if not is_sym(x):
                return x in cont
            return self.contains(tuple(cont.keys()), x)
        if isinstance(cont, str) and isinstance(x, str):
            return x in cont
        if isinstance(cont, SSet):
            return z3.Select(cont.mem, to_z3(x, kind_sort(cont.kkind)))
        if isinstance(cont, SMap):
            return z3.Select(cont.dom, to_z3(x, kind_sort(cont.kkind)))
        if (isinstance(cont, SArr) and getattr(cont, 'slice_of', None) is not None
                and len(cont.slice_of[3]) == len(cont.leaves) and all(x is y for x, y in zip(cont.slice_of[3], cont.leaves))):
            # (only while the slice has not been written to since it was taken)
            # x in base[lo:hi]  <=>  exists q, lo <= q < hi: base[q] == x   (same shape as a specification writes it: no re-indexing)
            leaves, lo, hi, _ = cont.slice_of
            q = fresh_int('q')
            xz = self.flat_elem(x, cont.kind)
            eq = z3.And(*[z3.Select(l, q) == e for l, e in zip(leaves, xz)])
            return z3.Exists([q], z3.And(to_z3(lo) <= q, q < to_z3(hi), eq))
        if isinstance(cont, SArr):
            k = fresh_int('k')
            xz = self.flat_elem(x, cont.kind)
            eq = z3.And(*[z3.Select(l, k) == e for l, e in zip(cont.leaves, xz)])
            return z3.Exists([k], z3.And(0 <= k, k < to_z3(cont.n), eq))
        if isinstance(cont, SObj) and '__contains__' in cont.attrs:
            return self.call(cont.attrs['__contains__'], [x], {})
        if isinstance(cont, SObj):
            m = self.find_method_obj(cont, '__contains__')
            if m is not None:
                return self.call_function(m, [x], {})
        if isinstance(cont, range):
            if not is_sym(x):
                return x in cont
        raise Unsupported(f'`in` on {type(cont).__name__}')

    def flat_elem(self, v, kind):
        """value -> list of z3 leaf terms according to element kind."""
        if isinstance(kind, tuple):
            if not isinstance(v, tuple) or len(v) != len(kind[1]):
                raise Unsupported(f'element {v!r} does not match kind {kind}')
            out = []
            for x, k in zip(v, kind[1]):
                out.extend(self.flat_elem(x, k))
            return out
        if kind == 'U' and isinstance(v, dict) and not v:
            return [EMPTY_DICT_U]      # a fresh empty dict stored into an opaque-valued container
        if kind == 'U' and not (isinstance(v, (Opq, str)) or v is None or (is_z3(v) and v.sort() == U)):
            raise Unsupported(f'cannot store {type(v).__name__} in an opaque-valued container')
        return [to_z3(v if isinstance(v, str) else (self._num(v) if kind != 'bool' else v), kind_sort(kind))]

    def unflat_elem(self, terms, kind):
        if isinstance(kind, tuple):
            out = []
            pos = 0
            for k in kind[1]:
                n = len(kind_leaves(k))
                out.append(self.unflat_elem(terms[pos:pos + n], k))
                pos += n
            cls = kind[2] if len(kind) > 2 and kind[2] else tuple
            return cls(out)
        t = terms[0]
        if kind == 'U':
            return Opq(t)
        return t

    def list_to_arr(self, lst, kind=None, np=False):
        if kind is None:
            if not lst:
                raise Unsupported('element kind of empty list unknown')
            kind = kind_of_scalar(lst[0])
            if kind == 'int' and any(kind_of_scalar(x) == 'real' for x in lst):
                kind = 'real'
        leaves_k = kind_leaves(kind)
        leaves = [z3.K(z3.IntSort(), to_z3(0, kind_sort(k)) if k != 'U' else NONE_U) if k != 'bool'
                  else z3.K(z3.IntSort(), z3.BoolVal(False)) for k in leaves_k]
        for i, v in enumerate(lst):
            fl = self.flat_elem(v, kind)
            leaves = [z3.Store(l, i, e) for l, e in zip(leaves, fl)]
        return SArr(len(lst), leaves, kind, np)

    def arr_concat(self, a, b):
        if a.kind != b.kind:
            raise Unsupported('concatenation of lists with different element kinds')
        k = z3.Int('k!cat')
        na = to_z3(a.n)
        leaves = [z3.Lambda([k], z3.If(k < na, z3.Select(la, k), z3.Select(lb, k - na)))
                  for la, lb in zip(a.leaves, b.leaves)]
        return SArr(self.binop(ast.Add(), a.n, b.n), leaves, a.kind, False)

    def norm_index(self, i, n, what='list'):
        """Python index normalisation with IndexError; returns index in [0, n)."""
        i = self._num(i)
        if isinstance(i, int) and isinstance(n, int) and self.spec_mode and not (-n <= i < n):
            return i        # inside a specification an out-of-range selection is an unspecified value, not an exception
        if isinstance(i, int) and isinstance(n, int):
            nowrap = self.frames and getattr(getattr(self.frames[-1], 'funcnode', None), '_pyx_flags', {}).get('wraparound') is False
            if (0 if nowrap else -n) <= i < n:
                return i % n if n else i
            raise PyRaise('IndexError')
        zi, zn = to_z3(i), to_z3(n)
        if self.spec_mode:
            return z3.simplify(z3.If(zi < 0, zi + zn, zi))
        if self.valid(z3.And(0 <= zi, zi < zn)):
            return i
        if self.frames and getattr(getattr(self.frames[-1], 'funcnode', None), '_pyx_flags', {}).get('wraparound') is False:
            # Cython wraparound(False) [+ boundscheck(False)]: a negative or too large index is an access outside the buffer
            if self.branch(z3.Or(zi < 0, zi >= zn)):
                raise PyRaise('IndexError')
            return i
        if self.branch(zi < 0):
            if self.branch(zi < -zn):
                raise PyRaise('IndexError')
            return zi + zn
        if self.branch(zi >= zn):
            raise PyRaise('IndexError')
        return i

    @staticmethod
    def _strip_ellipsis(obj, idx):
        """numpy: for a 1-D array `a[..., k]` is `a[k]` (the Ellipsis stands for zero axes)"""
        if isinstance(idx, tuple) and len(idx) == 2 and idx[0] is Ellipsis and isinstance(obj, SArr) and obj.np:
            return idx[1]
        if idx is Ellipsis or (isinstance(idx, tuple) and any(x is Ellipsis for x in idx)):
            raise Unsupported('Ellipsis in an index other than a[..., k] on a 1-D numpy array')
        return idx

    def getitem(self, obj, idx):
        idx = self._strip_ellipsis(obj, idx)
        if isinstance(obj, (list, tuple, str)):
            if isinstance(idx, slice):
                if all(isinstance(x, (int, type(None))) for x in (idx.start, idx.stop, idx.step)):
                    return obj[idx]
                if isinstance(obj, list):
                    return self.getitem(self.list_to_arr(obj), idx)
                raise Unsupported('symbolic slice of tuple')
            idx = self._num(idx)
            if isinstance(idx, int):
                try:
                    return obj[idx]
                except IndexError:
                    raise PyRaise('IndexError')
            if is_z3(idx) and not isinstance(obj, str):
                i = self.norm_index(idx, len(obj))
                if isinstance(i, int):
                    return obj[i]
                if len(obj) == 0:
                    raise PyRaise('IndexError')
                if self.spec_mode or True:
                    try:
                        res = obj[-1]
                        for j in range(len(obj) - 2, -1, -1):
                            res = self.ite(i == j, obj[j], res)
                        return res
                    except Unsupported:
                        pass
                for j in range(len(obj)):
                    if self.branch(i == j):
                        return obj[j]
                raise PathEnd()
            raise Unsupported(f'index {idx!r} into {type(obj).__name__}')
        if isinstance(obj, dict):
            if is_sym(idx):
                for k in obj:
                    if self.branch(self.equals(k, idx)):
                        return obj[k]
                raise PyRaise('KeyError')
            try:
                return obj[idx]
            except KeyError:
                raise PyRaise('KeyError')
            except TypeError:
                raise Unsupported('unhashable key')
        if isinstance(obj, SArr):
            return self.arr_getitem(obj, idx)
        if isinstance(obj, SegList):
            return self.seg_getitem(obj, idx)
        if isinstance(obj, SMap):
            k = to_z3(idx, kind_sort(obj.kkind))
            if not self.spec_mode:
                if not self.branch(z3.Select(obj.dom, k)):
                    raise PyRaise('KeyError')
            return self.unflat_elem([z3.Select(obj.val, k)], obj.vkind)
        if isinstance(obj, SObj):
            if '__getitem__' in obj.attrs:        # ghost container: indexing defined by the contract
                return self.call(obj.attrs['__getitem__'], [idx], {})
            m = self.find_method_obj(obj, '__getitem__')
            if m is not None:
                return self.call_function(m, [idx], {})
        if isinstance(obj, range):
            idx = self._num(idx)
            if isinstance(idx, int):
                try:
                    return obj[idx]
                except IndexError:
                    raise PyRaise('IndexError')
        if isinstance(obj, Opq):
            return Opq(base='item')       # element / slice of an opaque array: an unspecified opaque value
        raise Unsupported(f'subscript of {type(obj).__name__}')

    def ite(self, c, a, b):
        if c is True:
            return a
        if c is False:
            return b
        if isinstance(a, tuple) and isinstance(b, tuple) and len(a) == len(b):
            return type(a)(self.ite(c, x, y) for x, y in zip(a, b)) if not isinstance(a, NT) else \
                type(a)([self.ite(c, x, y) for x, y in zip(a, b)])
        if a is b:
            return a
        if isinstance(a, Opq) or isinstance(b, Opq) or (isinstance(a, str) and isinstance(b, str)):
            return Opq(z3.If(c, to_z3(a, U), to_z3(b, U)))
        a, b = self._num(a), self._num(b)
        if (is_z3(a) or isinstance(a, (int, Fraction, bool))) and (is_z3(b) or isinstance(b, (int, Fraction, bool))):
            ka, kb = kind_of_scalar(a), kind_of_scalar(b)
            kind = ka if ka == kb else ('real' if {ka, kb} <= {'int', 'real'} else None)
            if kind is None:
                raise Unsupported('if-then-else of different kinds')
            return z3.If(c, to_z3(a, kind_sort(kind)), to_z3(b, kind_sort(kind)))
        raise Unsupported(f'symbolic if-then-else over {type(a).__name__}/{type(b).__name__}')

    def seg_getitem(self, s, idx):
        idx = self._num(idx)
        if isinstance(idx, slice):
            raise Unsupported('slice of segmented list')
        # locate by forking over segments
        off = 0
        n = self.seg_len(s)
        i = self.norm_index(idx, n)
        if self.spec_mode:
            # total (no forking inside a specification): nested if-then-else over the segments, last segment as default
            missing = object()          # (an element may itself be None)
            res = missing
            offs = []
            for items, c in s.segs:
                offs.append(off)
                off = self.binop(ast.Add(), off, self.binop(ast.Mult(), len(items), c))
            for (items, c), o in reversed(list(zip(s.segs, offs))):
                rel = self.binop(ast.Sub(), i, o)
                r = self.binop(ast.Mod(), rel, len(items)) if len(items) > 1 else 0
                el = self.getitem(items, r)
                if res is missing:
                    res = el
                else:
                    hi = self.binop(ast.Add(), o, self.binop(ast.Mult(), len(items), c))
                    res = self.ite(self.z3bool(self.compare(ast.Lt(), i, hi)), el, res)
            if res is missing:
                raise Unsupported('index into an empty segmented list inside a specification')
            return res
        for items, c in s.segs:
            ln = self.binop(ast.Mult(), len(items), c)
            hi = self.binop(ast.Add(), off, ln)
            if self.branch(self.compare(ast.Lt(), i, hi)):
                rel = self.binop(ast.Sub(), i, off)
                r = self.binop(ast.Mod(), rel, len(items)) if len(items) > 1 else 0
                return self.getitem(items, r)
            off = hi
        raise PathEnd()

    def arr_getitem(self, a, idx):
        if isinstance(idx, slice):
            return self.arr_slice(a, idx)
        if isinstance(idx, SArr):
            return self.arr_fancy(a, idx)
        if isinstance(idx, (list,)):
            return self.arr_fancy(a, self.list_to_arr(idx, 'int'))
        if isinstance(idx, tuple) and len(idx) == 2 and a.kind == 'U' and isinstance(idx[1], slice) and idx[1] == slice(None, None, None):
            return self.arr_getitem(a, idx[0])       # rows of a matrix kept as opaque rows: m[sel, :] selects rows
        if isinstance(idx, tuple):
            raise Unsupported('multi-dimensional indexing')
        i = self.norm_index(idx, a.n)
        zi = to_z3(i)
        return self.unflat_elem([z3.Select(l, zi) for l in a.leaves], a.kind)

    def slice_bounds(self, sl, n):
        """Python slice(start, stop, None) -> (lo, hi) clipped to [0, n], hi>=lo; all possibly symbolic."""
        if sl.step not in (None, 1):
            raise Unsupported('slice step')
        zn = to_z3(n)

        def clip(v, default):
            if v is None:
                return default
            v = self._num(v)
            zv = to_z3(v)
            w = z3.If(zv < 0, zv + zn, zv)
            return z3.simplify(z3.If(w < 0, 0, z3.If(w > zn, zn, w)))
        lo = clip(sl.start, z3.IntVal(0))
        hi = clip(sl.stop, zn)
        hi = z3.simplify(z3.If(hi < lo, lo, hi))
        return lo, hi

    def arr_slice(self, a, sl):
        if sl.step in (None, 1) and sl.start is not None and sl.stop is not None and not self.spec_mode:
            zs, ze, zn = to_z3(self._num(sl.start)), to_z3(self._num(sl.stop)), to_z3(a.n)
            if self.valid(z3.And(0 <= zs, zs <= ze, ze <= zn)):
                k = z3.Int('k!sl')
                n = z3.simplify(ze - zs)
                n = n.as_long() if z3.is_int_value(n) else n
                r = SArr(n, [z3.Lambda([k], z3.Select(l, k + zs)) for l in a.leaves], a.kind, a.np)
                r.view_of = a if a.np else None
                r.slice_of = (list(a.leaves), zs, ze, tuple(r.leaves))
                return r
        lo, hi = self.slice_bounds(sl, a.n)
        k = z3.Int('k!sl')
        leaves = [z3.Lambda([k], z3.Select(l, k + lo)) for l in a.leaves]
        n = z3.simplify(hi - lo)
        if z3.is_int_value(n):
            n = n.as_long()
        # NOTE: numpy basic slices are views; writes through views are not modelled (refused in setitem)
        r = SArr(n, leaves, a.kind, a.np)
        r.view_of = a if a.np else None
        if sl.step in (None, 1):
            r.slice_of = (list(a.leaves), lo, hi, tuple(r.leaves))   # membership tests are stated over the indices of the base sequence (see contains)
        return r

    def arr_fancy(self, a, idx):
        k = z3.Int('k!fx')
        if idx.kind == 'bool':
            raise Unsupported('boolean mask indexing')
        za_n = to_z3(a.n)
        if not self.spec_mode:
            j = fresh_int('j')
            inr = z3.ForAll([j], z3.Implies(z3.And(0 <= j, j < to_z3(idx.n)),
                                            z3.And(-za_n <= z3.Select(idx.leaves[0], j), z3.Select(idx.leaves[0], j) < za_n)))
            if not self.valid(inr):
                if not self.branch(inr):
                    raise PyRaise('IndexError')
        ik = z3.Select(idx.leaves[0], k)
        ik = z3.If(ik < 0, ik + za_n, ik)
        leaves = [z3.Lambda([k], z3.Select(l, ik)) for l in a.leaves]
        return SArr(idx.n, leaves, a.kind, a.np)

    def _view_write(self, arr):
        """a write through a numpy view: outside the subset in general; a view of a *ghost read-only* container (marked
        'ghost:<name>' by the contract) is an obligation failure - the write would change the container behind it"""
        v = arr.view_of
        if isinstance(v, str) and v.startswith('ghost:'):
            self.oblige(f'no-write-through-view-of-{v[6:]}', z3.BoolVal(False),
                        {'clause': f'`{v[6:]}` is not modified (a row obtained by basic indexing is a view: copy before writing)'})
            arr.view_of = None
            return
        raise Unsupported('write through a numpy view')

    def setitem(self, obj, idx, val):
        idx = self._strip_ellipsis(obj, idx)
        if isinstance(obj, list):
            idx = self._num(idx)
            if isinstance(idx, int):
                try:
                    obj[idx] = val
                except IndexError:
                    raise PyRaise('IndexError')
                return
            if isinstance(idx, slice):
                raise Unsupported('slice assignment on list')
            i = self.norm_index(idx, len(obj))
            if isinstance(i, int):
                obj[i] = val
                return
            for j in range(len(obj)):
                obj[j] = self.ite(z3.simplify(i == j), val, obj[j])
            return
        if isinstance(obj, dict):
            if is_sym(idx):
                raise Unsupported('symbolic key into concrete dict')
            obj[idx] = val
            return
        if isinstance(obj, SArr):
            if getattr(obj, 'view_of', None) is not None:
                self._view_write(obj)
            if isinstance(idx, SArr) and idx.kind == 'int' and obj.np and len(obj.leaves) == 1:
                return self.arr_scatter(obj, idx, val)
            if isinstance(idx, slice) and obj.np and len(obj.leaves) == 1:
                return self.arr_slice_assign(obj, idx, val)
            if isinstance(idx, (slice, SArr, tuple, list)):
                raise Unsupported('slice/fancy assignment')
            i = self.norm_index(idx, obj.n)
            fl = self.flat_elem(val, obj.kind)
            obj.leaves = [z3.Store(l, to_z3(i), e) for l, e in zip(obj.leaves, fl)]
            return
        if isinstance(obj, SMap):
            k = to_z3(idx, kind_sort(obj.kkind))
            obj.dom = z3.Store(obj.dom, k, z3.BoolVal(True))
            obj.val = z3.Store(obj.val, k, self.flat_elem(val, obj.vkind)[0])
            return
        if isinstance(obj, SObj):
            if '__setitem__' in obj.attrs:
                self.call(obj.attrs['__setitem__'], [idx, val], {})
                return
            m = self.find_method_obj(obj, '__setitem__')
            if m is not None:
                self.call_function(m, [idx, val], {})
                return
        raise Unsupported(f'item assignment on {type(obj).__name__}')

    def arr_slice_assign(self, obj, sl, val):
        """numpy: a[lo:hi] = v  for a 1-D array; v a scalar (broadcast) or a 1-D array of exactly hi - lo elements
        (anything else is numpy's "could not broadcast" ValueError; length-1 arrays are not broadcast here)"""
        lo, hi = self.slice_bounds(sl, obj.n)
        k = z3.Int('k!sa')
        old = obj.leaves[0]
        if isinstance(val, (SArr, list)):
            if isinstance(val, list):
                val = self.list_to_arr(val, obj.kind, np=True)
            if len(val.leaves) != 1:
                raise Unsupported('slice assignment of an array of tuples')
            same = z3.simplify(to_z3(val.n) == hi - lo)
            if not _is_true(same):
                if self.branch(z3.Not(same)):
                    raise PyRaise('ValueError')
            new = z3.Select(val.leaves[0], k - lo)
        else:
            new = to_z3(self.flat_elem(val, obj.kind)[0])
        obj.leaves = [z3.Lambda([k], z3.If(z3.And(lo <= k, k < hi), new, z3.Select(old, k)))]

    def arr_scatter(self, obj, idx, val):
        """numpy `a[idx] = val` for 1-D integer index array idx (assumed contract of numpy fancy assignment):
        IndexError iff some index is outside [-n, n); otherwise the entry at (normalised) idx[j] receives val[j], the last
        of equal indices winning, and every position not named by idx keeps its value."""
        self.trusted.add('numpy fancy-index assignment a[idx] = vals (1-D)')
        n, m = to_z3(obj.n), to_z3(idx.n)
        j, j2, k = z3.Int('j!sc'), z3.Int('j2!sc'), z3.Int('k!sc')
        ix = lambda t: z3.Select(idx.leaves[0], t)
        nrm = lambda t: z3.If(ix(t) < 0, ix(t) + n, ix(t))
        in_range = z3.ForAll([j], z3.Implies(z3.And(0 <= j, j < m), z3.And(-n <= ix(j), ix(j) < n)))
        if not self.branch(in_range):
            raise PyRaise('IndexError')
        srt = kind_sort(obj.kind)
        if isinstance(val, SArr):
            if len(val.leaves) != 1 or val.kind != obj.kind:
                raise Unsupported('scatter of a different element kind')
            if not self.branch(to_z3(val.n) == m):
                raise PyRaise('ValueError')        # shape mismatch: cannot broadcast
            vj = lambda t: z3.Select(val.leaves[0], t)
        else:
            v0 = self.flat_elem(val, obj.kind)[0]
            vj = lambda t: v0
        new = z3.Array(fresh_name('scatter'), z3.IntSort(), srt)
        old = obj.leaves[0]
        self.assume(z3.ForAll([j], z3.Implies(
            z3.And(0 <= j, j < m, z3.ForAll([j2], z3.Implies(z3.And(j < j2, j2 < m), nrm(j2) != nrm(j)))),
            z3.Select(new, nrm(j)) == vj(j))))
        self.assume(z3.ForAll([k], z3.Implies(
            z3.ForAll([j], z3.Implies(z3.And(0 <= j, j < m), nrm(j) != k)), z3.Select(new, k) == z3.Select(old, k))))
        obj.leaves = [new]

    def delitem(self, obj, idx):
        if isinstance(obj, list):
            idx = self._num(idx)
            if isinstance(idx, (int, slice)):
                try:
                    del obj[idx]
                except IndexError:
                    raise PyRaise('IndexError')
                return
            raise Unsupported('symbolic index deletion from concrete list')
        if isinstance(obj, dict):
            if is_sym(idx):
                raise Unsupported('symbolic key deletion from concrete dict')
            try:
                del obj[idx]
            except KeyError:
                raise PyRaise('KeyError')
            return
        if isinstance(obj, SArr) and not obj.np:
            i = to_z3(self.norm_index(idx, obj.n))
            k = z3.Int('k!del')
            obj.leaves = [z3.Lambda([k], z3.If(k < i, z3.Select(l, k), z3.Select(l, k + 1))) for l in obj.leaves]
            obj.n = self.binop(ast.Sub(), obj.n, 1)
            return
        if isinstance(obj, SMap):
            k = to_z3(idx, kind_sort(obj.kkind))
            if not self.branch(z3.Select(obj.dom, k)):
                raise PyRaise('KeyError')
            obj.dom = z3.Store(obj.dom, k, z3.BoolVal(False))
            return
        if isinstance(obj, SObj):
            m = self.find_method_obj(obj, '__delitem__')
            if m is not None:
                self.call_function(m, [idx], {})
                return
        raise Unsupported(f'item deletion on {type(obj).__name__}')

    # numpy-like elementwise operations on SArr (Lambda-defined arrays, no quantified axioms)
    def arr_binop(self, op, a, b):
        k = z3.Int('k!ew')
        # an array of opaque rows times the concrete sign +1 / -1 (charges * qconj): itself / its element-wise negation
        for x, y in ((a, b), (b, a)):
            if isinstance(x, SArr) and x.kind == 'U' and isinstance(op, ast.Mult) and isinstance(y, int) and not isinstance(y, bool) and y in (1, -1):
                return SArr(x.n, list(x.leaves), 'U', True) if y == 1 else self.arr_unop(ast.USub(), x)
        if any(isinstance(x, SArr) and x.kind == 'U' for x in (a, b)) and not isinstance(op, ast.cmpop):
            raise Unsupported('arithmetic on an array of opaque rows')

        def el(x):
            if isinstance(x, SArr):
                if len(x.leaves) != 1:
                    raise Unsupported('arithmetic on array of tuples')
                return z3.Select(x.leaves[0], k)
            if isinstance(x, list):
                return z3.Select(self.list_to_arr(x).leaves[0], k)
            return self._num(x)
        arrs = [x for x in (a, b) if isinstance(x, SArr)]
        if not all(x.np for x in arrs):
            raise Unsupported('elementwise operation on a list')
        n = arrs[0].n
        if len(arrs) == 2 and not self.spec_mode:
            same = self.equals(arrs[0].n, arrs[1].n)
            if not _is_true(same) and not self.valid(self.z3bool(same)):
                # numpy broadcasting of length-1 arrays is not modelled
                raise Unsupported('elementwise operation on arrays whose equal length is not established')
        ea, eb = el(a), el(b)
        self.spec_mode += 1
        try:
            if isinstance(op, ast.cmpop):
                r = self.compare(op, ea, eb)
            else:
                r = self.binop(op, ea, eb)
        finally:
            self.spec_mode -= 1
        kind = kind_of_scalar(r)
        return SArr(n, [z3.Lambda([k], to_z3(r))], kind, True)

    def arr_unop(self, op, a):
        k = z3.Int('k!ew')
        e = z3.Select(a.leaves[0], k)
        if a.kind == 'U' and isinstance(op, ast.USub):
            # -x on an array of opaque rows: element-wise, the same uninterpreted negation as for a single opaque value
            return SArr(a.n, [z3.Lambda([k], z3.Function('neg!U', U, U)(e))], 'U', True)
        r = self.unaryop(op, e)
        return SArr(a.n, [z3.Lambda([k], to_z3(r))], kind_of_scalar(r), True)

    def set_binop(self, op, a, b):
        if isinstance(a, (set, frozenset)) and isinstance(b, (set, frozenset)):
            if isinstance(op, ast.BitOr):
                return a | b
            if isinstance(op, ast.BitAnd):
                return a & b
            if isinstance(op, ast.Sub):
                return a - b
        raise Unsupported('symbolic set operation')

    # ------------------------------------------------------------------ objects & names
    def find_method_obj(self, obj, name):
        if obj.mod is None:
            return None
        r = source.find_method(obj.mod, obj.cls, name)
        if r is None:
            return None
        m2, cd, fn = r
        return FuncVal(m2, fn, self_obj=obj, cls=cd.name)

    def getattr(self, obj, name):
        if isinstance(obj, SuperProxy):
            target = obj.obj
            if isinstance(target, ClassVal):
                chain = source.mro(target.mod, target.name)
            elif isinstance(target, SObj) and target.mod is not None:
                chain = source.mro(target.mod, target.cls)
            else:
                raise Unsupported('super() on an unmodelled object')
            names = [cd.name for _, cd in chain]
            if obj.cls_name not in names:
                raise Unsupported('super(): current class not in the MRO of the object')
            for m2, cd in chain[names.index(obj.cls_name) + 1:]:
                for n in cd.body:
                    if isinstance(n, ast.FunctionDef) and n.name == name:
                        return FuncVal(m2, n, self_obj=target, cls=cd.name)
            raise PyRaise('AttributeError', (name,))
        if isinstance(obj, SObj):
            if name in obj.attrs:
                return obj.attrs[name]
            if name == '__class__':
                return ClassVal(*source.find_class(obj.mod, obj.cls))
            if name == '__dict__':
                return obj.attrs          # the instance dictionary itself (live)
            if obj.mod is not None:
                r = source.find_method(obj.mod, obj.cls, name)
                if r is not None:
                    m2, cd, fn = r
                    decos = [ast.unparse(d) for d in fn.decorator_list]
                    if 'property' in decos:
                        return self.call_function(FuncVal(m2, fn, self_obj=obj, cls=cd.name), [], {})
                    if 'staticmethod' in decos:
                        return FuncVal(m2, fn, cls=cd.name)
                    if 'classmethod' in decos:
                        return FuncVal(m2, fn, self_obj=ClassVal(*source.find_class(obj.mod, obj.cls)), cls=cd.name)
                    return FuncVal(m2, fn, self_obj=obj, cls=cd.name)
                for m2, cd in source.mro(obj.mod, obj.cls):
                    for n in cd.body:
                        if isinstance(n, ast.Assign) and len(n.targets) == 1 and isinstance(n.targets[0], ast.Name) \
                                and n.targets[0].id == name:
                            return self.eval_in_module(m2, n.value)
            if self.spec_mode:
                raise Unsupported(f'attribute {name} of {obj.cls} not present')
            raise PyRaise('AttributeError', (name,))
        if isinstance(obj, NT):
            if name in obj._fields:
                return obj[obj._fields.index(name)]
            raise PyRaise('AttributeError', (name,))
        if isinstance(obj, ModuleVal):
            if f'module:{obj.name}.{name}' in self.hooks:
                return Builtin(self.hooks[f'module:{obj.name}.{name}'], f'{obj.name}.{name}')
            if name in obj.attrs:
                return obj.attrs[name]
            raise Unsupported(f'{obj.name}.{name} has no model')
        if isinstance(obj, ClassVal):
            for m2, cd in source.mro(obj.mod, obj.name):
                for n in cd.body:
                    if isinstance(n, ast.FunctionDef) and n.name == name:
                        decos = [ast.unparse(d) for d in n.decorator_list]
                        if 'classmethod' in decos:
                            return FuncVal(m2, n, self_obj=obj, cls=cd.name)
                        return FuncVal(m2, n, cls=cd.name)
                    if isinstance(n, ast.Assign) and len(n.targets) == 1 and isinstance(n.targets[0], ast.Name) \
                            and n.targets[0].id == name:
                        return self.eval_in_module(m2, n.value)
            if name == '__name__':
                return obj.name
            if name == '__new__':
                return Builtin(lambda I, cls, *a, **k: SObj(cls.name, cls.mod), '__new__')
            raise PyRaise('AttributeError', (name,))
        if obj is None:
            if self.spec_mode:
                raise Unsupported(f'attribute {name} of None in specification')
            raise PyRaise('AttributeError', (name,))
        from . import builtins_model
        m = builtins_model.method_of(self, obj, name)
        if m is not None:
            return m
        if isinstance(obj, Opq):
            return Opq(z3.Function(f'attr!{name}', U, U)(obj.t))      # attribute of an opaque value: uninterpreted
        raise Unsupported(f'attribute {name} of {type(obj).__name__}')

    def setattr(self, obj, name, val):
        if isinstance(obj, SObj):
            obj.attrs[name] = val
            return
        raise Unsupported(f'attribute assignment on {type(obj).__name__}')

    def eval_in_module(self, mod, expr):
        self.frames.append(Frame(mod, {}, qual='<module>'))
        try:
            return self.eval(expr)
        finally:
            self.frames.pop()

    def lookup(self, name):
        fr = self.frames[-1]
        if name in fr.locals:
            return fr.locals[name]
        cl = fr.closure
        while cl is not None:
            if name in cl.locals:
                return cl.locals[name]
            cl = cl.closure
        if name in self.ghost.get('__env__', {}):
            return self.ghost['__env__'][name]
        return self.lookup_global(fr.mod, name)

    def lookup_global(self, mod, name):
        from . import builtins_model
        if f'global:{name}' in self.hooks:
            h = self.hooks[f'global:{name}']
            return Builtin(h, name) if callable(h) else h
        if mod is not None:
            if name in mod.functions:
                return FuncVal(mod, mod.functions[name])
            if name in mod.classes:
                return ClassVal(mod, mod.classes[name])
            if name in mod.assigns:
                return self.eval_in_module(mod, mod.assigns[name])
            if name in mod.imports:
                imp = mod.imports[name]
                if imp[0] == 'module':
                    mv = builtins_model.module_model(imp[1].split('.')[0] if name == imp[1].split('.')[0] else imp[1])
                    if mv is not None:
                        return mv
                    raise Unsupported(f'module {imp[1]} has no model')
                sub = mod.resolve_from((imp[1] + '.' if imp[1] else '') + imp[2], imp[3])
                if sub and not sub.endswith('__init__.py') or (sub and sub != mod.relpath and imp[1] == ''):
                    return ModuleVal(sub, _RepoModuleAttrs(self, source.get_module(sub)))      # `from . import submodule`
                rel = mod.resolve_from(imp[1], imp[3])
                if rel:
                    m2 = source.get_module(rel)
                    if m2 is not mod and (imp[2] in m2.functions or imp[2] in m2.classes or imp[2] in m2.assigns or imp[2] in m2.imports):
                        return self.lookup_global(m2, imp[2])
                if f'import:{imp[1]}.{imp[2]}' in self.hooks:
                    return Builtin(self.hooks[f'import:{imp[1]}.{imp[2]}'], f'{imp[1]}.{imp[2]}')
                mv = builtins_model.from_import(imp[1], imp[2])
                if mv is not None:
                    return mv
                raise Unsupported(f'import {imp[1]}.{imp[2]} has no model')
        b = builtins_model.builtin(name)
        if b is not None:
            return b
        if self.spec_mode:
            raise Unsupported(f'name {name} not defined in specification environment')
        raise Unsupported(f'name {name} not resolvable')

    # ------------------------------------------------------------------ expressions
    def eval(self, e):
        m = getattr(self, 'e_' + type(e).__name__, None)
        if m is None:
            raise Unsupported(f'expression {type(e).__name__}')
        return m(e)

    def e_Constant(self, e):
        v = e.value
        if isinstance(v, float):
            return Fraction(repr(v))
        if isinstance(v, complex):
            raise Unsupported('complex literal')
        return v      # Ellipsis included: only meaningful as `a[..., k]` on a 1-D array (see _strip_ellipsis)

    def e_Name(self, e):
        return self.lookup(e.id)

    def e_Tuple(self, e):
        out = []
        for x in e.elts:
            if isinstance(x, ast.Starred):
                out.extend(self.iter_concrete(self.eval(x.value)))
            else:
                out.append(self.eval(x))
        return tuple(out)

    def e_List(self, e):
        return list(self.e_Tuple(e))

    def e_Set(self, e):
        return set(self.e_Tuple(e))

    def e_Dict(self, e):
        d = {}
        for k, v in zip(e.keys, e.values):
            if k is None:
                d.update(self.eval(v))
            else:
                kk = self.eval(k)
                if is_sym(kk):
                    raise Unsupported('symbolic dict key in literal')
                d[kk] = self.eval(v)
        return d

    def e_BinOp(self, e):
        return self.binop(e.op, self.eval(e.left), self.eval(e.right))

    def e_UnaryOp(self, e):
        return self.unaryop(e.op, self.eval(e.operand))

    def e_BoolOp(self, e):
        if self.spec_mode:
            vals = [self.eval(v) for v in e.values]
            ts = [self.truthy(v) for v in vals]
            if all(isinstance(t, bool) for t in ts):
                # Python value semantics for concrete operands
                for v, t in zip(vals, ts):
                    if (isinstance(e.op, ast.And) and not t) or (isinstance(e.op, ast.Or) and t):
                        return v
                return vals[-1]
            zs = [z3.BoolVal(t) if isinstance(t, bool) else t for t in ts]
            return z3.simplify(z3.And(*zs) if isinstance(e.op, ast.And) else z3.Or(*zs))
        v = None
        for sub in e.values:
            v = self.eval(sub)
            if sub is e.values[-1]:
                return v
            t = self.branch(v)
            if isinstance(e.op, ast.And) and not t:
                return v if not is_z3(v) else False
            if isinstance(e.op, ast.Or) and t:
                return v if not is_z3(v) else True
        return v

    def e_Compare(self, e):
        left = self.eval(e.left)
        res = None
        for op, c in zip(e.ops, e.comparators):
            right = self.eval(c)
            r = self.compare(op, left, right)
            if len(e.ops) == 1:
                return r
            if self.spec_mode or isinstance(r, SArr):
                res = r if res is None else z3.And(self.z3bool(res), self.z3bool(r))
            else:
                if not self.branch(r):
                    return False
                res = True
            left = right
        return res

    def e_IfExp(self, e):
        c = self.eval(e.test)
        if self.spec_mode:
            t = self.truthy(c)
            if isinstance(t, bool):
                return self.eval(e.body if t else e.orelse)
            return self.ite(t, self.eval(e.body), self.eval(e.orelse))
        return self.eval(e.body) if self.branch(c) else self.eval(e.orelse)

    def e_Attribute(self, e):
        return self.getattr(self.eval(e.value), e.attr)

    def e_Subscript(self, e):
        obj = self.eval(e.value)
        return self.getitem(obj, self.eval_index(e.slice))

    def eval_index(self, s):
        if isinstance(s, ast.Slice):
            return slice(self.eval(s.lower) if s.lower else None, self.eval(s.upper) if s.upper else None,
                         self.eval(s.step) if s.step else None)
        if isinstance(s, ast.Tuple):
            return tuple(self.eval_index(x) for x in s.elts)
        return self.eval(s)

    def e_Slice(self, e):
        return self.eval_index(e)

    def e_JoinedStr(self, e):
        return '<fstring>'

    def e_Lambda(self, e):
        return FuncVal(self.frames[-1].mod, e, closure=self.frames[-1], cls=self.frames[-1].cls)

    def e_Starred(self, e):
        raise Unsupported('starred expression')

    def e_ListComp(self, e):
        return self._comp(e, list)

    def e_GeneratorExp(self, e):
        return self._comp(e, list)

    def e_SetComp(self, e):
        return set(self._comp(e, list))

    def e_DictComp(self, e):
        out = {}
        self._comp_rec(e.generators, 0, lambda: out.__setitem__(self._conc_key(self.eval(e.key)), self.eval(e.value)))
        return out

    def _conc_key(self, k):
        if is_sym(k):
            raise Unsupported('symbolic key in dict comprehension')
        return k

    def _comp(self, e, ctor):
        if len(e.generators) == 1 and not e.generators[0].ifs:
            it = self.eval(e.generators[0].iter)
            if isinstance(it, SArr) and not isinstance(it.n, int):
                return self._comp_elementwise(e, it)
            if isinstance(it, _Iter) and it.kind == 'zip' and all(isinstance(p, SArr) for p in it.parts) \
                    and any(not isinstance(p.n, int) for p in it.parts):
                n = it.parts[0].n
                for p in it.parts[1:]:
                    zn, zm = to_z3(n), to_z3(p.n)
                    n = z3.simplify(z3.If(zn <= zm, zn, zm))
                kinds = [p.kind for p in it.parts]
                leaves = [l for p in it.parts for l in p.leaves]
                return self._comp_elementwise(e, SArr(n, leaves, ('tuple', kinds, None), False))
            out = []
            fr = self.frames[-1]
            for item in self.iter_concrete(it):
                saved = dict(fr.locals)
                self.assign_target(e.generators[0].target, item)
                out.append(self.eval(e.elt))
                for n in list(fr.locals):
                    if n not in saved:
                        del fr.locals[n]
                    else:
                        fr.locals[n] = saved[n]
            return ctor(out)
        out = []
        self._comp_rec(e.generators, 0, lambda: out.append(self.eval(e.elt)))
        return ctor(out)

    def _comp_elementwise(self, e, arr):
        """[f(x) for x in arr] over a list of symbolic length: defined pointwise (no branching allowed in f)."""
        k = z3.Int(fresh_name('ce'))
        el = self.unflat_elem([z3.Select(l, k) for l in arr.leaves], arr.kind)
        fr = self.frames[-1]
        saved = dict(fr.locals)
        self.assign_target(e.generators[0].target, el)
        self.spec_mode += 1
        try:
            r = self.eval(e.elt)
        finally:
            self.spec_mode -= 1
            for n in list(fr.locals):
                if n not in saved:
                    del fr.locals[n]
                else:
                    fr.locals[n] = saved[n]
        kind = kind_of_scalar(r)
        flat = self.flat_elem(r, kind)
        return SArr(arr.n, [z3.Lambda([k], t) for t in flat], kind, False)

    def _comp_rec(self, gens, gi, emit):
        if gi == len(gens):
            emit()
            return
        g = gens[gi]
        # comprehension variables live in a nested scope frame
        fr = self.frames[-1]
        for item in self.iter_concrete(self.eval(g.iter)):
            saved = dict(fr.locals)
            self.assign_target(g.target, item)
            ok = True
            for cond in g.ifs:
                c = self.eval(cond)
                if self.spec_mode:
                    t = self.truthy(c)
                    if not isinstance(t, bool):
                        raise Unsupported('symbolic filter in comprehension inside specification')
                    if not t:
                        ok = False
                        break
                elif not self.branch(c):
                    ok = False
                    break
            if ok:
                self._comp_rec(gens, gi + 1, emit)
            # restore names that the comprehension shadowed
            for n in list(fr.locals):
                if n not in saved:
                    del fr.locals[n]
                else:
                    fr.locals[n] = saved[n]

    def iter_concrete(self, v):
        """Iterate a value of concrete length (unrolled)."""
        if isinstance(v, (list, tuple, range, str)):
            return list(v)
        if isinstance(v, (set, frozenset)):
            return sorted(v, key=repr)   # order-independence of the code is required (checked by callers)
        if isinstance(v, dict):
            return list(v.keys())
        if isinstance(v, SArr) and isinstance(v.n, int):
            return [self.arr_getitem(v, i) for i in range(v.n)]
        if isinstance(v, _Iter):
            return v.materialise(self)
        raise Unsupported(f'iteration over {type(v).__name__} of symbolic length (needs a loop invariant)')

    def e_Call(self, e):
        if source.is_dropped_call(e):
            return None
        if self.spec_mode and isinstance(e.func, ast.Name) and e.func.id == 'ite' and len(e.args) == 3 and not e.keywords:
            # specification-level conditional with a *concrete* condition: only the chosen branch is meaningful
            # (ite(is_none(x), a, f(x)) must not evaluate f(None)); symbolic conditions go through the builtin
            c = self.eval(e.args[0])
            if isinstance(c, bool):
                return self.eval(e.args[1] if c else e.args[2])
            return self.call(self.eval(e.func), [c, self.eval(e.args[1]), self.eval(e.args[2])], {})
        f = self.eval(e.func)
        args = []
        for a in e.args:
            if isinstance(a, ast.Starred):
                sv = self.eval(a.value)
                if isinstance(sv, SArr) and not isinstance(sv.n, int):
                    args.append(StarredSeq(sv))      # *seq of symbolic length: only accepted by primitives that expect it
                else:
                    args.extend(self.iter_concrete(sv))
            else:
                args.append(self.eval(a))
        kwargs = {}
        for kw in e.keywords:
            if kw.arg is None:
                d = self.eval(kw.value)
                if isinstance(d, Opq):
                    kwargs['**' + fresh_name('kw')] = d
                elif isinstance(d, dict):
                    kwargs.update(d)
                else:
                    raise Unsupported('**kwargs of non-dict')
            else:
                kwargs[kw.arg] = self.eval(kw.value)
        return self.call(f, args, kwargs)

    def call(self, f, args, kwargs):
        if isinstance(f, Builtin):
            return f.fn(self, *args, **kwargs)
        if isinstance(f, FuncVal):
            return self.call_function(f, args, kwargs)
        if isinstance(f, ClassVal):
            return self.instantiate(f, args, kwargs)
        if isinstance(f, ExcClass):
            return ('exc', f.name, tuple(args))
        if isinstance(f, type) and issubclass(f, NT):
            vals = list(args) + [kwargs[n] for n in f._fields[len(args):]]
            return f(vals)
        if isinstance(f, Opq):
            return self.call_opaque(f, args, kwargs)
        if f is None:
            raise PyRaise('TypeError')
        raise Unsupported(f'call of {type(f).__name__}')

    def call_opaque(self, f, args, kwargs):
        """Calling an uninterpreted callable: logged in the ghost call log, result is a fresh opaque value."""
        genv = self.ghost.get('__env__', {})
        if 'calls' in genv:
            # symbolic ghost call log: (callee, extra-kwargs pack); the result is apply(callee, pack)
            packs = [v for k, v in kwargs.items() if k.startswith('**')]
            pack = packs[-1] if packs else Opq(EMPTY_DICT_U)
            log = genv['calls']
            log.leaves = [z3.Store(l, to_z3(log.n), e) for l, e in zip(log.leaves, [f.t, pack.t])]
            log.n = self.binop(ast.Add(), log.n, 1)
            return Opq(APPLY(f.t, pack.t))
        res = Opq(base='res')
        self.ghost.setdefault('calls', []).append((f, tuple(args), dict(kwargs), res))
        return res

    def instantiate(self, cv, args, kwargs):
        key = f'{cv.mod.relpath}::{cv.name}'
        if key in self.hooks:
            return self.hooks[key](self, args, kwargs)
        obj = SObj(cv.name, cv.mod)
        init = source.find_method(cv.mod, cv.name, '__init__')
        if init is not None:
            m2, cd, fn = init
            self.call_function(FuncVal(m2, fn, self_obj=obj, cls=cd.name), args, kwargs)
        elif args or kwargs:
            raise PyRaise('TypeError')
        return obj

    def call_function(self, f, args, kwargs):
        node = f.node
        key = f'{f.mod.relpath}::{f.cls + "." if f.cls and not isinstance(node, ast.Lambda) else ""}{f.name}'
        if key in self.hooks and not isinstance(node, ast.Lambda):
            return self.hooks[key](self, f, args, kwargs)
        if len(self.frames) > 40:
            raise Unsupported('call depth > 40 (recursion?)')
        locs = self.bind_args(f, args, kwargs)
        fr = Frame(f.mod, locs, cls=f.cls, closure=f.closure, qual=key)
        fr.funcnode = node
        self.frames.append(fr)
        try:
            if isinstance(node, ast.Lambda):
                return self.eval(node.body)
            try:
                self.exec_block(node.body)
            except ReturnSig as r:
                return r.value
            return None
        finally:
            self.frames.pop()

    def bind_args(self, f, args, kwargs):
        a = f.node.args
        params = [p.arg for p in a.posonlyargs + a.args]
        args = list(args)
        if f.self_obj is not None:
            args = [f.self_obj] + args
        locs = {}
        kwargs = dict(kwargs)
        if len(args) > len(params) and a.vararg is None:
            raise PyRaise('TypeError')
        for p, v in zip(params, args):
            locs[p] = v
        if a.vararg is not None:
            locs[a.vararg.arg] = tuple(args[len(params):])
        defaults = a.defaults
        first_default = len(params) - len(defaults)
        for i, p in enumerate(params):
            if p in locs:
                if p in kwargs:
                    raise PyRaise('TypeError')
                continue
            if p in kwargs:
                locs[p] = kwargs.pop(p)
            elif i >= first_default:
                locs[p] = self.eval_default(f, defaults[i - first_default])
            else:
                raise PyRaise('TypeError')
        for p, d in zip(a.kwonlyargs, a.kw_defaults):
            if p.arg in kwargs:
                locs[p.arg] = kwargs.pop(p.arg)
            elif d is not None:
                locs[p.arg] = self.eval_default(f, d)
            else:
                raise PyRaise('TypeError')
        if a.kwarg is not None:
            locs[a.kwarg.arg] = kwargs
        elif kwargs:
            raise PyRaise('TypeError')
        return locs

    def eval_default(self, f, d):
        self.frames.append(Frame(f.mod, {}, cls=f.cls, closure=f.closure))
        try:
            return self.eval(d)
        finally:
            self.frames.pop()

    # ------------------------------------------------------------------ statements
    def exec_block(self, stmts):
        for s in stmts:
            self.exec(s)

    def exec(self, s):
        m = getattr(self, 's_' + type(s).__name__, None)
        if m is None:
            raise Unsupported(f'statement {type(s).__name__}')
        return m(s)

    def s_Expr(self, s):
        if isinstance(s.value, ast.Constant):
            return
        self.eval(s.value)

    def s_Pass(self, s):
        pass

    def s_Import(self, s):
        from . import builtins_model
        for a in s.names:
            nm = a.asname or a.name.split('.')[0]
            mv = builtins_model.module_model(a.name.split('.')[0])
            if mv is None:
                mv = ModuleVal(a.name, _OpaqueModuleAttrs(a.name))
            self.frames[-1].locals[nm] = mv

    def s_ImportFrom(self, s):
        pass

    def s_Global(self, s):
        raise Unsupported('global statement')

    def s_Return(self, s):
        raise ReturnSig(self.eval(s.value) if s.value is not None else None)

    def s_Break(self, s):
        raise BreakSig()

    def s_Continue(self, s):
        raise ContinueSig()

    def s_Assign(self, s):
        v = self.eval(s.value)
        for t in s.targets:
            self.assign_target(t, v)

    def s_AnnAssign(self, s):
        if s.value is not None:
            self.assign_target(s.target, self.eval(s.value))

    def assign_target(self, t, v):
        if isinstance(t, ast.Name):
            self.frames[-1].locals[t.id] = v
        elif isinstance(t, (ast.Tuple, ast.List)):
            if any(isinstance(x, ast.Starred) for x in t.elts):
                raise Unsupported('starred assignment target')
            vals = self.iter_concrete(v) if not isinstance(v, (tuple, list)) else list(v)
            if len(vals) != len(t.elts):
                raise PyRaise('ValueError')
            for x, y in zip(t.elts, vals):
                self.assign_target(x, y)
        elif isinstance(t, ast.Attribute):
            self.setattr(self.eval(t.value), t.attr, v)
        elif isinstance(t, ast.Subscript):
            self.setitem(self.eval(t.value), self.eval_index(t.slice), v)
        else:
            raise Unsupported(f'assignment target {type(t).__name__}')

    def s_AugAssign(self, s):
        t = s.target
        if isinstance(t, ast.Name):
            cur = self.lookup(t.id)
            if isinstance(cur, (list, SArr)) and not (isinstance(cur, SArr) and cur.np):
                if isinstance(s.op, ast.Add):
                    from . import builtins_model
                    builtins_model.list_extend(self, cur, self.eval(s.value))
                    return
            new = self.binop(s.op, cur, self.eval(s.value), inplace=True)
            if isinstance(cur, SArr) and cur.np:
                # numpy in-place: same identity is kept
                if getattr(cur, 'view_of', None) is not None:
                    self._view_write(cur)
                cur.leaves, cur.kind = new.leaves, new.kind
                return
            self.frames[-1].locals[t.id] = new
        elif isinstance(t, ast.Attribute):
            obj = self.eval(t.value)
            cur = self.getattr(obj, t.attr)
            if isinstance(cur, (list, SArr)):
                raise Unsupported('augmented assignment on list/array attribute')
            self.setattr(obj, t.attr, self.binop(s.op, cur, self.eval(s.value)))
        elif isinstance(t, ast.Subscript):
            obj = self.eval(t.value)
            idx = self.eval_index(t.slice)
            cur = self.getitem(obj, idx)
            self.setitem(obj, idx, self.binop(s.op, cur, self.eval(s.value)))
        else:
            raise Unsupported('augmented assignment target')

    def s_Delete(self, s):
        for t in s.targets:
            if isinstance(t, ast.Subscript):
                self.delitem(self.eval(t.value), self.eval_index(t.slice))
            elif isinstance(t, ast.Name):
                self.frames[-1].locals.pop(t.id, None)
            elif isinstance(t, ast.Attribute):
                obj = self.eval(t.value)
                if isinstance(obj, SObj) and t.attr in obj.attrs:
                    del obj.attrs[t.attr]
                else:
                    raise PyRaise('AttributeError')
            else:
                raise Unsupported('delete target')

    def s_If(self, s):
        if self.branch(self.eval(s.test)):
            self.exec_block(s.body)
        else:
            self.exec_block(s.orelse)

    def s_Assert(self, s):
        if not self.branch(self.eval(s.test)):
            raise PyRaise('AssertionError')

    def s_Raise(self, s):
        if s.exc is None:
            cur = self.ghost.get('__handling__')
            if cur:
                raise PyRaise(cur[-1])
            raise Unsupported('bare raise outside handler')
        e = s.exc
        name = None
        if isinstance(e, ast.Call):
            fn = e.func
            name = fn.id if isinstance(fn, ast.Name) else (fn.attr if isinstance(fn, ast.Attribute) else None)
        elif isinstance(e, ast.Name):
            v = None
            try:
                v = self.lookup(e.id)
            except Unsupported:
                pass
            if isinstance(v, tuple) and v and v[0] == 'exc':
                name = v[1]
            else:
                name = e.id
        if name is None:
            raise Unsupported('raise of computed exception')
        raise PyRaise(name)

    def s_Try(self, s):
        try:
            try:
                self.exec_block(s.body)
            except PyRaise as ex:
                for h in s.handlers:
                    names = None
                    if h.type is not None:
                        if isinstance(h.type, ast.Tuple):
                            names = [ast.unparse(x).split('.')[-1] for x in h.type.elts]
                        else:
                            names = [ast.unparse(h.type).split('.')[-1]]
                    if exc_matches(ex.cls, names):
                        if h.name:
                            self.frames[-1].locals[h.name] = ('exc', ex.cls, ex.pyargs)
                        self.ghost.setdefault('__handling__', []).append(ex.cls)
                        try:
                            self.exec_block(h.body)
                        finally:
                            self.ghost['__handling__'].pop()
                        break
                else:
                    raise
            else:
                self.exec_block(s.orelse)
        except (PyRaise, ReturnSig, BreakSig, ContinueSig):
            if s.finalbody:
                self.exec_block(s.finalbody)
            raise
        else:
            if s.finalbody:
                self.exec_block(s.finalbody)

    def s_With(self, s):
        """`with cm as x:` for context managers given as records with __enter__/__exit__ builtins (ghost resources)"""
        entered = []
        for item in s.items:
            cm = self.eval(item.context_expr)
            if not (isinstance(cm, SObj) and '__enter__' in cm.attrs and '__exit__' in cm.attrs):
                raise Unsupported('with statement on an unmodelled context manager')
            v = self.call(cm.attrs['__enter__'], [], {})
            if item.optional_vars is not None:
                self.assign_target(item.optional_vars, v)
            entered.append(cm)
        try:
            self.exec_block(s.body)
        finally:
            for cm in reversed(entered):
                self.call(cm.attrs['__exit__'], [None, None, None], {})

    def s_FunctionDef(self, s):
        self.frames[-1].locals[s.name] = FuncVal(self.frames[-1].mod, s, closure=self.frames[-1], cls=self.frames[-1].cls)

    # ------------------------------------------------------------------ loops
    def next_loop_key(self):
        fr = self.frames[-1]
        k = (fr.qual, fr.loop_ordinal)
        fr.loop_ordinal += 1
        return k

    def s_While(self, s):
        key = self.loop_key_of(s)
        inv = self.invariants.get(key)
        if inv is None:
            # try bounded concrete unrolling (only if the condition stays concrete)
            n = 0
            while True:
                c = self.truthy(self.eval(s.test))
                if not isinstance(c, bool):
                    c2 = z3.simplify(c)
                    if z3.is_true(c2):
                        c = True
                    elif z3.is_false(c2):
                        c = False
                    else:
                        raise Unsupported(f'while loop {key} with symbolic condition needs an invariant')
                if not c:
                    self.exec_block(s.orelse)
                    return
                try:
                    self.exec_block(s.body)
                except BreakSig:
                    return
                except ContinueSig:
                    pass
                n += 1
                if n > 2000:
                    raise Unsupported('concrete while loop exceeds 2000 iterations')
        self.cut_loop(key, inv, s, None)

    def loop_key_of(self, s):
        """(function key, ordinal of this loop among all loops of the function in source order)."""
        fr = self.frames[-1]
        fn = self._enclosing_funcdef(fr)
        if fn is None:
            return (fr.qual, -1)
        ordn = self.loop_labels.get(id(fn))
        if ordn is None:
            ordn = {}
            c = 0
            for n in _walk_in_order(fn):
                if isinstance(n, (ast.For, ast.While)):
                    ordn[id(n)] = c
                    c += 1
            self.loop_labels[id(fn)] = ordn
        return (fr.qual, ordn.get(id(s), -1))

    def _enclosing_funcdef(self, fr):
        return fr.funcnode

    def s_For(self, s):
        key = self.loop_key_of(s)
        it = self.eval(s.iter)
        inv = self.invariants.get(key)
        seq = None
        if inv is not None and isinstance(it, range):
            inv = None     # concrete trip count: unroll exactly, no cut needed
        if inv is None:
            try:
                seq = self.iter_concrete(it)
            except Unsupported:
                raise Unsupported(f'for loop {key} over symbolic-length iterable needs an invariant')
            broke = False
            for item in seq:
                self.assign_target(s.target, item)
                try:
                    self.exec_block(s.body)
                except BreakSig:
                    broke = True
                    break
                except ContinueSig:
                    continue
            if not broke:
                self.exec_block(s.orelse)
            return
        self.cut_loop(key, inv, s, it)

    def cut_loop(self, key, inv, s, it):
        from . import loops
        loops.cut_loop(self, key, inv, s, it)


class _OpaqueModuleAttrs(dict):
    """unmodelled module imported inside a function: its functions return an unspecified string (hostnames, dates, ...)"""
    def __init__(self, name):
        super().__init__()
        self.name = name

    def __contains__(self, name):
        return True

    def __getitem__(self, name):
        return Builtin(lambda I, *a, **k: '<unspecified>', f'{self.name}.{name}')


class _RepoModuleAttrs(dict):
    def __init__(self, interp, mod):
        super().__init__()
        self.interp, self.mod = interp, mod

    def __contains__(self, name):
        return name in self.mod.functions or name in self.mod.classes or name in self.mod.assigns

    def __getitem__(self, name):
        return self.interp.lookup_global(self.mod, name)


class _Iter:
    """Lazy iterables (range/enumerate/zip/reversed) that may have symbolic length."""

    def __init__(self, kind, parts):
        self.kind, self.parts = kind, parts

    def materialise(self, interp):
        if self.kind == 'range':
            a, b, st = self.parts
            if all(isinstance(x, int) for x in (a, b, st)):
                return list(range(a, b, st))
            raise Unsupported('range with symbolic bounds (needs a loop invariant)')
        if self.kind == 'enumerate':
            seq, start = self.parts
            return [(i + start, x) for i, x in enumerate(interp.iter_concrete(seq))]
        if self.kind == 'zip':
            return list(zip(*[interp.iter_concrete(p) for p in self.parts]))
        if self.kind == 'reversed':
            return list(reversed(interp.iter_concrete(self.parts[0])))
        raise Unsupported(self.kind)


def _walk_in_order(node):
    for child in ast.iter_child_nodes(node):
        yield child
        yield from _walk_in_order(child)
