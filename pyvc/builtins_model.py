"""Assumed contracts of builtins, stdlib and numpy primitives (DESIGN.md section 2.3).

Every primitive used by a verified function is listed in the evidence (`trusted_base`); the
executable twins are cross-checked against CPython/numpy by pyvc.selftest.
"""
import ast
from fractions import Fraction

import z3

from .interp import (Unsupported, PathEnd, PyRaise, Builtin, ModuleVal, ExcClass, FuncVal, ClassVal, _Iter, Interp)
from .values import (SArr, SObj, SMap, SSet, SegList, Opq, NT, make_nt_class, is_z3, is_sym, to_z3, fresh_int,
                     fresh_real, fresh_bool, fresh_name, U, NONE_U, kind_sort, kind_of_scalar, kind_leaves)

_B = {}


def reg(name=None):
    def deco(fn):
        _B[name or fn.__name__.lstrip('_').replace('b_', '', 1)] = Builtin(fn, name)
        return fn
    return deco


def builtin(name):
    if name in _B:
        return _B[name]
    if name in ('IndexError', 'KeyError', 'ValueError', 'TypeError', 'AttributeError', 'ZeroDivisionError',
                'AssertionError', 'NotImplementedError', 'RuntimeError', 'StopIteration', 'KeyboardInterrupt',
                'Exception', 'OSError', 'FileNotFoundError'):
        return ExcClass(name)
    if name == 'EMPTY_DICT':
        from .interp import EMPTY_DICT_U
        return Opq(EMPTY_DICT_U)
    if name == 'True':
        return True
    if name == 'False':
        return False
    if name == 'None':
        return None
    return None


# ------------------------------------------------------------------ builtins
@reg('super')
def _super(I):
    from .interp import SuperProxy
    fr = I.frames[-1]
    fn = fr.funcnode
    if fn is None or fr.cls is None or not fn.args.args:
        raise Unsupported('super() outside a method')
    return SuperProxy(fr.locals[fn.args.args[0].arg], fr.cls)


@reg('len')
def _len(I, x):
    I.trusted.add('len')
    return I.length(x)


@reg('range')
def _range(I, a, b=None, st=1):
    if b is None:
        a, b = 0, a
    a, b, st = I._num(a), I._num(b), I._num(st)
    if all(isinstance(x, int) for x in (a, b, st)):
        return range(a, b, st)
    return _Iter('range', (a, b, st))


@reg('enumerate')
def _enumerate(I, seq, start=0):
    return _Iter('enumerate', (seq, start))


@reg('zip')
def _zip(I, *seqs):
    return _Iter('zip', seqs)


@reg('reversed')
def _reversed(I, seq):
    return _Iter('reversed', (seq,))


@reg('iter')
def _iter(I, x):
    return x


def range_to_arr(I, it):
    """list(range(a, b, +-1)) with symbolic bounds: defined pointwise"""
    a, b, st = it.parts
    if st not in (1, -1):
        raise Unsupported('symbolic range with step other than +1/-1')
    n = to_z3(I.binop(ast.Sub(), b, a) if st == 1 else I.binop(ast.Sub(), a, b))
    n = z3.simplify(z3.If(n < 0, 0, n))
    k = z3.Int('k!rg')
    return SArr(n, [z3.Lambda([k], to_z3(a) + st * k)], 'int', False)


def seg_to_arr(I, s):
    """a segmented list (items * count + ...) as a pointwise-defined list (elements: bool/int or fixed-size lists of them)"""
    segs = s.segs if isinstance(s, SegList) else [(list(s), 1)]
    first = next((items[0] for items, _ in segs if items), None)
    if first is None:
        raise Unsupported('empty segmented list')
    tup = isinstance(first, (list, tuple))
    width = len(first) if tup else 1
    k = z3.Int('k!sg')
    exprs = [None] * width
    off = z3.IntVal(0)
    total = z3.IntVal(0)
    pieces = []
    for items, c in segs:
        ln = to_z3(I.binop(ast.Mult(), len(items), c))
        pieces.append((off, ln, items))
        off = off + ln
    total = z3.simplify(off)
    kind1 = None
    for w in range(width):
        e = None
        for off_i, ln, items in reversed(pieces):
            # element inside this piece: items[(k - off) mod len(items)]
            inner = None
            for j in range(len(items) - 1, -1, -1):
                v = items[j][w] if tup else items[j]
                zv = to_z3(v)
                kind1 = kind_of_scalar(v)
                inner = zv if inner is None else z3.If((k - off_i) % len(items) == j, zv, inner)
            e = inner if e is None else z3.If(k < off_i + ln, inner, e)
        exprs[w] = e
    kind = ('tuple', [kind1] * width, None) if tup else kind1
    return SArr(total, [z3.Lambda([k], e) for e in exprs], kind, False)


@reg('list')
def _list(I, x=None):
    if x is None:
        return []
    if isinstance(x, _Iter) and x.kind == 'range' and not all(isinstance(p, int) for p in x.parts):
        return range_to_arr(I, x)
    if isinstance(x, SArr):
        r = x.copy()
        r.np = False
        return r
    if isinstance(x, SegList):
        return SegList(x.segs)
    return list(I.iter_concrete(x))


@reg('tuple')
def _tuple(I, x=()):
    return tuple(I.iter_concrete(x))


@reg('set')
def _set(I, x=()):
    items = I.iter_concrete(x)
    if any(is_sym(i) for i in items):
        # symbolic keys: build a symbolic set
        s = SSet.empty(kind_of_scalar(items[0]))
        for i in items:
            s.mem = z3.Store(s.mem, to_z3(i), z3.BoolVal(True))
        return s
    return set(items)


@reg('frozenset')
def _frozenset(I, x=()):
    return frozenset(I.iter_concrete(x))


@reg('dict')
def _dict(I, x=None, **kw):
    d = {}
    if x is not None:
        if isinstance(x, dict):
            d.update(x)
        else:
            for k, v in I.iter_concrete(x):
                d[k] = v
    d.update(kw)
    return d


@reg('int')
def _int(I, x=0):
    x = I._num(x)
    if isinstance(x, int):
        return x
    if isinstance(x, Fraction):
        return int(x)
    if is_z3(x) and x.sort() == z3.IntSort():
        return x
    if is_z3(x) and x.sort() == z3.RealSort():
        # truncation towards zero
        return z3.If(x >= 0, z3.ToInt(x), -z3.ToInt(-x))
    if x is None:
        raise PyRaise('TypeError')
    raise Unsupported('int() of ' + type(x).__name__)


@reg('float')
def _float(I, x=0):
    x = I._num(x)
    if isinstance(x, (int, Fraction)):
        return Fraction(x)
    if is_z3(x):
        return to_z3(x, z3.RealSort())
    raise Unsupported('float()')


@reg('bool')
def _bool(I, x=False):
    return I.truthy(x)


@reg('str')
def _str(I, x=''):
    if isinstance(x, str):
        return x
    if is_sym(x):
        return '<str>'
    return str(x)


@reg('setattr')
def _setattr(I, x, name, val):
    if not isinstance(name, str):
        raise Unsupported('setattr with a symbolic attribute name')
    I.setattr(x, name, val)


@reg('delattr')
def _delattr(I, x, name):
    from .values import SObj
    if not isinstance(name, str) or not isinstance(x, SObj):
        raise Unsupported('delattr with a symbolic attribute name / on a non-object')
    if name not in x.attrs:
        raise PyRaise('AttributeError')
    del x.attrs[name]


@reg('slice')
def _slice(I, *args):
    return slice(*args)


@reg('repr')
def _repr(I, x):
    return '<repr>'


@reg('c_mod')
def _c_mod(I, a, b):
    """C remainder (sign of the dividend): what `%` means under Cython's cdivision(True)"""
    a, b = I._num(a), I._num(b)
    if isinstance(a, int) and isinstance(b, int):
        if b == 0:
            raise PyRaise('ZeroDivisionError')
        return abs(a) % abs(b) * (1 if a >= 0 else -1)
    za, zb = to_z3(a), to_z3(b)
    if not I.spec_mode and I.branch(zb == 0):
        raise PyRaise('ZeroDivisionError')     # undefined behaviour in C
    ab = z3.If(zb < 0, -zb, zb)
    return z3.If(za >= 0, za % ab, -((-za) % ab))


def _c_mod_term(za, zb):
    ab = z3.If(zb < 0, -zb, zb)
    return z3.If(za >= 0, za % ab, -((-za) % ab))


@reg('cmod_python')
def _cmod_python(I, a, m):
    """PROVED lemma (not assumed): for m >= 1, C's remainder corrected by `if q < 0: q += m` is Python's a % m.
    The closed statement over fresh variables is added as an obligation without path condition (nonlinear integer
    arithmetic: discharged by cvc5); the instance for (a, m) is returned for use on the current path."""
    from .interp import Obligation
    def stmt(x, y):
        cm = _c_mod_term(x, y)
        return z3.Implies(y >= 1, z3.If(cm < 0, cm + y, cm) == Interp.pymod(x, y))
    x, y = z3.Int('lemma!a'), z3.Int('lemma!m')
    I.n_oblig += 1
    I.obligs.append(Obligation(f'{I.qual}#lemma:cmod_python', [], stmt(x, y), 'lemma',
                               {'clause': 'forall a, m >= 1: (c_mod(a, m) + m if c_mod(a, m) < 0 else c_mod(a, m)) == a % m', 'prefer': 'cvc5'}))
    return stmt(to_z3(a), to_z3(m))


@reg('mod_shift')
def _mod_shift(I, i0, L):
    """PROVED lemma for the uninterpreted pymod (opt-in `uninterpreted_mod`): shifting by s = (i0 % L) - i0, a multiple of L,
    does not change the residue:  for all b, c with b - c == s:  pymod(b, L) == pymod(c, L)   (L >= 1).
    The closed statement - with the defining property of pymod/pyfloordiv for the three terms involved as hypotheses - is an
    obligation of this run (QF_NIA + UF, cvc5); the quantified instance for (i0, L) is returned, triggered only on pairs of
    existing terms pymod(b, L), pymod(c, L)."""
    from .interp import Obligation
    M, D = Interp.MODU, Interp.DIVU
    x, y, b0, c0 = z3.Int('lemma!i0'), z3.Int('lemma!L'), z3.Int('lemma!b'), z3.Int('lemma!c')
    # hint for the nonlinear step: d := qb - qc + qx and the ring identity y*d == y*qb - y*qc + y*qx (itself an obligation)
    d = z3.Int('lemma!d')
    ring = y * (D(b0, y) - D(c0, y) + D(x, y)) == y * D(b0, y) - y * D(c0, y) + y * D(x, y)
    closed = z3.Implies(z3.And(y >= 1, Interp.umod_def(x, y), Interp.umod_def(b0, y), Interp.umod_def(c0, y), b0 - c0 == M(x, y) - x,
                               d == D(b0, y) - D(c0, y) + D(x, y), y * d == y * D(b0, y) - y * D(c0, y) + y * D(x, y)),
                        M(b0, y) == M(c0, y))
    I.n_oblig += 2
    I.obligs.append(Obligation(f'{I.qual}#lemma:mod_shift-ring-identity', [], ring, 'lemma', {'clause': 'y*(p - q + r) == y*p - y*q + y*r'}))
    I.obligs.append(Obligation(f'{I.qual}#lemma:mod_shift', [], closed, 'lemma',
                               {'clause': 'L >= 1 and b - c == (i0 % L) - i0  ==>  b % L == c % L', 'prefer': 'cvc5'}))
    zi, zl = to_z3(i0), to_z3(L)
    b, c = z3.Int('b!ms'), z3.Int('c!ms')
    s = M(zi, zl) - zi
    return z3.ForAll([b, c], z3.Implies(z3.And(zl >= 1, b - c == s), M(b, zl) == M(c, zl)),
                     patterns=[z3.MultiPattern(M(b, zl), M(c, zl))])


@reg('mod_small')
def _mod_small(I, a, L):
    """PROVED lemma for the uninterpreted pymod: 0 <= a < L  ==>  a % L == a  (closed statement: obligation of this run)."""
    from .interp import Obligation
    M = Interp.MODU
    x, y = z3.Int('lemma!a'), z3.Int('lemma!L')
    I.n_oblig += 1
    I.obligs.append(Obligation(f'{I.qual}#lemma:mod_small', [], z3.Implies(z3.And(0 <= x, x < y, Interp.umod_def(x, y)), M(x, y) == x),
                               'lemma', {'clause': '0 <= a < L ==> a % L == a', 'prefer': 'cvc5'}))
    za, zl = to_z3(a), to_z3(L)
    return z3.Implies(z3.And(0 <= za, za < zl), M(za, zl) == za)


@reg('mod_qr')
def _mod_qr(I, a, q, r, L):
    """PROVED lemma for the uninterpreted pymod / pyfloordiv (uniqueness of division with remainder):
    L >= 1 and a == q*L + r and 0 <= r < L  ==>  a % L == r and a // L == q.
    Closed statement = obligation of this run (QF_UFNIA; the ring identity L*(q - d) == L*q - L*d is supplied as a hint and is
    an obligation itself); the instance for (a, q, r, L) is returned."""
    from .interp import Obligation
    M, D = Interp.MODU, Interp.DIVU
    x, y, q0, r0, k = z3.Int('lemma!a'), z3.Int('lemma!L'), z3.Int('lemma!q'), z3.Int('lemma!r'), z3.Int('lemma!k')
    ring = z3.Implies(k == q0 - D(x, y), y * k == y * q0 - y * D(x, y))
    closed = z3.Implies(z3.And(y >= 1, x == q0 * y + r0, 0 <= r0, r0 < y, Interp.umod_def(x, y),
                               k == q0 - D(x, y), y * k == y * q0 - y * D(x, y)),
                        z3.And(M(x, y) == r0, D(x, y) == q0))
    I.n_oblig += 2
    I.obligs.append(Obligation(f'{I.qual}#lemma:mod_qr-ring-identity', [], ring, 'lemma', {'clause': 'k == q - d ==> L*k == L*q - L*d'}))
    I.obligs.append(Obligation(f'{I.qual}#lemma:mod_qr', [], closed, 'lemma',
                               {'clause': 'L >= 1 and a == q*L + r and 0 <= r < L  ==>  a % L == r and a // L == q', 'prefer': 'cvc5'}))
    za, zq, zr, zl = to_z3(a), to_z3(q), to_z3(r), to_z3(L)
    return z3.Implies(z3.And(zl >= 1, za == zq * zl + zr, 0 <= zr, zr < zl), z3.And(M(za, zl) == zr, D(za, zl) == zq))


@reg('c_div')
def _c_div(I, a, b):
    """C integer division (truncation towards zero): what `//` means under Cython's cdivision(True)"""
    a, b = I._num(a), I._num(b)
    if isinstance(a, int) and isinstance(b, int):
        if b == 0:
            raise PyRaise('ZeroDivisionError')
        return abs(a) // abs(b) * (1 if (a >= 0) == (b > 0) else -1)
    za, zb = to_z3(a), to_z3(b)
    if not I.spec_mode and I.branch(zb == 0):
        raise PyRaise('ZeroDivisionError')
    aa, ab = z3.If(za < 0, -za, za), z3.If(zb < 0, -zb, zb)
    return z3.If((za >= 0) == (zb > 0), aa / ab, -(aa / ab))


@reg('_cstruct')
def _cstruct(I):
    """a C struct local of an extracted .pyx function: a record with assignable fields"""
    from .values import SObj
    return SObj('cstruct', None, {})


@reg('abs')
def _abs(I, x):
    x = I._num(x)
    if isinstance(x, (int, Fraction)):
        return abs(x)
    if isinstance(x, SArr):
        k = z3.Int('k!ew')
        e = z3.Select(x.leaves[0], k)
        return SArr(x.n, [z3.Lambda([k], z3.If(e >= 0, e, -e))], x.kind, True)
    return z3.If(x >= 0, x, -x)


def _minmax(I, args, is_min, key=None):
    if len(args) == 1:
        args = I.iter_concrete(args[0])
    if not args:
        raise PyRaise('ValueError')
    best = args[0]
    for x in args[1:]:
        c = I.compare(ast.Lt(), x, best) if is_min else I.compare(ast.Gt(), x, best)
        if isinstance(c, bool):
            best = x if c else best
        else:
            best = I.ite(c, x, best)
    return best


@reg('min')
def _min(I, *args, **kw):
    if kw:
        raise Unsupported('min with key/default')
    return _minmax(I, args, True)


@reg('max')
def _max(I, *args, **kw):
    if kw:
        raise Unsupported('max with key/default')
    return _minmax(I, args, False)


@reg('sum')
def _sum(I, x, start=0):
    if isinstance(x, SArr):
        return spec_sum(I, x, 0, x.n)
    tot = start
    for v in I.iter_concrete(x):
        tot = I.binop(ast.Add(), tot, v)
    return tot


@reg('any')
def _any(I, x):
    if isinstance(x, SArr):
        return np_any(I, x)
    vals = [I.z3bool(v) for v in I.iter_concrete(x)]
    return z3.simplify(z3.Or(*vals)) if vals else False


@reg('all')
def _all(I, x):
    if isinstance(x, SArr):
        return np_all(I, x)
    vals = [I.z3bool(v) for v in I.iter_concrete(x)]
    return z3.simplify(z3.And(*vals)) if vals else True


@reg('divmod')
def _divmod(I, a, b):
    return (I.binop(ast.FloorDiv(), a, b), I.binop(ast.Mod(), a, b))


@reg('isinstance')
def _isinstance(I, x, t):
    ts = t if isinstance(t, tuple) else (t,)
    for tt in ts:
        r = _isinst1(I, x, tt)
        if r:
            return True
    return False


def _isinst1(I, x, t):
    name = t.name if isinstance(t, (Builtin, ClassVal, ExcClass)) else getattr(t, '__name__', repr(t))
    if isinstance(t, ClassVal):
        if isinstance(x, SObj) and x.mod is not None:
            from . import source
            return any(cd.name == t.name for _, cd in source.mro(x.mod, x.cls))
        return False
    if name in ('int', 'integer', 'Integral'):
        return (isinstance(x, int) and not isinstance(x, bool)) or (is_z3(x) and x.sort() == z3.IntSort()) \
            or (name == 'int' and isinstance(x, bool))
    if name in ('float', 'floating'):
        return isinstance(x, (Fraction, float)) or (is_z3(x) and x.sort() == z3.RealSort())
    if name == 'bool':
        return isinstance(x, bool) or (is_z3(x) and x.sort() == z3.BoolSort())
    if name == 'str':
        return isinstance(x, str)
    if name == 'tuple':
        return isinstance(x, tuple)
    if name == 'list':
        return isinstance(x, (list, SegList)) or (isinstance(x, SArr) and not x.np)
    if name == 'dict':
        return isinstance(x, (dict, SMap))
    if name == 'set':
        return isinstance(x, (set, SSet))
    if name == 'ndarray':
        return isinstance(x, SArr) and x.np
    if name == 'slice':
        return isinstance(x, slice)
    if name == 'type(None)':
        return x is None
    raise Unsupported(f'isinstance(_, {name})')


@reg('type')
def _type(I, x):
    if isinstance(x, SObj):
        from . import source
        return ClassVal(*source.find_class(x.mod, x.cls))
    raise Unsupported('type()')


@reg('hasattr')
def _hasattr(I, x, name):
    if isinstance(x, SObj):
        if name in x.attrs:
            return True
        return I.find_method_obj(x, name) is not None
    raise Unsupported('hasattr on ' + type(x).__name__)


@reg('getattr')
def _getattr(I, x, name, *default):
    try:
        return I.getattr(x, name)
    except PyRaise as e:
        if e.cls == 'AttributeError' and default:
            return default[0]
        raise


@reg('sorted')
def _sorted(I, x, key=None, reverse=False):
    """Assumed contract of sorted(): stable, ascending in key."""
    I.trusted.add('sorted(key=...): stable ascending permutation')
    if isinstance(x, SArr):
        return sorted_sym(I, x, key, reverse)
    items = I.iter_concrete(x)
    keys = [I.call(key, [it], {}) if key is not None else it for it in items]
    if all(not is_sym(k) for k in keys):
        order = sorted(range(len(items)), key=lambda i: keys[i], reverse=bool(reverse))
        return [items[i] for i in order]
    raise Unsupported('sorted() of concrete-length list with symbolic keys')


def sorted_sym(I, x, key, reverse):
    """sorted() on a symbolic-length list: result is a fresh list related to the input by a
    permutation `p` (bijection on [0,n)), keys non-decreasing, equal keys keep their order (stability)."""
    if reverse is not False:
        raise Unsupported('sorted(reverse=...) on symbolic list')
    n = to_z3(x.n)
    res = SArr.fresh(x.kind, 'sorted')
    res.n = x.n
    p = z3.Function(fresh_name('perm'), z3.IntSort(), z3.IntSort())      # result index -> source index
    pinv = z3.Function(fresh_name('perminv'), z3.IntSort(), z3.IntSort())
    i, j = z3.Ints('i!s j!s')
    rng = lambda v: z3.And(0 <= v, v < n)
    I.assume(z3.ForAll([i], z3.Implies(rng(i), z3.And(rng(p(i)), pinv(p(i)) == i)), patterns=[p(i)]))
    I.assume(z3.ForAll([i], z3.Implies(rng(i), z3.And(rng(pinv(i)), p(pinv(i)) == i)), patterns=[pinv(i)]))
    for lr, lx in zip(res.leaves, x.leaves):
        I.assume(z3.ForAll([i], z3.Implies(rng(i), z3.Select(lr, i) == z3.Select(lx, p(i))),
                           patterns=[z3.Select(lr, i)]))

    def keyat(arr, idx):
        el = I.unflat_elem([z3.Select(l, idx) for l in arr.leaves], arr.kind)
        if key is None:
            return el
        I.spec_mode += 1
        try:
            return I.call(key, [el], {})
        finally:
            I.spec_mode -= 1
    ki, kj = to_z3(I._num(keyat(res, i))), to_z3(I._num(keyat(res, j)))
    I.assume(z3.ForAll([i, j], z3.Implies(z3.And(rng(i), rng(j), i < j),
                                         z3.And(ki <= kj, z3.Implies(ki == kj, p(i) < p(j))))))
    I.ghost.setdefault('sorted_perms', []).append((x, res, p, pinv))
    return res


# ------------------------------------------------------------------ specification helpers
@reg('forall')
def _forall(I, lo, hi, body):
    """forall(lo, hi, lambda k: phi)  ==  for all integers lo <= k < hi: phi"""
    k = z3.Int(fresh_name('q'))
    I.spec_mode += 1
    try:
        phi = I.z3bool(I.call(body, [k], {}))
    finally:
        I.spec_mode -= 1
    return z3.ForAll([k], z3.Implies(z3.And(to_z3(lo) <= k, k < to_z3(hi)), phi))


@reg('forall2')
def _forall2(I, lo, hi, body):
    """forall2(lo, hi, lambda j, k: phi): for all lo <= j < hi and lo <= k < hi."""
    j, k = z3.Int(fresh_name('q')), z3.Int(fresh_name('q'))
    I.spec_mode += 1
    try:
        phi = I.z3bool(I.call(body, [j, k], {}))
    finally:
        I.spec_mode -= 1
    lo, hi = to_z3(lo), to_z3(hi)
    return z3.ForAll([j, k], z3.Implies(z3.And(lo <= j, j < hi, lo <= k, k < hi), phi))


@reg('exists')
def _exists(I, lo, hi, body):
    k = z3.Int(fresh_name('q'))
    I.spec_mode += 1
    try:
        phi = I.z3bool(I.call(body, [k], {}))
    finally:
        I.spec_mode -= 1
    return z3.Exists([k], z3.And(to_z3(lo) <= k, k < to_z3(hi), phi))


@reg('forall_U')
def _forall_U(I, body):
    k = z3.Const(fresh_name('qu'), U)
    I.spec_mode += 1
    try:
        phi = I.z3bool(I.call(body, [Opq(k)], {}))
    finally:
        I.spec_mode -= 1
    return z3.ForAll([k], phi)


@reg('implies')
def _implies(I, a, b):
    return z3.Implies(I.z3bool(a), I.z3bool(b))


@reg('iff')
def _iff(I, a, b):
    return I.z3bool(a) == I.z3bool(b)


@reg('ite')
def _ite(I, c, a, b):
    return I.ite(I.z3bool(c), a, b)


_OPVAL = {}


def _opval_fn():
    if 'f' not in _OPVAL:
        A = lambda srt: z3.ArraySort(z3.IntSort(), srt)
        _OPVAL['f'] = z3.Function('opval', A(U), A(z3.IntSort()), A(z3.BoolSort()), z3.IntSort(), U)
        _OPVAL['neg'] = z3.Function('opneg', U, U)
    return _OPVAL['f'], _OPVAL['neg']


@reg('opval')
def _opval(I, arr):
    """value of the operator product  op_0(site_0) op_1(site_1) ...  in the Z2-graded operator algebra (uninterpreted);
    `arr` is a list of (op, site, needs_JW)."""
    f, _ = _opval_fn()
    return Opq(f(arr.leaves[0], arr.leaves[1], arr.leaves[2], to_z3(arr.n)))


@reg('opsigned')
def _opsigned(I, sign, v):
    _, neg = _opval_fn()
    return Opq(z3.If(to_z3(sign) == 1, v.t, neg(v.t)))


@reg('swap_val')
def _swap_val(I, pre, post, s):
    """defining relation of the graded algebra, one instance: if `post` is `pre` with the neighbouring factors s, s+1
    exchanged and they act on different sites, then val(post) = (-1)^(jw_s * jw_{s+1}) val(pre);  neg is an involution."""
    f, neg = _opval_fn()
    zs = to_z3(s)
    swapped = [z3.Store(z3.Store(l, zs, z3.Select(l, zs + 1)), zs + 1, z3.Select(l, zs)) for l in pre.leaves]
    is_swap = z3.And(*[a == b for a, b in zip(post.leaves, swapped)], to_z3(post.n) == to_z3(pre.n), 0 <= zs, zs + 1 < to_z3(pre.n))
    vpre = f(pre.leaves[0], pre.leaves[1], pre.leaves[2], to_z3(pre.n))
    vpost = f(post.leaves[0], post.leaves[1], post.leaves[2], to_z3(post.n))
    both = z3.And(z3.Select(pre.leaves[2], zs), z3.Select(pre.leaves[2], zs + 1))
    diff_sites = z3.Select(pre.leaves[1], zs) != z3.Select(pre.leaves[1], zs + 1)
    return z3.And(z3.Implies(z3.And(is_swap, diff_sites), vpost == z3.If(both, neg(vpre), vpre)),
                  neg(neg(vpre)) == vpre, neg(neg(vpost)) == vpost)


@reg('sum_unfold')
def _sum_unfold(I, arr, lo, hi):
    """definitional unfolding of the specification sum at its upper end:
    hi <= lo -> sum == 0;  hi > lo -> sum(arr,lo,hi) == sum(arr,lo,hi-1) + arr[hi-1]"""
    if isinstance(arr, list):
        arr = I.list_to_arr(arr)
    f = sum_fn(arr.kind)
    a = arr.leaves[0]
    lo, hi = to_z3(lo), to_z3(hi)
    zero = to_z3(0, kind_sort(arr.kind))
    return z3.And(z3.Implies(hi <= lo, f(a, lo, hi) == zero),
                  z3.Implies(hi > lo, f(a, lo, hi) == f(a, lo, hi - 1) + z3.Select(a, hi - 1)))


@reg('sum_mono')
def _sum_mono(I, arr, lo, mid, hi):
    """PROVED lemma (induction on hi, both cases are obligations of this run, over fresh symbols and with the defining
    unfolding of the specification sum as only hypothesis):
        lo <= mid <= hi  and  arr[k] >= 0 for mid <= k < hi   ==>   sum(arr, lo, mid) <= sum(arr, lo, hi)"""
    from .interp import Obligation
    if isinstance(arr, list):
        arr = I.list_to_arr(arr)
    f = sum_fn(arr.kind)
    srt = kind_sort(arr.kind)
    zero = to_z3(0, srt)

    def nonneg(a, m, h):
        k = z3.Int('k!mono')
        return z3.ForAll([k], z3.Implies(z3.And(m <= k, k < h), z3.Select(a, k) >= zero))

    def P(a, l, m, h):
        return z3.Implies(z3.And(l <= m, m <= h, nonneg(a, m, h)), f(a, l, m) <= f(a, l, h))
    a = z3.Const('lemma!arr', z3.ArraySort(z3.IntSort(), srt))
    l, m, h = z3.Int('lemma!lo'), z3.Int('lemma!mid'), z3.Int('lemma!hi')
    unfold = z3.Implies(h + 1 > l, f(a, l, h + 1) == f(a, l, h) + z3.Select(a, h))      # definition of the sum at h + 1
    I.n_oblig += 2
    I.obligs.append(Obligation(f'{I.qual}#lemma:sum_mono-base', [], P(a, l, m, m), 'lemma',
                               {'clause': 'sum(a, lo, mid) <= sum(a, lo, mid)'}))
    I.obligs.append(Obligation(f'{I.qual}#lemma:sum_mono-step', [], z3.Implies(z3.And(m <= h, unfold, P(a, l, m, h)), P(a, l, m, h + 1)),
                               'lemma', {'clause': 'induction step hi -> hi + 1 of: nonnegative entries on [mid, hi) => sum(a, lo, mid) <= sum(a, lo, hi)'}))
    return P(arr.leaves[0], to_z3(lo), to_z3(mid), to_z3(hi))


@reg('sorted_perm_identity')
def _sorted_perm_identity(I, arr):
    """PROVED lemma (two inductions, four obligations of this run over a fresh array): a strictly ascending integer array of
    length n with all values in [0, n) is the identity:  a[k] == k.   (a[k] >= k upwards from a[0] >= 0, a[k] <= k downwards
    from a[n-1] <= n-1.)"""
    from .interp import Obligation
    if isinstance(arr, list):
        arr = I.list_to_arr(arr)
    a = z3.Array('lemma!perm', z3.IntSort(), z3.IntSort())
    n, k = z3.Int('lemma!n'), z3.Int('lemma!k')
    asc = lambda x, m, j: z3.Implies(z3.And(0 <= j, j + 1 < m), z3.Select(x, j) < z3.Select(x, j + 1))   # adjacent form at j
    obs = [('lower-base', z3.Implies(z3.And(n >= 1, z3.Select(a, 0) >= 0), z3.Select(a, 0) >= 0)),
           ('lower-step', z3.Implies(z3.And(0 <= k, k + 1 < n, asc(a, n, k), z3.Select(a, k) >= k), z3.Select(a, k + 1) >= k + 1)),
           ('upper-base', z3.Implies(z3.And(n >= 1, z3.Select(a, n - 1) < n), z3.Select(a, n - 1) <= n - 1)),
           ('upper-step', z3.Implies(z3.And(0 <= k, k + 1 < n, asc(a, n, k), z3.Select(a, k + 1) <= k + 1), z3.Select(a, k) <= k))]
    for nm, g in obs:
        I.n_oblig += 1
        I.obligs.append(Obligation(f'{I.qual}#lemma:sorted_perm_identity-{nm}', [], g, 'lemma', {'clause': nm}))
    x, m = arr.leaves[0], to_z3(arr.n)
    j = z3.Int('j!spi')
    hyp = z3.And(z3.ForAll([j], z3.Implies(z3.And(0 <= j, j + 1 < m), z3.Select(x, j) < z3.Select(x, j + 1))),
                 z3.ForAll([j], z3.Implies(z3.And(0 <= j, j < m), z3.And(0 <= z3.Select(x, j), z3.Select(x, j) < m))))
    return z3.Implies(hyp, z3.ForAll([j], z3.Implies(z3.And(0 <= j, j < m), z3.Select(x, j) == j)))


@reg('seg_weight')
def _seg_weight(I, ST, d, parity):
    """sum of d[j] over the entries (j, k) of the schedule ST with k == parity; for a segmented list
    (items * count + ...) this is  sum_i count_i * (sum over items_i)  [lemma: sum(xs * n) = n * sum(xs)]."""
    I.trusted.add('lemma sum(xs * n) == n * sum(xs) for list repetition (built into seg_weight)')
    segs = ST.segs if isinstance(ST, SegList) else [(list(ST), 1)]
    tot = 0
    for items, c in segs:
        w = 0
        for (j, k) in items:
            if k == parity:
                w = I.binop(ast.Add(), w, I.getitem(d, j))
        if is_z3(w):
            w = z3.simplify(w)
            if z3.is_rational_value(w):
                w = Fraction(w.numerator_as_long(), w.denominator_as_long())
        tot = I.binop(ast.Add(), tot, I.binop(ast.Mult(), c, w))
    return tot


@reg('seg_all')
def _seg_all(I, ST, pred):
    """pred holds for every entry of a (segmented) list."""
    segs = ST.segs if isinstance(ST, SegList) else [(list(ST), 1)]
    out = []
    for items, c in segs:
        for it in items:
            out.append(I.z3bool(I.call(pred, [it], {})))
    return z3.And(*out) if out else True


@reg('apply')
def _apply(I, f, pack):
    from .interp import APPLY
    return Opq(APPLY(to_z3(f, U), to_z3(pack, U)))


@reg('is_none')
def _is_none(I, x):
    return I.equals(x, None)


_SUMF = {}


def sum_fn(sortname):
    """sum_<sort>(arr, lo, hi): uninterpreted; unfolded by explicit lemma instances only (DESIGN 2.5)."""
    if sortname not in _SUMF:
        s = z3.IntSort() if sortname == 'int' else z3.RealSort()
        _SUMF[sortname] = z3.Function(f'sum_{sortname}', z3.ArraySort(z3.IntSort(), s), z3.IntSort(), z3.IntSort(), s)
    return _SUMF[sortname]


def spec_sum(I, arr, lo, hi):
    kind = arr.kind if arr.kind in ('int', 'real') else None
    if kind is None:
        if arr.kind == 'bool':
            raise Unsupported('sum of bool array')
        raise Unsupported('sum of non-numeric array')
    return sum_fn(kind)(arr.leaves[0], to_z3(lo), to_z3(hi))


@reg('ssum')
def _ssum(I, arr, lo, hi):
    """Specification sum over arr[lo:hi] (requires a `use sum_*` lemma instance to be unfolded)."""
    if isinstance(arr, list):
        arr = I.list_to_arr(arr)
    return spec_sum(I, arr, lo, hi)


# ------------------------------------------------------------------ methods of python values
def list_extend(I, lst, other):
    if isinstance(lst, list):
        if isinstance(other, SArr):
            raise Unsupported('extend concrete list by symbolic list')
        lst.extend(I.iter_concrete(other))
        return
    if isinstance(lst, SArr):
        o = other if isinstance(other, SArr) else I.list_to_arr(list(I.iter_concrete(other)), lst.kind)
        r = I.arr_concat(lst, o)
        lst.n, lst.leaves = r.n, r.leaves
        return
    raise Unsupported('extend')


def method_of(I, obj, name):
    def mk(fn):
        return Builtin(lambda I_, *a, **k: fn(*a, **k), f'{type(obj).__name__}.{name}')
    if isinstance(obj, list):
        if name == 'append':
            return mk(lambda v: obj.append(v))
        if name == 'extend':
            return mk(lambda o: list_extend(I, obj, o))
        if name == 'pop':
            def pop(i=-1):
                i = I._num(i)
                if not isinstance(i, int):
                    raise Unsupported('pop with symbolic index')
                try:
                    return obj.pop(i)
                except IndexError:
                    raise PyRaise('IndexError')
            return mk(pop)
        if name == 'insert':
            def insert(i, v):
                if not isinstance(i, int):
                    raise Unsupported('insert at symbolic index')
                obj.insert(i, v)
            return mk(insert)
        if name == 'copy':
            return mk(lambda: list(obj))
        if name == 'index':
            def index(v):
                for i, x in enumerate(obj):
                    if I.branch(I.equals(x, v)):
                        return i
                raise PyRaise('ValueError')
            return mk(index)
        if name == 'count':
            def count(v):
                tot = 0
                for x in obj:
                    tot = I.binop(ast.Add(), tot, I.ite(I.z3bool(I.equals(x, v)), 1, 0))
                return tot
            return mk(count)
        if name == 'reverse':
            return mk(lambda: obj.reverse())
        if name == 'clear':
            return mk(lambda: obj.clear())
        if name == 'remove':
            def remove(v):
                for i, x in enumerate(obj):
                    if I.branch(I.equals(x, v)):
                        del obj[i]
                        return
                raise PyRaise('ValueError')
            return mk(remove)
    if isinstance(obj, tuple):
        if name == 'index':
            return method_of(I, list(obj), 'index')
        if name == 'count':
            return method_of(I, list(obj), 'count')
    if isinstance(obj, SArr):
        if name == 'append' and not obj.np:
            def append(v):
                fl = I.flat_elem(v, obj.kind)
                obj.leaves = [z3.Store(l, to_z3(obj.n), e) for l, e in zip(obj.leaves, fl)]
                obj.n = I.binop(ast.Add(), obj.n, 1)
            return mk(append)
        if name == 'push_back' and not obj.np:
            # assumed contract of C++ std::vector<T>::push_back: appends a *copy* of the struct
            def push_back(v):
                if isinstance(v, SObj) and v.cls == 'cstruct':
                    v = tuple(v.attrs[k] for k in ('first', 'second') if k in v.attrs) if 'first' in v.attrs else tuple(v.attrs.values())
                return method_of(I, obj, 'append').fn(I, v)
            return mk(push_back)
        if name == 'pop' and not obj.np:
            def pop(i=-1):
                v = I.arr_getitem(obj, i)
                I.delitem(obj, i)
                return v
            return mk(pop)
        if name == 'copy':
            def cp():
                r = obj.copy()
                return r
            return mk(cp)
        if name == 'extend':
            return mk(lambda o: list_extend(I, obj, o))
        if obj.np:
            m = np_method(I, obj, name)
            if m is not None:
                return m
    if isinstance(obj, dict):
        if name == 'get':
            def get(k, d=None):
                if is_sym(k):
                    for kk in obj:
                        if I.branch(I.equals(kk, k)):
                            return obj[kk]
                    return d
                return obj.get(k, d)
            return mk(get)
        if name == 'keys':
            return mk(lambda: list(obj.keys()))
        if name == 'values':
            return mk(lambda: list(obj.values()))
        if name == 'items':
            return mk(lambda: list(obj.items()))
        if name == 'setdefault':
            def setdefault(k, d=None):
                if is_sym(k):
                    raise Unsupported('symbolic key in setdefault')
                return obj.setdefault(k, d)
            return mk(setdefault)
        if name == 'pop':
            def pop(k, *d):
                if is_sym(k):
                    raise Unsupported('symbolic key in dict.pop')
                if k in obj:
                    return obj.pop(k)
                if d:
                    return d[0]
                raise PyRaise('KeyError')
            return mk(pop)
        if name == 'update':
            return mk(lambda o=(), **kw: obj.update(o, **kw))
        if name == 'copy':
            return mk(lambda: dict(obj))
        if name == 'clear':
            return mk(lambda: obj.clear())
    if isinstance(obj, SMap):
        ks = kind_sort(obj.kkind)
        if name == 'keys':
            return mk(lambda: map_keys_list(I, obj))
        if name == 'get':
            def get(k, d=None):
                kz = to_z3(k, ks)
                if I.branch(z3.Select(obj.dom, kz)):
                    return I.unflat_elem([z3.Select(obj.val, kz)], obj.vkind)
                return d
            return mk(get)
        if name == 'clear':
            def clear():
                obj.dom = z3.K(ks, z3.BoolVal(False))
            return mk(clear)
        if name == 'pop':
            def pop(k, *d):
                kz = to_z3(k, ks)
                if I.branch(z3.Select(obj.dom, kz)):
                    v = I.unflat_elem([z3.Select(obj.val, kz)], obj.vkind)
                    obj.dom = z3.Store(obj.dom, kz, z3.BoolVal(False))
                    return v
                if d:
                    return d[0]
                raise PyRaise('KeyError')
            return mk(pop)
    if isinstance(obj, (set,)):
        if name == 'add':
            def add(k):
                if is_sym(k):
                    raise Unsupported('symbolic element into concrete set')
                obj.add(k)
            return mk(add)
        if name == 'discard':
            return mk(lambda k: obj.discard(k))
        if name == 'remove':
            def remove(k):
                if k not in obj:
                    raise PyRaise('KeyError')
                obj.remove(k)
            return mk(remove)
        if name == 'copy':
            return mk(lambda: set(obj))
    if isinstance(obj, SSet):
        ks = kind_sort(obj.kkind)
        if name == 'add':
            def add(k):
                obj.mem = z3.Store(obj.mem, to_z3(k, ks), z3.BoolVal(True))
            return mk(add)
        if name == 'discard':
            def discard(k):
                obj.mem = z3.Store(obj.mem, to_z3(k, ks), z3.BoolVal(False))
            return mk(discard)
        if name == 'remove':
            def remove(k):
                kz = to_z3(k, ks)
                if not I.branch(z3.Select(obj.mem, kz)):
                    raise PyRaise('KeyError')
                obj.mem = z3.Store(obj.mem, kz, z3.BoolVal(False))
            return mk(remove)
        if name == 'copy':
            return mk(lambda: SSet(obj.mem, obj.kkind))
        if name == 'clear':
            def clear():
                obj.mem = z3.K(ks, z3.BoolVal(False))
            return mk(clear)
    if isinstance(obj, str):
        if name in ('startswith', 'endswith', 'split', 'join', 'lower', 'upper', 'strip', 'replace', 'format',
                    'find', 'rfind', 'count', 'isdigit', 'lstrip', 'rstrip'):
            def strm(*a, **k):
                if any(is_sym(x) for x in a):
                    raise Unsupported('string method with symbolic argument')
                return getattr(obj, name)(*a, **k)
            return mk(strm)
    if isinstance(obj, SegList):
        if name == 'copy':
            return mk(lambda: SegList(obj.segs))
    if isinstance(obj, (int, Fraction)) or is_z3(obj):
        if name == 'conjugate' or name == 'conj':
            return mk(lambda: obj)
        if name == 'real':
            return obj
        if name == 'imag':
            return 0
    return None


def map_keys_list(I, m):
    """list(d.keys()) of a symbolic dict: a duplicate-free list enumerating exactly the key set
    (assumed contract of dict iteration; the order is unspecified)."""
    I.trusted.add('dict.keys(): duplicate-free enumeration of exactly the key set, order unspecified')
    ks = SArr.fresh(m.kkind, 'keys')
    I.assume(ks.n >= 0)
    n = ks.n
    arr = ks.leaves[0]
    j, k = z3.Int(fresh_name('q')), z3.Int(fresh_name('q'))
    x = z3.Const(fresh_name('qx'), kind_sort(m.kkind))
    idx = z3.Function(fresh_name('keyidx'), kind_sort(m.kkind), z3.IntSort())
    I.assume(z3.ForAll([j], z3.Implies(z3.And(0 <= j, j < n), z3.And(z3.Select(m.dom, z3.Select(arr, j)),
                                                                    idx(z3.Select(arr, j)) == j))))
    I.assume(z3.ForAll([x], z3.Implies(z3.Select(m.dom, x), z3.And(0 <= idx(x), idx(x) < n, z3.Select(arr, idx(x)) == x))))
    return ks


# ------------------------------------------------------------------ numpy model
def np_any(I, a, axis=None):
    I.trusted.add('np.any')
    if isinstance(a, (bool,)) or (is_z3(a) and not isinstance(a, SArr)):
        return I.truthy(a)
    if isinstance(a, list):
        return _any(I, a)
    k = z3.Int(fresh_name('q'))
    e = z3.Select(a.leaves[0], k)
    t = e if a.kind == 'bool' else e != 0
    return z3.Exists([k], z3.And(0 <= k, k < to_z3(a.n), t))


def np_all(I, a, axis=None):
    I.trusted.add('np.all')
    if isinstance(a, (bool,)) or (is_z3(a) and not isinstance(a, SArr)):
        return I.truthy(a)
    if isinstance(a, list):
        return _all(I, a)
    k = z3.Int(fresh_name('q'))
    e = z3.Select(a.leaves[0], k)
    t = e if a.kind == 'bool' else e != 0
    return z3.ForAll([k], z3.Implies(z3.And(0 <= k, k < to_z3(a.n)), t))


def np_method(I, obj, name):
    def mk(fn):
        return Builtin(lambda I_, *a, **k: fn(*a, **k), f'ndarray.{name}')
    if name == 'copy':
        def cp():
            return SArr(obj.n, obj.leaves, obj.kind, True)
        return mk(cp)
    if name == 'T':
        # transpose of a 1-D array is the array itself; for an array of opaque *rows* (kind 'U': a matrix seen row by row) the
        # consumer must be a hook that knows this convention (np.lexsort over charges.T) - nothing else accepts the value
        return obj
    if name == 'any':
        return mk(lambda: np_any(I, obj))
    if name == 'all':
        return mk(lambda: np_all(I, obj))
    if name == 'sum':
        return mk(lambda: spec_sum(I, obj, 0, obj.n))
    if name == 'shape':
        return (obj.n,)
    if name == 'ndim':
        return 1
    if name == 'dtype':
        return _DType({'int': 'intp', 'real': 'float64', 'bool': 'bool'}.get(obj.kind, 'object'))
    if name == 'size':
        return obj.n
    if name == 'astype':
        return mk(lambda *a, **k: SArr(obj.n, obj.leaves, obj.kind, True))
    return None


def np_asarray(I, x, dtype=None, **kw):
    I.trusted.add('np.array/asarray of a 1-D sequence')
    if isinstance(x, SArr):
        if x.np:
            return x      # np.asarray returns its argument (same identity) for an ndarray of matching dtype
        return SArr(x.n, x.leaves, x.kind, True)
    if isinstance(x, (list, tuple)):
        if not x:
            return SArr(0, [z3.K(z3.IntSort(), z3.IntVal(0))], 'int', True)
        return I.list_to_arr(list(x), None, np=True)
    raise Unsupported('np.asarray of ' + type(x).__name__)


def np_array(I, x, dtype=None, **kw):
    r = np_asarray(I, x, dtype)
    if r is x:
        r = SArr(x.n, x.leaves, x.kind, True)
    return r


def np_empty(I, shape, dtype=None, **kw):
    I.trusted.add('np.empty/zeros 1-D')
    if isinstance(shape, (list, tuple)):
        if len(shape) != 1:
            raise Unsupported('np.empty with ndim != 1')
        shape = shape[0]
    kind = 'int'
    if dtype is not None:
        dn = dtype if isinstance(dtype, str) else getattr(dtype, 'name', repr(dtype))
        if 'float' in dn or dn in ('real',):
            kind = 'real'
        elif 'bool' in dn:
            kind = 'bool'
    r = SArr.fresh(kind, 'empty', np=True, n=shape)
    return r


def np_empty_like(I, a, dtype=None, **kw):
    if not isinstance(a, SArr):
        raise Unsupported('np.empty_like of ' + type(a).__name__)
    I.trusted.add('np.empty/zeros 1-D')
    return SArr.fresh(a.kind, 'empty', np=True, n=a.n)


def np_zeros(I, shape, dtype=None, **kw):
    r = np_empty(I, shape, dtype)
    zero = z3.BoolVal(False) if r.kind == 'bool' else to_z3(0, kind_sort(r.kind))
    r.leaves = [z3.K(z3.IntSort(), zero)]
    return r


def np_arange(I, n, *rest, **kw):
    if rest:
        raise Unsupported('np.arange(start, stop)')
    k = z3.Int('k!ar')
    return SArr(n, [z3.Lambda([k], k)], 'int', True)


class _DType:
    def __init__(self, name):
        self.name = name


def module_model(name):
    if name in ('numpy', 'np'):
        return ModuleVal('numpy', {
            'asarray': Builtin(np_asarray, 'np.asarray'), 'array': Builtin(np_array, 'np.array'),
            'empty': Builtin(np_empty, 'np.empty'), 'zeros': Builtin(np_zeros, 'np.zeros'),
            'arange': Builtin(np_arange, 'np.arange'), 'empty_like': Builtin(np_empty_like, 'np.empty_like'),
            'any': Builtin(np_any, 'np.any'), 'all': Builtin(np_all, 'np.all'),
            'sum': Builtin(lambda I, a, **k: _sum(I, a), 'np.sum'),
            'intp': _DType('intp'), 'int64': _DType('int64'), 'float64': _DType('float64'), 'bool_': _DType('bool'),
            'newaxis': None, 'inf': __import__('pyvc.values', fromlist=['INF']).INF, 'abs': Builtin(_abs, 'np.abs'),
            # dt is modelled as a real number (complex time steps are outside the modelled domain)
            'iscomplex': Builtin(lambda I, x: False, 'np.iscomplex'),
            'promote_types': Builtin(lambda I, a, b: a, 'np.promote_types'),   # dtype bookkeeping is not modelled
        })
    if name == 'bisect':
        return ModuleVal('bisect', {'bisect': Builtin(bisect_right, 'bisect.bisect'),
                                    'bisect_right': Builtin(bisect_right, 'bisect.bisect_right')})
    if name == 'warnings':
        return ModuleVal('warnings', {'warn': Builtin(lambda I, *a, **k: None, 'warnings.warn')})
    if name == 'logging':
        return ModuleVal('logging', {'getLogger': Builtin(lambda I, *a, **k: None, 'logging.getLogger')})
    if name == 'time':
        return ModuleVal('time', {'time': Builtin(lambda I: fresh_real('time'), 'time.time'),
                                  'asctime': Builtin(lambda I, *a: '<time>', 'time.asctime')})
    if name == 'itertools':
        return ModuleVal('itertools', {})
    if name == 'math':
        return ModuleVal('math', {})
    return None


class _TypeMarker:
    def __init__(self, name):
        self.__name__ = name


def from_import(modname, name):
    if modname == 'numbers' and name in ('Integral', 'Number', 'Real'):
        return _TypeMarker(name)
    if modname == 'collections' and name == 'namedtuple':
        def namedtuple(I, tname, fields):
            if isinstance(fields, str):
                fields = [f.strip() for f in fields.replace(',', ' ').split()]
            return make_nt_class(tname, fields)
        return Builtin(namedtuple, 'namedtuple')
    return None


def bisect_right(I, a, x, lo=0, hi=None):
    """Assumed contract of bisect.bisect_right on a non-decreasing sequence `a`:
    returns i with 0 <= i <= len(a), all a[:i] <= x and all a[i:] > x.
    (For a sequence that is not sorted the CPython result is unspecified; the caller's
    precondition must establish sortedness - checked as an obligation here.)"""
    I.trusted.add('bisect.bisect_right (on sorted input: all a[:i] <= x < all a[i:])')
    if isinstance(a, list):
        a = I.list_to_arr(a)
    if not isinstance(a, SArr):
        raise Unsupported('bisect on ' + type(a).__name__)
    n = to_z3(a.n)
    arr = a.leaves[0]
    j = z3.Int(fresh_name('q'))
    srt = z3.ForAll([j], z3.Implies(z3.And(0 <= j, j < n - 1), z3.Select(arr, j) <= z3.Select(arr, j + 1)))
    if not I.spec_mode:
        I.oblige('bisect-input-sorted', srt, {'clause': 'argument of bisect.bisect is non-decreasing'})
    i = fresh_int('bis')
    xz = to_z3(I._num(x), arr.sort().range())
    I.assume(z3.And(0 <= i, i <= n))
    I.assume(z3.ForAll([j], z3.Implies(z3.And(0 <= j, j < i), z3.Select(arr, j) <= xz)))
    I.assume(z3.ForAll([j], z3.Implies(z3.And(i <= j, j < n), z3.Select(arr, j) > xz)))
    return i
