"""Contracts (sidecar, keyed by qualified name) and the verification driver."""
import ast
import copy
import time
import traceback
from fractions import Fraction

import z3

from . import source
from .interp import (Interp, Unsupported, PathEnd, PyRaise, ReturnSig, FuncVal, ClassVal, Frame, Builtin)
from .values import (SArr, SObj, SMap, SSet, SegList, Opq, NT, is_z3, to_z3, fresh_name, U, kind_sort, kind_leaves)

# ------------------------------------------------------------------ parameter specifications


class Spec:
    def make(self, I, name):
        raise NotImplementedError


class Int(Spec):
    def make(self, I, name):
        return z3.Int(name)


class Real(Spec):
    def make(self, I, name):
        return z3.Real(name)


class Bool(Spec):
    def make(self, I, name):
        return z3.Bool(name)


class Opaque(Spec):
    def make(self, I, name):
        return Opq(z3.Const(name, U))


class OptOpaque(Spec):
    """opaque value or None (None encoded as the distinguished element NONE_U)."""

    def make(self, I, name):
        return Opq(z3.Const(name, U))


class Const(Spec):
    def __init__(self, v):
        self.v = v

    def make(self, I, name):
        return copy.deepcopy(self.v)


class OneOf(Spec):
    """finitely many concrete alternatives; the verifier forks over them."""

    def __init__(self, *alts):
        self.alts = alts

    def make(self, I, name):
        i = I.choose(len(self.alts), 'oneof:' + name)
        a = self.alts[i]
        I.ghost.setdefault('choices', {})[name] = a if not isinstance(a, Spec) else i
        return a.make(I, name) if isinstance(a, Spec) else copy.deepcopy(a)


class List(Spec):
    """Python list of symbolic length; kind: 'int'|'real'|'bool'|'U'|('tuple',[...],ntclass)."""

    def __init__(self, kind='int', np=False, n=None):
        self.kind, self.np, self.n = kind, np, n

    def make(self, I, name):
        leaves = [z3.Array(f'{name}.{i}' if len(kind_leaves(self.kind)) > 1 else name, z3.IntSort(), kind_sort(k))
                  for i, k in enumerate(kind_leaves(self.kind))]
        n = self.n if self.n is not None else z3.Int(f'len({name})')
        if isinstance(n, str):
            n = z3.Int(n)
        if is_z3(n):
            I.assume(n >= 0)
        return SArr(n, leaves, self.kind, self.np)


class NpArr(List):
    def __init__(self, kind='int', n=None):
        super().__init__(kind, True, n)


class FixedList(Spec):
    def __init__(self, specs, as_tuple=False):
        self.specs, self.as_tuple = specs, as_tuple

    def make(self, I, name):
        vals = [s.make(I, f'{name}[{i}]') for i, s in enumerate(self.specs)]
        return tuple(vals) if self.as_tuple else vals


class DictOf(Spec):
    """dict with concrete keys and specified values."""

    def __init__(self, items):
        self.items = items

    def make(self, I, name):
        return {k: (v.make(I, f'{name}[{k!r}]') if isinstance(v, Spec) else copy.deepcopy(v)) for k, v in self.items.items()}


class Map(Spec):
    def __init__(self, kkind='U', vkind='U'):
        self.kkind, self.vkind = kkind, vkind

    def make(self, I, name):
        return SMap(z3.Array(f'{name}.dom', kind_sort(self.kkind), z3.BoolSort()),
                    z3.Array(f'{name}.val', kind_sort(self.kkind), kind_sort(self.vkind)), self.kkind, self.vkind)


class Set(Spec):
    def __init__(self, kkind='U'):
        self.kkind = kkind

    def make(self, I, name):
        return SSet(z3.Array(f'{name}.mem', kind_sort(self.kkind), z3.BoolSort()), self.kkind)


class Obj(Spec):
    """Instance of the repo class `cls` (found in module `relpath`) with the given attributes."""

    def __init__(self, cls, relpath=None, attrs=None):
        self.cls, self.relpath, self.attrs = cls, relpath, attrs or {}

    def make(self, I, name):
        mod = source.get_module(self.relpath) if self.relpath else None
        if mod is not None:
            source.find_class(mod, self.cls)
        o = SObj(self.cls, mod)
        for a, s in self.attrs.items():
            o.attrs[a] = s.make(I, f'{name}.{a}') if isinstance(s, Spec) else copy.deepcopy(s)
        return o


# ------------------------------------------------------------------ contracts

REGISTRY = []


def _parse(text):
    return {'text': text, 'ast': ast.parse(text.strip(), mode='eval').body}


class Contract:
    def __init__(self, target, props, params, requires=(), ensures=(), raises=None, loops=None, hooks=None,
                 name=None, ghost=None, lemma_uses=None, replay=None, note='', order=None, static=False,
                 ensures_raise=None, known=None, setup=None, result_name='result', finite_scope=None,
                 call=None, expect_unsupported=False, hunt=None, lemmas=None, static_checks=None, sampler=None):
        self.target = target
        self.props = props
        self.params = params
        self.requires = [_parse(c) for c in requires]
        self.ensures = [_parse(c) for c in ensures]
        self.raises = {k: _parse(v) for k, v in (raises or {}).items()}
        self.ensures_raise = {k: [_parse(c) for c in v] for k, v in (ensures_raise or {}).items()}
        self.loops = {}
        for k, spec in (loops or {}).items():
            d = dict(spec)
            d['inv'] = [_parse(c) for c in spec.get('inv', [])]
            if spec.get('decreases'):
                d['decreases'] = _parse(spec['decreases'])
            if spec.get('lemmas'):
                d['lemmas'] = [_parse(c) for c in spec['lemmas']]
            if spec.get('lemmas_pres'):
                d['lemmas_pres'] = [_parse(c) for c in spec['lemmas_pres']]
            self.loops[k] = d
        self.hooks = hooks or {}
        self.name = name or target.split('::')[1]
        self.ghost = ghost
        self.replay = replay
        self.note = note
        self.setup = setup
        self.call = call
        self.static = static
        self.finite_scope = finite_scope
        self.hunt = hunt
        self.lemmas = [_parse(c) for c in (lemmas or [])]
        self.static_checks = static_checks or []
        self.sampler = sampler      # rng -> dict of real arguments (CPython cross-check of the proved clauses)
        REGISTRY.append(self)

    def __repr__(self):
        return f'<Contract {self.name}>'


class ObResult:
    def __init__(self, ob, status, secs, backend, model=None, contract=None, path=None):
        self.name, self.kind, self.info = ob.name, ob.kind, ob.info
        self.status, self.secs, self.backend, self.model = status, secs, backend, model
        self.contract = contract
        self.path = path


class Report:
    def __init__(self, contract):
        self.contract = contract
        self.results = []
        self.paths = 0
        self.error = None          # structural: obligations could not be generated
        self.vacuous = False
        self.trusted = set()
        self.ast_hash = None
        self.dropped = []
        self.outcomes = {}
        self.gen_secs = 0.0
        self.unsupported_paths = []

    @property
    def obligations(self):
        return len(self.results)

    @property
    def discharged(self):
        return sum(1 for r in self.results if r.status == 'unsat')

    @property
    def failed(self):
        return [r for r in self.results if r.status != 'unsat']


def spec_eval(I, clause, env_extra=None):
    I.spec_mode += 1
    fr = I.frames[-1]
    saved = {}
    try:
        for k, v in (env_extra or {}).items():
            saved[k] = fr.locals.get(k, _MISSING)
            fr.locals[k] = v
        return I.z3bool(I.eval(clause['ast']))
    finally:
        for k, v in saved.items():
            if v is _MISSING:
                fr.locals.pop(k, None)
            else:
                fr.locals[k] = v
        I.spec_mode -= 1


_MISSING = object()


def snapshot(v, memo=None):
    """Deep copy of the symbolic state reachable from v (z3 terms are immutable and shared)."""
    memo = memo if memo is not None else {}
    if id(v) in memo:
        return memo[id(v)]
    if isinstance(v, SArr):
        r = v.copy()
    elif isinstance(v, SObj):
        r = SObj(v.cls, v.mod)
        memo[id(v)] = r
        r.attrs = {k: snapshot(x, memo) for k, x in v.attrs.items()}
    elif isinstance(v, SMap):
        r = SMap(v.dom, v.val, v.kkind, v.vkind)
    elif isinstance(v, SSet):
        r = SSet(v.mem, v.kkind)
    elif isinstance(v, list):
        r = [snapshot(x, memo) for x in v]
    elif isinstance(v, NT):
        r = type(v)([snapshot(x, memo) for x in v])
    elif isinstance(v, tuple):
        r = tuple(snapshot(x, memo) for x in v)
    elif isinstance(v, dict):
        r = {k: snapshot(x, memo) for k, x in v.items()}
    elif isinstance(v, set):
        r = set(v)
    else:
        r = v
    memo[id(v)] = r
    return r


def _old_builtin(I, *a, **k):
    raise Unsupported('old() is handled syntactically')


def install_old(I, old_env):
    """`old(expr)` evaluates expr in the entry snapshot of the parameters."""
    orig_call = I.e_Call

    def e_Call(e):
        if isinstance(e.func, ast.Name) and e.func.id == 'old' and len(e.args) == 1:
            fr = I.frames[-1]
            saved = fr.locals
            fr.locals = dict(saved)
            fr.locals.update(old_env)
            try:
                return I.eval(e.args[0])
            finally:
                fr.locals = saved
        return orig_call(e)
    I.e_Call = e_Call


def run_path(contract, decisions, mod, cls, fn):
    """Execute one path; returns (interp, status) with obligations collected in interp.obligs."""
    qual = contract.name
    invariants = {}
    fkey = f'{mod.relpath}::{(cls.name + ".") if cls is not None else ""}{fn.name}'
    for k, spec in contract.loops.items():
        if isinstance(k, tuple):
            invariants[k] = spec
        else:
            invariants[(fkey, k)] = spec
    I = Interp(decisions, invariants, qual, hooks=contract.hooks, ghost={})
    I.contract = contract
    fr = Frame(mod, {}, cls=cls.name if cls is not None else None, qual='<contract>')
    I.frames.append(fr)
    status = 'ok'
    try:
        # 1. symbolic pre-state
        env = {}
        for pname, spec in contract.params.items():
            env[pname] = spec.make(I, pname) if isinstance(spec, Spec) else copy.deepcopy(spec)
        fr.locals.update(env)
        if contract.setup:
            contract.setup(I, env)
            fr.locals.update(env)
        for c in contract.requires:
            I.assume(spec_eval(I, c))
        old_env = {k: snapshot(v) for k, v in env.items()}
        old_env.update({k: snapshot(v) for k, v in I.ghost.get('__env__', {}).items()})
        install_old(I, old_env)
        I.ghost['param_env'] = env
        if I.dpos >= len(I.decisions) and not I.new_branches and not decisions:
            # vacuity check of the precondition (first path only)
            r = I.solver.check()
            I.ghost['pre_sat'] = str(r)
        # 2. run the real code
        decos = [ast.unparse(d) for d in fn.decorator_list]
        is_static = 'staticmethod' in decos or contract.static
        outcome = ('return', None)
        try:
            if contract.call is not None:
                res = contract.call(I, env)
            elif cls is not None and not is_static:
                names = [a.arg for a in fn.args.posonlyargs + fn.args.args]
                self_obj = env[names[0]]
                f = FuncVal(mod, fn, self_obj=self_obj, cls=cls.name)
                pos, kw = split_args(fn, env, skip=1)
                res = I.call_function(f, pos, kw)
            else:
                f = FuncVal(mod, fn, cls=cls.name if cls is not None else None)
                pos, kw = split_args(fn, env, skip=0)
                res = I.call_function(f, pos, kw)
            outcome = ('return', res)
        except PyRaise as ex:
            outcome = ('raise', ex.cls)
        I.ghost['outcome'] = outcome
        # 3. postconditions
        if contract.lemmas:
            from .loops import assume_lemmas
            fr.locals['result'] = outcome[1] if outcome[0] == 'return' else None
            assume_lemmas(I, contract.lemmas)
        if outcome[0] == 'return':
            fr.locals['result'] = outcome[1]
            for cname, cond in contract.raises.items():
                c = spec_eval(I, {'ast': ast.Call(ast.Name('old', ast.Load()), [cond['ast']], []),
                                  'text': cond['text']})
                I.oblige(f'no-{cname}-condition-on-return', z3.Not(c),
                         {'clause': f'returns normally only if not ({cond["text"]})'})
            for i, c in enumerate(contract.ensures):
                I.oblige(f'post#{i}', spec_eval(I, c), {'clause': c['text']})
        else:
            cname = outcome[1]
            if cname in contract.raises:
                cond = contract.raises[cname]
                c = spec_eval(I, {'ast': ast.Call(ast.Name('old', ast.Load()), [cond['ast']], []),
                                  'text': cond['text']})
                I.oblige(f'raises-{cname}-only-if', c, {'clause': f'raises {cname} only if {cond["text"]}'})
                for i, c in enumerate(contract.ensures_raise.get(cname, [])):
                    I.oblige(f'post-raise-{cname}#{i}', spec_eval(I, c), {'clause': c['text']})
            else:
                I.oblige(f'unexpected-{cname}', z3.BoolVal(False),
                         {'clause': f'no {cname} may be raised under the precondition'})
    except PathEnd:
        status = 'cut'
    except Unsupported as e:
        # this path leaves the verified subset: its obligations cannot be generated (other paths still count)
        status = 'unsupported: ' + str(e)
    return I, status


def split_args(fn, env, skip=0):
    a = fn.args
    names = [p.arg for p in a.posonlyargs + a.args][skip:]
    pos = []
    kw = {}
    for n in names:
        if n in env:
            pos.append(env[n])
        else:
            break
    for n in names[len(pos):]:
        if n in env:
            kw[n] = env[n]
    if a.vararg is not None and a.vararg.arg in env:
        pos.extend(env[a.vararg.arg])
    for p in a.kwonlyargs:
        if p.arg in env:
            kw[p.arg] = env[p.arg]
    if a.kwarg is not None and a.kwarg.arg in env:
        kw.update(env[a.kwarg.arg])
    return pos, kw


MAX_PATHS = 4000


def generate(contract):
    """Explore all paths of the target under the contract. Returns (report, [(interp, ob)])."""
    rep = Report(contract)
    t0 = time.time()
    try:
        mod, cls, fn = source.locate(contract.target)
        text, h, dropped = source.normal_form(fn)
        rep.ast_hash, rep.dropped = h, dropped
    except source.SourceError as e:
        rep.error = f'cannot locate target: {e}'
        return rep, []
    work = [[]]
    obs = []
    seen_ob = 0
    # static (syntactic) obligations over the current source, e.g. frame checks by AST scan
    from .interp import Obligation
    for sc in contract.static_checks:
        try:
            for nm, ok, detail in sc():
                obs.append((None, Obligation(f'{contract.name}#static-{nm}', [], z3.BoolVal(bool(ok)), 'static',
                                             {'clause': detail}), []))
        except Exception as e:
            rep.error = f'static check failed to run: {e!r}'
            return rep, []
    try:
        while work:
            decisions = work.pop()
            I, status = run_path(contract, decisions, mod, cls, fn)
            rep.paths += 1
            if rep.paths > MAX_PATHS:
                raise Unsupported(f'more than {MAX_PATHS} paths')
            if status.startswith('unsupported'):
                rep.unsupported_paths.append(status[13:])
            if 'pre_sat' in I.ghost and I.ghost['pre_sat'] == 'unsat':
                rep.vacuous = True
            work.extend(I.new_branches)
            rep.trusted |= I.trusted
            oc = I.ghost.get('outcome')
            if oc is not None:
                key = oc[0] if oc[0] == 'return' else f'raise {oc[1]}'
                rep.outcomes[key] = rep.outcomes.get(key, 0) + 1
            for ob in I.obligs:
                obs.append((I, ob, list(I.decisions)))
    except Unsupported as e:
        rep.error = f'outside verified subset: {e}'
        rep.gen_secs = time.time() - t0
        return rep, []
    except (PyRaise,) as e:
        rep.error = f'exception while evaluating the contract itself: {e.cls}'
        rep.gen_secs = time.time() - t0
        return rep, []
    except RecursionError:
        rep.error = 'recursion limit in symbolic execution'
        return rep, []
    rep.gen_secs = time.time() - t0
    return rep, obs
