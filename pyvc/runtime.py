"""Executable form of the contracts: the same clause text evaluated by CPython on real objects.

Used (a) to replay solver counter-models against the real code, (b) by the bounded stand-in.
"""
import ast
import copy


def forall(lo, hi, f):
    return all(f(k) for k in range(int(lo), int(hi)))


def forall2(lo, hi, f):
    return all(f(j, k) for j in range(int(lo), int(hi)) for k in range(int(lo), int(hi)))


def exists(lo, hi, f):
    return any(f(k) for k in range(int(lo), int(hi)))


def implies(a, b):
    return (not a) or bool(b)


def iff(a, b):
    return bool(a) == bool(b)


def ite(c, a, b):
    return a if c else b


def is_none(x):
    return x is None


def ssum(arr, lo, hi):
    return sum(arr[int(lo):int(hi)])


def seg_weight(ST, d, parity):
    from fractions import Fraction
    return sum(Fraction(repr(float(d[j]))) if False else d[j] for (j, k) in ST if k == parity)


def seg_all(ST, pred):
    return all(pred(x) for x in ST)


HELPERS = {'seg_weight': seg_weight, 'seg_all': seg_all, 'forall': forall, 'forall2': forall2, 'exists': exists, 'implies': implies, 'iff': iff, 'ite': ite,
           'is_none': is_none, 'ssum': ssum}


class _OldLift(ast.NodeTransformer):
    def __init__(self):
        self.olds = []

    def visit_Call(self, node):
        if isinstance(node.func, ast.Name) and node.func.id == 'old' and len(node.args) == 1:
            name = f'__old_{len(self.olds)}'
            self.olds.append((name, node.args[0]))
            return ast.copy_location(ast.Name(name, ast.Load()), node)
        node = self.generic_visit(node)
        # logical connectives are lazy, as in the verifier's logic: implies(a, b) must not evaluate b when a is false
        if isinstance(node.func, ast.Name) and node.func.id == 'implies' and len(node.args) == 2:
            return ast.copy_location(ast.BoolOp(ast.Or(), [ast.UnaryOp(ast.Not(), node.args[0]), node.args[1]]), node)
        if isinstance(node.func, ast.Name) and node.func.id == 'ite' and len(node.args) == 3:
            return ast.copy_location(ast.IfExp(node.args[0], node.args[1], node.args[2]), node)
        return node


def eval_clause(text, env, old_env=None, extra=None):
    tree = ast.parse(text.strip(), mode='eval')
    lift = _OldLift()
    tree = lift.visit(tree)
    ast.fix_missing_locations(tree)
    g = dict(HELPERS)
    if extra:
        g.update(extra)
    g.update(env)
    for name, e in lift.olds:
        og = dict(HELPERS)
        if extra:
            og.update(extra)
        og.update(old_env if old_env is not None else env)
        g[name] = eval(compile(ast.fix_missing_locations(ast.Expression(e)), '<old>', 'eval'), og)
    return eval(compile(tree, '<clause>', 'eval'), g)


def check_call(contract, fn, env, extra=None, call=None):
    """Run the real callable under the contract. env: name -> real argument objects (self included).

    Returns (ok, detail).  ok is None when the precondition does not hold for this input."""
    for c in contract.requires:
        try:
            if not eval_clause(c['text'], env, extra=extra):
                return None, 'precondition false'
        except Exception as e:
            return None, f'precondition not evaluable: {e!r}'
    old_env = {k: copy.deepcopy(v) for k, v in env.items()}
    expected_exc = []
    for cname, cond in contract.raises.items():
        if eval_clause(cond['text'], old_env, extra=extra):
            expected_exc.append(cname)
    try:
        result = call(env) if call is not None else fn(**env)
        raised = None
    except Exception as e:
        raised = type(e).__name__
        result = None
    if raised is not None:
        if raised in expected_exc:
            return True, f'raised {raised} as specified'
        if raised in contract.raises:
            return False, f'raised {raised} although its condition `{contract.raises[raised]["text"]}` is false'
        return False, f'raised unexpected {raised}'
    if expected_exc:
        return False, f'returned {result!r} although {expected_exc[0]} is required: `{contract.raises[expected_exc[0]]["text"]}`'
    env2 = dict(env)
    env2['result'] = result
    for c in contract.ensures:
        try:
            ok = eval_clause(c['text'], env2, old_env, extra=extra)
        except Exception as e:
            return False, f'postcondition `{c["text"]}` not evaluable on the real result {result!r}: {e!r}'
        if not ok:
            return False, f'postcondition `{c["text"]}` false; result={result!r}'
    return True, 'ok'


def real_callable(target):
    """'tenpy/x/y.py::Class.method' -> the real (unbound) function object of the tree that the checker verifies"""
    import importlib
    relpath, qual = target.split('::')
    mod = importlib.import_module(relpath[:-3].replace('/', '.'))
    obj = mod
    for part in qual.split('.'):
        obj = getattr(obj, part)
    return obj


def crosscheck(contract, n, seed=0):
    """CPython cross-check of a contract that the verifier discharged: draw n real inputs with the contract's sampler, run the
    real function, evaluate the *same clause text*.  -> (evaluated, skipped_precondition, [failures])"""
    import random
    rng = random.Random(seed)
    fn = real_callable(contract.target)
    done = skipped = 0
    failures = []
    import warnings
    warnings.simplefilter('ignore')
    for _ in range(n):
        env = contract.sampler(rng)
        import inspect
        try:
            names = set(inspect.signature(fn).parameters)
        except (TypeError, ValueError):
            names = set(env)
        # ghost parameters of the contract (witness arrays ...) take part in the clauses but are not passed to the function
        ok, detail = check_call(contract, None, env, call=lambda e: fn(**{k: v for k, v in e.items() if k in names}))
        if ok is None:
            skipped += 1
            continue
        done += 1
        if not ok and len(failures) < 3:
            failures.append({'input': {k: repr(v)[:200] for k, v in env.items()}, 'observed': detail})
    return done, skipped, failures
