"""Locate real tenpy source in /repo (re-read on every run) and normalise it for verification.

What the extraction drops (recorded per function in the evidence as `dropped_constructs`):
docstrings, decorators, annotations, calls to logger.* / warnings.warn / print, and the payload of
exception messages.  Nothing else is rewritten: the AST that is executed symbolically is the AST of
the file under /repo.
"""
import ast
import hashlib
import os

REPO = os.environ.get('VERIF_REPO', '/repo')

_module_cache = {}


class SourceError(Exception):
    """The target cannot be located / is outside the supported subset (structural, not a violation)."""


class Module:
    def __init__(self, relpath):
        self.relpath = relpath
        path = os.path.join(REPO, relpath)
        if not os.path.exists(path):
            raise SourceError(f'file {relpath} not found under {REPO}')
        with open(path) as f:
            self.text = f.read()
        self.pyx_info, self.pyx_failed = {}, {}
        if relpath.endswith('.pyx'):
            from . import pyx
            self.tree, self.pyx_info, self.pyx_failed = pyx.module_ast(self.text)
        else:
            self.tree = ast.parse(self.text, filename=path)
        self.functions = {}
        self.classes = {}
        self.assigns = {}   # module-level simple assignments: name -> ast expr
        self.imports = {}   # local name -> ('module', dotted) | ('from', module, name, level)
        for node in self.tree.body:
            self._scan_toplevel(node)

    def _scan_toplevel(self, node):
        if isinstance(node, (ast.FunctionDef,)):
            self.functions[node.name] = node
        elif isinstance(node, ast.ClassDef):
            self.classes[node.name] = node
        elif isinstance(node, ast.Assign) and len(node.targets) == 1 and isinstance(node.targets[0], ast.Name):
            self.assigns[node.targets[0].id] = node.value
        elif isinstance(node, ast.Import):
            for a in node.names:
                self.imports[a.asname or a.name.split('.')[0]] = ('module', a.name)
        elif isinstance(node, ast.ImportFrom):
            for a in node.names:
                self.imports[a.asname or a.name] = ('from', node.module or '', a.name, node.level)
        elif isinstance(node, (ast.If, ast.Try)):
            for sub in getattr(node, 'body', []):
                self._scan_toplevel(sub)

    def class_methods(self, cname):
        cls = self.classes[cname]
        return {n.name: n for n in cls.body if isinstance(n, ast.FunctionDef)}

    def class_attrs(self, cname):
        cls = self.classes[cname]
        out = {}
        for n in cls.body:
            if isinstance(n, ast.Assign) and len(n.targets) == 1 and isinstance(n.targets[0], ast.Name):
                out[n.targets[0].id] = n.value
        return out

    def resolve_from(self, modname, level):
        """Return relpath of a tenpy module imported relatively/absolutely, or None."""
        base = os.path.dirname(self.relpath)
        if level > 0:
            for _ in range(level - 1):
                base = os.path.dirname(base)
            parts = modname.split('.') if modname else []
            cand = os.path.join(base, *parts)
        elif modname.startswith('tenpy'):
            cand = os.path.join(*modname.split('.'))
        else:
            return None
        for c in (cand + '.py', os.path.join(cand, '__init__.py')):
            if os.path.exists(os.path.join(REPO, c)):
                return c
        return None


def get_module(relpath):
    key = (REPO, relpath)
    m = _module_cache.get(key)
    if m is None:
        m = _module_cache[key] = Module(relpath)
    return m


def clear_cache():
    _module_cache.clear()


def find_class(mod, cname, _depth=0):
    """Find ClassDef `cname` visible from module `mod` (follows tenpy-internal imports)."""
    if cname in mod.classes:
        return mod, mod.classes[cname]
    imp = mod.imports.get(cname)
    if imp and imp[0] == 'from' and _depth < 6:
        rel = mod.resolve_from(imp[1], imp[3])
        if rel:
            return find_class(get_module(rel), imp[2], _depth + 1)
    raise SourceError(f'class {cname} not found from {mod.relpath}')


def mro(mod, cname):
    """C3 linearisation (as CPython) over the classes found in the repo: list of (module, ClassDef).
    Bases that are not repo classes (object, Exception, ...) are ignored."""
    def bases_of(m, cd):
        out = []
        for b in cd.bases:
            bn = b.id if isinstance(b, ast.Name) else (b.attr if isinstance(b, ast.Attribute) else None)
            if bn is None:
                continue
            try:
                out.append(find_class(m, bn))
            except SourceError:
                pass
        return out

    def lin(m, cd):
        seqs = [lin(bm, bcd) for bm, bcd in bases_of(m, cd)] + [[(bm, bcd) for bm, bcd in bases_of(m, cd)]]
        res = [(m, cd)]
        seqs = [list(x) for x in seqs if x]
        key = lambda e: (e[0].relpath, e[1].name)
        while seqs:
            for sq in seqs:
                cand = sq[0]
                if not any(key(cand) in [key(e) for e in o[1:]] for o in seqs):
                    break
            else:
                raise SourceError(f'inconsistent MRO for {cd.name}')
            res.append(cand)
            seqs = [[e for e in sq if key(e) != key(cand)] for sq in seqs]
            seqs = [sq for sq in seqs if sq]
        return res
    try:
        m0, cd0 = find_class(mod, cname)
    except SourceError:
        return []
    return lin(m0, cd0)


def find_method(mod, cname, mname):
    for m2, cd in mro(mod, cname):
        for n in cd.body:
            if isinstance(n, ast.FunctionDef) and n.name == mname:
                return m2, cd, n
    return None


def locate(target):
    """target = 'tenpy/x/y.py::Class.method' or 'tenpy/x/y.py::func'. Returns (module, classdef|None, funcdef)."""
    relpath, qual = target.split('::')
    mod = get_module(relpath)
    parts = qual.split('.')
    if len(parts) == 1:
        if parts[0] not in mod.functions:
            why = mod.pyx_failed.get(parts[0])
            raise SourceError(f'function {qual} not found in {relpath}' + (f' (not extractable from the .pyx: {why})' if why else ''))
        return mod, None, mod.functions[parts[0]]
    cname, mname = parts
    if cname not in mod.classes:
        raise SourceError(f'class {cname} not found in {relpath}')
    meths = mod.class_methods(cname)
    if mname not in meths:
        raise SourceError(f'method {qual} not found in {relpath}')
    return mod, mod.classes[cname], meths[mname]


class _Normalise(ast.NodeTransformer):
    """Produce the normal form whose hash is reported; records what was dropped."""

    def __init__(self):
        self.dropped = []

    def visit_FunctionDef(self, node):
        if node.decorator_list:
            self.dropped.append('decorators:' + ','.join(ast.unparse(d) for d in node.decorator_list))
        node.decorator_list = []
        node.returns = None
        for a in node.args.args + node.args.kwonlyargs:
            a.annotation = None
        if (node.body and isinstance(node.body[0], ast.Expr) and isinstance(node.body[0].value, ast.Constant)
                and isinstance(node.body[0].value.value, str)):
            self.dropped.append('docstring')
            node.body = node.body[1:] or [ast.Pass()]
        self.generic_visit(node)
        return node

    def visit_Expr(self, node):
        if is_dropped_call(node.value):
            self.dropped.append('call:' + ast.unparse(node.value.func))
            return ast.Pass()
        return self.generic_visit(node)


def is_dropped_call(e):
    if not isinstance(e, ast.Call):
        return False
    f = e.func
    if isinstance(f, ast.Attribute) and isinstance(f.value, ast.Name):
        if f.value.id == 'logger' or (f.value.id == 'warnings' and f.attr == 'warn'):
            return True
    if isinstance(f, ast.Name) and f.id == 'print':
        return True
    return False


def normal_form(funcdef):
    import copy
    node = copy.deepcopy(funcdef)
    n = _Normalise()
    node = n.visit(node)
    ast.fix_missing_locations(node)
    text = ast.unparse(node)
    return text, hashlib.sha256(text.encode()).hexdigest(), sorted(set(n.dropped) | set(getattr(funcdef, '_pyx_dropped', [])))
