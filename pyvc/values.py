"""Value domain of the symbolic interpreter (see DESIGN.md section 2.2).

Concrete Python values (int, bool, Fraction, str, None, tuple, list, dict, set) are used as they
are; symbolic scalars are z3 terms; everything else is one of the classes below.
"""
import itertools
from fractions import Fraction

import z3

U = z3.DeclareSort('U')        # universe of opaque values (callbacks, payload blocks, keys, ...)

_fresh = itertools.count()


def fresh_name(base):
    return f'{base}!{next(_fresh)}'


def fresh_int(base='i'):
    return z3.Int(fresh_name(base))


def fresh_real(base='r'):
    return z3.Real(fresh_name(base))


def fresh_bool(base='b'):
    return z3.Bool(fresh_name(base))


def fresh_U(base='u'):
    return z3.Const(fresh_name(base), U)


NONE_U = z3.Const('None!U', U)   # the opaque encoding of None inside U-sorted containers


# Python strings inside opaque (U-sorted) containers: strU(i) for the i-th distinct string met; strU is injective and
# no string is None (axioms added to every query that mentions strU).
STR_IDS = {}
strU = z3.Function('strU', z3.IntSort(), U)
strid = z3.Function('strid', U, z3.IntSort())


def str_const(s):
    return strU(z3.IntVal(STR_IDS.setdefault(s, len(STR_IDS))))


def str_axioms():
    i = z3.Int('i!str')
    return [z3.ForAll([i], strid(strU(i)) == i), strid(NONE_U) == -1]


class Opq:
    """Opaque value: element of the uninterpreted universe U."""
    __slots__ = ('t',)

    def __init__(self, t=None, base='u'):
        self.t = t if t is not None else fresh_U(base)

    def __repr__(self):
        return f'Opq({self.t})'


class NT(tuple):
    """namedtuple instance; fields given by the class-level `_fields`."""
    _fields = ()
    _name = 'NT'


def make_nt_class(name, fields):
    return type(name, (NT,), {'_fields': tuple(fields), '_name': name})


class SObj:
    """Instance of a repo class (or a plain record). Identity = Python identity."""

    def __init__(self, cls, mod=None, attrs=None):
        self.cls = cls      # class name
        self.mod = mod      # source.Module where the class was found (None for records)
        self.attrs = dict(attrs or {})

    def __repr__(self):
        return f'<SObj {self.cls} {sorted(self.attrs)}>'


def kind_sort(kind):
    if kind == 'int':
        return z3.IntSort()
    if kind == 'real':
        return z3.RealSort()
    if kind == 'bool':
        return z3.BoolSort()
    if kind == 'U':
        return U
    raise ValueError(kind)


def kind_leaves(kind):
    """Flatten an element kind into its scalar leaf kinds."""
    if isinstance(kind, tuple) and kind[0] == 'tuple':
        out = []
        for k in kind[1]:
            out.extend(kind_leaves(k))
        return out
    return [kind]


class SArr:
    """Sequence of symbolic (or concrete) length `n` over z3 arrays.

    `kind` describes the elements: 'int' | 'real' | 'bool' | 'U' | ('tuple', [kinds], ntclass|None).
    Lists of tuples are stored as parallel arrays (one per leaf).  `np=True` gives numpy semantics
    (elementwise arithmetic, fixed length).  Mutable, identity = Python identity.
    """

    def __init__(self, n, leaves, kind, np=False):
        self.n = n
        self.leaves = list(leaves)
        self.kind = kind
        self.np = np

    @staticmethod
    def fresh(kind, base='a', np=False, n=None):
        leaves = [z3.Array(fresh_name(base), z3.IntSort(), kind_sort(k)) for k in kind_leaves(kind)]
        return SArr(n if n is not None else fresh_int(base + '_len'), leaves, kind, np)

    def copy(self):
        return SArr(self.n, self.leaves, self.kind, self.np)

    def __repr__(self):
        return f'<SArr n={self.n} kind={self.kind} np={self.np}>'


class SMap:
    """dict with symbolic key set: dom : K -> Bool, val : K -> V. Keys/values 'int' or 'U'."""

    def __init__(self, dom, val, kkind='U', vkind='U'):
        self.dom = dom
        self.val = val
        self.kkind = kkind
        self.vkind = vkind

    @staticmethod
    def fresh(kkind='U', vkind='U', base='m'):
        return SMap(z3.Array(fresh_name(base + '_dom'), kind_sort(kkind), z3.BoolSort()),
                    z3.Array(fresh_name(base + '_val'), kind_sort(kkind), kind_sort(vkind)), kkind, vkind)

    @staticmethod
    def empty(kkind='U', vkind='U'):
        return SMap(z3.K(kind_sort(kkind), z3.BoolVal(False)),
                    z3.Array(fresh_name('m_val'), kind_sort(kkind), kind_sort(vkind)), kkind, vkind)


class SSet:
    """set with symbolic membership: mem : K -> Bool."""

    def __init__(self, mem, kkind='U'):
        self.mem = mem
        self.kkind = kkind

    @staticmethod
    def fresh(kkind='U', base='s'):
        return SSet(z3.Array(fresh_name(base), kind_sort(kkind), z3.BoolSort()), kkind)

    @staticmethod
    def empty(kkind='U'):
        return SSet(z3.K(kind_sort(kkind), z3.BoolVal(False)), kkind)


class SegList:
    """List given as concatenation of segments (items: concrete-length list, count: int | z3 Int).

    Represents  items_0 * count_0 + items_1 * count_1 + ...   (Python list repetition/concatenation
    with a symbolic repetition count).  Used for schedules such as `[a, b] * N_steps`."""

    def __init__(self, segs):
        self.segs = list(segs)

    def __repr__(self):
        return f'<SegList {[(len(i), c) for i, c in self.segs]}>'


def is_z3(v):
    return isinstance(v, z3.ExprRef)


def is_sym(v):
    return isinstance(v, (z3.ExprRef, SArr, SMap, SSet, Opq, SegList))


def to_z3(v, sort=None):
    """Scalar value -> z3 term."""
    if isinstance(v, z3.ExprRef):
        if sort is not None and v.sort() != sort:
            if sort == z3.RealSort() and v.sort() == z3.IntSort():
                return z3.ToReal(v)
            if sort == z3.IntSort() and v.sort() == z3.BoolSort():
                return z3.If(v, 1, 0)
            if sort == z3.RealSort() and v.sort() == z3.BoolSort():
                return z3.If(v, z3.RealVal(1), z3.RealVal(0))
        return v
    if isinstance(v, bool):
        if sort == z3.IntSort():
            return z3.IntVal(int(v))
        if sort == z3.RealSort():
            return z3.RealVal(int(v))
        return z3.BoolVal(v)
    if isinstance(v, int):
        if sort == z3.RealSort():
            return z3.RealVal(v)
        return z3.IntVal(v)
    if isinstance(v, Fraction):
        return z3.RealVal(str(v))
    if isinstance(v, float):
        return z3.RealVal(str(Fraction(repr(v))))
    if isinstance(v, Opq):
        return v.t
    if v is None and sort == U:
        return NONE_U
    if isinstance(v, str) and sort == U:
        return str_const(v)
    raise TypeError(f'cannot convert {v!r} to z3')


def kind_of_scalar(v):
    if isinstance(v, bool):
        return 'bool'
    if isinstance(v, int):
        return 'int'
    if isinstance(v, (Fraction, float)):
        return 'real'
    if isinstance(v, Opq) or v is None:
        return 'U'
    if isinstance(v, z3.ExprRef):
        s = v.sort()
        if s == z3.IntSort():
            return 'int'
        if s == z3.RealSort():
            return 'real'
        if s == z3.BoolSort():
            return 'bool'
        if s == U:
            return 'U'
    if isinstance(v, tuple):
        return ('tuple', [kind_of_scalar(x) for x in v], type(v) if isinstance(v, NT) else None)
    raise TypeError(f'no element kind for {v!r}')


class _Inf:
    """np.inf (only compared for equality in the verified code)"""
    def __repr__(self):
        return 'inf'

    def __deepcopy__(self, memo):
        return self

    def __copy__(self):
        return self


INF = _Inf()
